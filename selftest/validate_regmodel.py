"""Self-test only: compare regmodel's tables with the live symbol tables (imports elementpath)."""
import sys, os
sys.path.insert(0, os.path.dirname(os.path.dirname(os.path.abspath(__file__))))
from sa.engine.srcmodel import Model
from sa.engine.regmodel import RegModel, UNFOLDED, MethodRef
import time
t=time.time()
m = Model()
rm = RegModel(m)
print('model+regmodel', round(time.time()-t,2),'s; stmts',rm.statements_interpreted,'decorators',rm.decorators_interpreted)
sys.path.insert(0, m.root)
import elementpath
from elementpath import XPath1Parser, XPath2Parser
from elementpath.xpath30 import XPath30Parser
from elementpath.xpath31 import XPath31Parser
live = {'XPath1Parser': XPath1Parser, 'XPath2Parser': XPath2Parser, 'XPath30Parser': XPath30Parser, 'XPath31Parser': XPath31Parser}
bad = 0
for name, P in live.items():
    t = rm.tables[name]
    lk = set(P.symbol_table); mk = set(t)
    if lk != mk:
        print(name, 'KEYS differ: live-only', sorted(lk-mk)[:20], 'model-only', sorted(mk-lk)[:20]); bad += 1
    for k in lk & mk:
        c = P.symbol_table[k]; r = t[k]
        for a in ('lbp','rbp','symbol','pattern','nargs'):
            lv = getattr(c, a, None); mv = r.get(m, a)
            if mv is UNFOLDED: continue
            if lv != mv:
                print(name, repr(k), a, 'live', lv, 'model', mv); bad += 1
        lv = str(c.label); mv = r.get(m,'label')
        mv = '__'.join(mv).replace(' ','_') if isinstance(mv, tuple) else mv
        if lv != mv: print(name, repr(k), 'label live', lv, 'model', mv); bad+=1
        lst = getattr(c,'sequence_types',()); mst = r.get(m,'sequence_types') or ()
        if tuple(lst) != tuple(mst): print(name, repr(k), 'seqtypes', lst, mst); bad+=1
        for slot in ('nud','led','evaluate','select','cast'):
            lf = getattr(c, slot, None)
            mr = r.method(slot)
            if lf is None:
                if mr is not None: print(name, repr(k), slot, 'live none model', mr.key); bad+=1
                continue
            lq = (lf.__module__, lf.__qualname__, lf.__code__.co_firstlineno)
            if mr is None: print(name, repr(k), slot, 'model none live', lq); bad+=1; continue
            mq = (mr.func.module.name, mr.func.qualname.split('#')[0], mr.func.node.lineno)
            # decorators shift co_firstlineno to first decorator line
            first = min([mr.func.node.lineno]+[d.lineno for d in mr.func.node.decorator_list])
            if lq[0]!=mq[0] or lq[1]!=mq[1] or lq[2] not in (mq[2], first):
                print(name, repr(k), slot, 'live', lq, 'model', mq); bad+=1
    # function signatures
    ls = {(q.expanded_name, n): s for (q,n),s in P.function_signatures.items()}
    ms = rm.function_signatures[name]
    if ls != ms:
        d = {k for k in set(ls)|set(ms) if ls.get(k)!=ms.get(k)}
        print(name, 'signatures differ', len(d), sorted(d)[:5]); bad+=1
print('mismatches:', bad)
sys.exit(1 if bad else 0)
