#!/venv/bin/python
"""
Self-test of the checkers (not a registered check): applies each text mutant of
selftest/mutants.json to a scratch copy of /repo/elementpath, compiles it, runs the named
property check against the copy (VERIF_REPO) and expects exit 1 with the named rule in a
finding line; `preserving` entries are behaviour-preserving refactorings that must stay
silent (exit 0). Scratch copies live under a mkdtemp directory and are removed.
"""
import json, os, shutil, subprocess, sys, tempfile, py_compile
from concurrent.futures import ThreadPoolExecutor
HERE = os.path.dirname(os.path.abspath(__file__))
VERIF = os.path.dirname(HERE)
REPO = '/repo'


def run_one(m):
    d = tempfile.mkdtemp(prefix='verif-selftest-')
    try:
        shutil.copytree(os.path.join(REPO, 'elementpath'), os.path.join(d, 'elementpath'),
                        ignore=shutil.ignore_patterns('__pycache__'))
        edits = m.get('edits') or [m]
        for e in edits:
            p = os.path.join(d, e['file'])
            s = open(p).read()
            if s.count(e['find']) != e.get('count', 1):
                return m['id'], 'STALE', f"pattern occurs {s.count(e['find'])}x in {e['file']}"
            s = s.replace(e['find'], e['replace'])
            open(p, 'w').write(s)
            try:
                compile(s, p, 'exec')
            except SyntaxError as err:
                return m['id'], 'NOCOMPILE', str(err)[:200]
        env = dict(os.environ, VERIF_REPO=d)
        r = subprocess.run(['/venv/bin/python', os.path.join(VERIF, 'sa', 'check.py'),
                            m['property'], '--tier', m.get('tier', 'quick')],
                           capture_output=True, text=True, env=env, cwd=VERIF)
        out = r.stdout
        if m.get('preserving'):
            ok = r.returncode == 0
            return m['id'], 'OK' if ok else 'FALSE-ALARM', '' if ok else out[-600:]
        lines = [ln for ln in out.splitlines() if f"[{m['rule']}]" in ln]
        if r.returncode == 1 and lines:
            if m.get('expect') and not any(m['expect'] in ln for ln in lines):
                return m['id'], 'WRONG-SITE', lines[0][:300]
            return m['id'], 'OK', lines[0][:160]
        return m['id'], f'MISSED(exit={r.returncode})', out[-400:]
    finally:
        shutil.rmtree(d, ignore_errors=True)


def main():
    muts = json.load(open(os.path.join(HERE, 'mutants.json')))
    sel = sys.argv[1:]
    if sel:
        muts = [m for m in muts if m['id'] in sel or m['property'] in sel]
    with ThreadPoolExecutor(max_workers=int(os.environ.get('JOBS', '16'))) as ex:
        res = list(ex.map(run_one, muts))
    bad = 0
    for mid, status, info in res:
        if status != 'OK':
            bad += 1
        print(f'{status:18} {mid}  {info if status != "OK" else ""}')
    print(f'{len(res) - bad}/{len(res)} mutants behaved as expected')
    return 1 if bad else 0


if __name__ == '__main__':
    sys.exit(main())
