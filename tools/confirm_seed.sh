#!/bin/bash
# usage: tools/confirm_seed.sh <PROP> <mN> <checks...> ; confirms an agent-made seed in its worktree and files it under seeded/
set -u
prop=$1; m=$2; shift 2
wt=/tmp/wt_$prop; src=/tmp/seed_out/$prop
[ -d $wt ] || git -C /repo worktree add -q $wt HEAD
git -C $wt checkout -q -- . ; git -C $wt clean -fdq
( cd $wt && /venv/bin/python $src/${m}_demo.py >/tmp/demo_clean.txt 2>&1 ); clean_rc=$?
git -C $wt apply $src/$m.diff || { echo "APPLY FAILED"; exit 3; }
( cd $wt && /venv/bin/python $src/${m}_demo.py >/tmp/demo_mut.txt 2>&1 ); mut_rc=$?
suite=$(/venv/bin/python /verif/tools/baseline_check.py $wt | head -1)
git -C $wt checkout -q -- . ; git -C $wt clean -fdq
echo "$prop/$m: demo clean rc=$clean_rc mutated rc=$mut_rc; suite: $suite"
if [ "${SKIP_TRY:-0}" = 1 ]; then det=0; else
out=$(cd /verif && tools/try_seed.sh $src/$m.diff "$@" 2>&1); det=$?
echo "$out" | grep -E "^== |VIOLATION" | head
fi
if [ $clean_rc -eq 0 ] && [ $mut_rc -ne 0 ] && echo "$suite" | grep -q "baseline_missing=0"; then
  d=/verif/seeded/$prop-$m; mkdir -p $d
  cp $src/$m.diff $d/patch.diff; cp $src/${m}_demo.py $d/demo.py
  python3 - "$prop" "$m" "$d" "$suite" "$det" "$*" <<'PY'
import json,sys,re
prop,m,d,suite,det,checks=sys.argv[1:7]
import os
import glob
cands=sorted(glob.glob(f'/tmp/seed_out/{prop}/README*.txt'), key=os.path.getmtime)
rp=cands[-1] if cands else ''
readme=open(rp).read() if os.path.exists(rp) else ''
json.dump({'property':prop,'seed':m,'source':'independent sub-agent given only the property text and a scratch worktree',
 'confirmed':{'demo_exit_on_clean_tree':0,'demo_exit_with_patch':'non-zero','suite_with_patch':suite},
 'checks_run':checks.split(),'detected_by_checks':det!='0',
 'needs_to_manifest':'see README excerpt','readme_excerpt':readme[:6000]}, open(d+'/meta.json','w'), indent=1)
PY
  echo "filed $d (detected=$det)"
else
  echo "NOT CONFIRMED"
fi
