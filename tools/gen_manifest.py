#!/venv/bin/python
"""Regenerate MANIFEST.json from the table below (keeps the file valid at all times)."""
import json, os, sys
VERIF = os.path.dirname(os.path.dirname(os.path.abspath(__file__)))
sys.path.insert(0, VERIF)
from tools.manifest_table import CHECKS, NOT_APPLICABLE, NOTES

checks = []
for pid, c in CHECKS.items():
    if not os.path.exists(os.path.join(VERIF, 'sa', 'rules', c['module'] + '.py')):
        continue
    checks.append({
        'property_id': pid,
        'quick_cmd': f'/venv/bin/python sa/check.py {pid} --tier quick',
        'thorough_cmd': f'/venv/bin/python sa/check.py {pid} --tier thorough',
        'evidence_file': f'/verif/evidence/{pid}.json',
        'replay_cmd_template': f'/venv/bin/python sa/check.py {pid} --tier thorough  # finding: {{path}}',
        'engine': 'sa',
        'level_claimed': {'category': 'other', 'text': c['level'], 'design_ref': c['design_ref']},
        'level_note': c['note'],
        'technique': c['technique'],
    })
claimed = {c['property_id'] for c in checks}
na = [dict(property_id=p, reason=r) for p, r in NOT_APPLICABLE.items()]
for pid, c in CHECKS.items():
    if pid not in claimed:
        na.append(dict(property_id=pid, reason='check not built yet in this tree (planned: ' + c['technique'] + ')'))
manifest = {
    'version': 1,
    'setup_cmd': '/venv/bin/python -c "import ast, sys; sys.exit(0)"',
    'hooks': {
        'guard': 'ELEMENTPATH_VERIF',
        'enable': 'none needed: the checks are static analyses of the source tree and add no instrumentation to /repo',
        'baseline_off_cmd': 'cd /repo && /venv/bin/python -m pytest -ra -q -p no:cacheprovider --timeout=900 --continue-on-collection-errors',
        'source_commits': [],
        'add_only': True,
    },
    'engines': [{
        'name': 'sa', 'path': 'sa/',
        'serves_properties': sorted(claimed),
        'kind_free_text': 'repository-specific static analysis: ast source model, abstract interpreter of the parser registration DSL, statement CFG with exception edges, resolved call graph, branch-fact dataflow, regex/DFA and literal-table comparison; never imports or runs elementpath',
    }],
    'checks': checks,
    'not_applicable': sorted(na, key=lambda x: x['property_id']),
    'notes': NOTES,
}
json.dump(manifest, open(os.path.join(VERIF, 'MANIFEST.json'), 'w'), indent=1)
print('claimed', sorted(claimed), 'n/a', [x['property_id'] for x in manifest['not_applicable']])
