#!/bin/bash
# usage: tools/try_scratch.sh <patch.diff> <PROP>...  — apply to a scratch copy of /repo's tree (not /repo) and run checks
set -u
patch=$1; shift
d=$(mktemp -d /tmp/verif-try-XXXX)
git -C /repo archive HEAD elementpath | tar -x -C $d
git apply --unsafe-paths --directory $d "$patch" 2>&1 | head -3
cd /verif
for p in "$@"; do
  out=$(VERIF_NO_EVIDENCE=1 VERIF_REPO=$d /venv/bin/python sa/check.py "$p" --tier ${TIER:-quick} 2>&1); code=$?
  echo "== $p exit=$code"; echo "$out" | grep -v "^KNOWN-FINDING" | grep -E "^(VIOLATION|ANALYSIS-ERROR)|\[R[0-9]" | cut -c1-300 | head -8
done
rm -rf $d
