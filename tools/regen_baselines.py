#!/venv/bin/python
"""
Regenerate sa/baselines.json for the named properties from the instance counts measured in
/verif/evidence/<id>.json (run tools/run_all.sh quick first). A baseline is half (rounded up,
at least 1) of the measured count; counters that are 0 today, per-rule obligation totals and the
thorough-tier control counters are not baselined. Review the diff before committing: baselines
are the hand-confirmed vacuity guard.
"""
import json, math, sys
V = '/verif'
b = json.load(open(f'{V}/sa/baselines.json'))
for prop in sys.argv[1:]:
    ev = json.load(open(f'{V}/evidence/{prop}.json'))
    assert ev['tier'] == 'quick', f'{prop}: evidence is from the {ev["tier"]} tier'
    new = {}
    for k, v in sorted(ev['coverage']['instance_counts'].items()):
        if k.endswith('.obligations') or 'control' in k.lower() or not isinstance(v, int) or v <= 0:
            continue
        new[k] = max(1, math.ceil(v / 2))
    old = b.get(prop, {})
    for k in sorted(set(old) | set(new)):
        if old.get(k) != new.get(k):
            print(f'{prop} {k}: {old.get(k)} -> {new.get(k)}')
    b[prop] = new
json.dump(b, open(f'{V}/sa/baselines.json', 'w'), indent=1, sort_keys=True)
