#!/venv/bin/python
"""Maintain known_findings.json by hand-written entries: tools/kf.py add C04 '<key>' '<what>' '<input>'
   or: tools/kf.py fixed C04 <commit> '<key>' '<what>'"""
import json, sys, os
P = os.path.join(os.path.dirname(os.path.dirname(os.path.abspath(__file__))), 'known_findings.json')
d = json.load(open(P))
cmd = sys.argv[1]
if cmd == 'add':
    prop, key, what, inp = sys.argv[2:6]
    d['findings'] = [f for f in d['findings'] if f['key'] != key]
    d['findings'].append({'property': prop, 'key': key, 'what': what, 'input': inp})
elif cmd == 'fixed':
    prop, commit, key, what = sys.argv[2:6]
    d['fixed'].append({'property': prop, 'commit': commit, 'key': key,
                       'what': f'fixed: property={prop} {commit} {what}'})
json.dump(d, open(P, 'w'), indent=1)
