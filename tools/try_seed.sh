#!/bin/bash
# usage: tools/try_seed.sh <patch.diff> <PROP> [<PROP>...]   — apply to /repo, run checks, undo
set -u
patch=$1; shift
cd /verif
git -C /repo diff --quiet || { echo "/repo not clean"; exit 3; }
git -C /repo apply "$patch" || { echo "patch does not apply"; exit 3; }
rc=0
for p in "$@"; do
  out=$(VERIF_NO_EVIDENCE=1 /venv/bin/python sa/check.py "$p" --tier ${TIER:-quick} 2>&1); code=$?
  echo "== $p exit=$code"; echo "$out" | grep -v "^KNOWN-FINDING" | grep -E "^(VIOLATION|ANALYSIS-ERROR)|\[R[0-9]" | cut -c1-260 | head -12
  [ $code -ne 0 ] && rc=1
done
git -C /repo checkout -- .
git -C /repo status --short | head -3
exit $rc
