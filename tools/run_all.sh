#!/bin/bash
# run every claimed check (quick or $1) against /repo, 8 at a time; print one line each
tier=${1:-quick}
cd /verif
ids=$(python3 -c "import json;print(' '.join(c['property_id'] for c in json.load(open('MANIFEST.json'))['checks']))")
printf '%s\n' $ids | xargs -P 8 -I{} sh -c "/venv/bin/python sa/check.py {} --tier $tier > /tmp/verif_run_{}.log 2>&1; echo \"{} exit=\$? \$(tail -1 /tmp/verif_run_{}.log)\"" | sort
