#!/venv/bin/python
"""
Run every claimed check against every seeded mutation; update seeded/*/meta.json and print a
table. Each seed is applied to its own scratch copy of /repo's tracked elementpath/ tree (under a
mkdtemp directory, removed afterwards) and the checks run against the copy (VERIF_REPO), from a
snapshot of /verif taken at start: /repo itself is not touched and later edits of the rules do
not leak into a running matrix.
"""
import concurrent.futures as cf
import glob
import json
import os
import shutil
import subprocess
import sys
import tempfile

V = '/verif'
checks = [c['property_id'] for c in json.load(open(f'{V}/MANIFEST.json'))['checks']]
work = tempfile.mkdtemp(prefix='verif-seedmatrix-')
snap = os.path.join(work, 'verif')
os.makedirs(snap)
for name in ('sa', 'known_findings.json', 'MANIFEST.json', 'selftest', 'seeded'):
    src = os.path.join(V, name)
    if os.path.isdir(src):
        shutil.copytree(src, os.path.join(snap, name),
                        ignore=shutil.ignore_patterns('__pycache__'))
    else:
        shutil.copy(src, os.path.join(snap, name))
base = os.path.join(work, 'base')
os.makedirs(base)
subprocess.run('git -C /repo archive HEAD elementpath | tar -x -C ' + base, shell=True, check=True)


def one(d):
    name = os.path.basename(d.rstrip('/'))
    meta = json.load(open(d + 'meta.json'))
    tree = tempfile.mkdtemp(prefix=name + '-', dir=work)
    try:
        shutil.copytree(os.path.join(base, 'elementpath'), os.path.join(tree, 'elementpath'))
        r = subprocess.run(['git', 'apply', '--unsafe-paths', '--directory', tree,
                            d + 'patch.diff'], cwd='/', capture_output=True, text=True)
        if r.returncode != 0:
            r = subprocess.run(['patch', '-p1', '-s', '-d', tree, '-i', d + 'patch.diff'],
                               capture_output=True, text=True)
            if r.returncode != 0:
                return name, 'PATCH-STALE', [], meta
        own = meta['property']
        hits = []
        for c in [own] + [c for c in checks if c != own]:
            r = subprocess.run(['/venv/bin/python', 'sa/check.py', c], cwd=snap,
                               capture_output=True, text=True,
                               env=dict(os.environ, VERIF_NO_EVIDENCE='1', VERIF_REPO=tree))
            rules = sorted({ln.split('[')[1].split(']')[0] for ln in r.stdout.splitlines()
                            if ': [R' in ln})
            if r.returncode == 1:
                hits.append(f'{c}:{"+".join(rules)}')
            elif r.returncode == 2:
                hits.append(f'{c}:ANALYSIS-ERROR')
        return name, 'detected' if hits else 'MISSED', hits, meta
    finally:
        shutil.rmtree(tree, ignore_errors=True)


try:
    sel = sys.argv[1:]
    dirs = [d for d in sorted(glob.glob(f'{V}/seeded/*/'))
            if not sel or any(os.path.basename(d.rstrip('/')).startswith(s) for s in sel)]
    with cf.ThreadPoolExecutor(int(os.environ.get('JOBS', '16'))) as ex:
        rows = list(ex.map(one, dirs))
finally:
    shutil.rmtree(work, ignore_errors=True)
for name, status, hits, meta in rows:
    if status != 'PATCH-STALE':
        meta['detected_by'] = hits
        meta['detected_by_own_property_check'] = any(
            h.startswith(meta['property'] + ':') and 'ANALYSIS' not in h for h in hits)
        json.dump(meta, open(f'{V}/seeded/{name}/meta.json', 'w'), indent=1)
    print(f'{name:10} {status:10} {", ".join(hits)}')
print(sum(1 for r in rows if r[1] == 'detected'), '/', len(rows), 'detected;',
      sum(1 for r in rows if r[3].get('detected_by_own_property_check')), 'by their own check')
