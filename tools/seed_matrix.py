#!/venv/bin/python
"""Run every claimed check against every seeded mutation; update seeded/*/meta.json and print a table."""
import json, os, subprocess, glob, sys
V='/verif'
checks=[c['property_id'] for c in json.load(open(f'{V}/MANIFEST.json'))['checks']]
rows=[]
for d in sorted(glob.glob(f'{V}/seeded/*/')):
    name=os.path.basename(d.rstrip('/'))
    meta=json.load(open(d+'meta.json'))
    assert subprocess.run(['git','-C','/repo','diff','--quiet']).returncode==0, '/repo not clean'
    if subprocess.run(['git','-C','/repo','apply',d+'patch.diff']).returncode!=0:
        rows.append((name,'PATCH-STALE',[])); continue
    try:
        own=meta['property']; cand=[own]+[c for c in checks if c!=own]
        hits=[]
        import concurrent.futures as cf
        def run(c):
            r=subprocess.run(['/venv/bin/python','sa/check.py',c],cwd=V,capture_output=True,text=True,env=dict(os.environ,VERIF_NO_EVIDENCE='1'))
            rules=sorted({ln.split('[')[1].split(']')[0] for ln in r.stdout.splitlines() if ': [R' in ln})
            return c,r.returncode,rules
        with cf.ThreadPoolExecutor(8) as ex:
            for c,rc,rules in ex.map(run,cand):
                if rc==1: hits.append(f'{c}:{"+".join(rules)}')
                elif rc==2: hits.append(f'{c}:ANALYSIS-ERROR')
    finally:
        subprocess.run(['git','-C','/repo','checkout','--','.'])
    meta['detected_by']=hits; meta['detected_by_own_property_check']=any(h.startswith(meta['property']+':') and 'ANALYSIS' not in h for h in hits)
    json.dump(meta,open(d+'meta.json','w'),indent=1)
    rows.append((name,'detected' if hits else 'MISSED',hits))
for r in rows: print(f'{r[0]:10} {r[1]:10} {", ".join(r[2])}')
print(sum(1 for r in rows if r[1]=='detected'),'/',len(rows),'detected')
