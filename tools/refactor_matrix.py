#!/venv/bin/python
"""Apply each behaviour-preserving refactoring (refactorings/<tag>/rNN.diff) to its own scratch
copy of /repo's tracked elementpath/ tree (under a mkdtemp directory, removed afterwards) and run
every claimed check against the copy (VERIF_REPO), from a snapshot of /verif taken at start: any
exit code other than 0 is a false alarm (1) or an unmodelled idiom (2). /repo is not touched."""
import concurrent.futures as cf
import glob
import json
import os
import shutil
import subprocess
import sys
import tempfile

V = '/verif'
checks = os.environ.get('CHECKS', '').split() or [c['property_id'] for c in json.load(open(f'{V}/MANIFEST.json'))['checks']]
src = sys.argv[1] if len(sys.argv) > 1 else f'{V}/refactorings'
work = tempfile.mkdtemp(prefix='verif-refmatrix-')
snap = os.path.join(work, 'verif')
os.makedirs(snap)
for name in ('sa', 'known_findings.json', 'MANIFEST.json', 'selftest', 'seeded'):
    p = os.path.join(V, name)
    if os.path.isdir(p):
        shutil.copytree(p, os.path.join(snap, name), ignore=shutil.ignore_patterns('__pycache__'))
    else:
        shutil.copy(p, os.path.join(snap, name))
base = os.path.join(work, 'base')
os.makedirs(base)
subprocess.run('git -C /repo archive HEAD elementpath | tar -x -C ' + base, shell=True, check=True)


def one(d):
    name = '/'.join(d.split('/')[-2:])
    tree = tempfile.mkdtemp(prefix='r-', dir=work)
    try:
        shutil.copytree(os.path.join(base, 'elementpath'), os.path.join(tree, 'elementpath'))
        r = subprocess.run(['git', 'apply', '--unsafe-paths', '--directory', tree, d], cwd='/',
                           capture_output=True, text=True)
        if r.returncode != 0:
            return name, 'PATCH-STALE', []
        bad = []
        for c in checks:
            r = subprocess.run(['/venv/bin/python', 'sa/check.py', c], cwd=snap,
                               capture_output=True, text=True,
                               env=dict(os.environ, VERIF_NO_EVIDENCE='1', VERIF_REPO=tree))
            if r.returncode != 0:
                msg = [ln for ln in r.stdout.splitlines()
                       if ': [R' in ln or 'ANALYSIS-ERROR' in ln][:2]
                bad.append((c, r.returncode, msg))
        return name, 'silent' if not bad else 'ALARM', bad
    finally:
        shutil.rmtree(tree, ignore_errors=True)


try:
    with cf.ThreadPoolExecutor(int(os.environ.get('JOBS', '16'))) as ex:
        rows = list(ex.map(one, sorted(glob.glob(f'{src}/*/r*.diff'))))
finally:
    shutil.rmtree(work, ignore_errors=True)
for r in rows:
    print(f'{r[0]:14} {r[1]:8}', *[f'\n      {c} exit={rc} {m}' for c, rc, m in r[2]])
print(sum(1 for r in rows if r[1] == 'silent'), '/', len(rows), 'silent')
