#!/venv/bin/python
"""Apply each behaviour-preserving refactoring (refactorings/<tag>/rNN.diff) to /repo transiently
and run every claimed check: any exit code other than 0 is a false alarm (1) or an unmodelled
idiom (2)."""
import json, os, subprocess, glob, sys
import concurrent.futures as cf
V = '/verif'
checks = [c['property_id'] for c in json.load(open(f'{V}/MANIFEST.json'))['checks']]
rows = []
src = sys.argv[1] if len(sys.argv) > 1 else f'{V}/refactorings'
for d in sorted(glob.glob(f'{src}/*/r*.diff')):
    name = '/'.join(d.split('/')[-2:])
    assert subprocess.run(['git', '-C', '/repo', 'diff', '--quiet']).returncode == 0, '/repo not clean'
    if subprocess.run(['git', '-C', '/repo', 'apply', d]).returncode != 0:
        rows.append((name, 'PATCH-STALE', [])); continue
    try:
        def run(c):
            r = subprocess.run(['/venv/bin/python', 'sa/check.py', c], cwd=V, capture_output=True,
                               text=True, env=dict(os.environ, VERIF_NO_EVIDENCE='1'))
            msg = [ln for ln in r.stdout.splitlines() if ': [R' in ln or 'ANALYSIS-ERROR' in ln][:2]
            return c, r.returncode, msg
        bad = []
        with cf.ThreadPoolExecutor(10) as ex:
            for c, rc, msg in ex.map(run, checks):
                if rc != 0:
                    bad.append((c, rc, msg))
    finally:
        subprocess.run(['git', '-C', '/repo', 'checkout', '--', '.'])
    rows.append((name, 'silent' if not bad else 'ALARM', bad))
for r in rows:
    print(f'{r[0]:14} {r[1]:8}', *[f'\n      {c} exit={rc} {m}' for c, rc, m in r[2]])
print(sum(1 for r in rows if r[1] == 'silent'), '/', len(rows), 'silent')
