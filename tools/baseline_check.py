#!/venv/bin/python
"""Run the pinned suite and compare with /root/.vp/BASELINE.json (stable_pass must all pass)."""
import json, subprocess, sys, tempfile, os, ast
import xml.etree.ElementTree as ET
repo = sys.argv[1] if len(sys.argv) > 1 else '/repo'
b = json.load(open('/root/.vp/BASELINE.json'))
stable = b['stable_pass']
if isinstance(stable, str): stable = ast.literal_eval(stable)
fd, path = tempfile.mkstemp(suffix='.xml'); os.close(fd)
subprocess.run(['/venv/bin/python','-m','pytest','-q','-p','no:cacheprovider','--timeout=900',
                '--continue-on-collection-errors','-n','8' if os.environ.get('XDIST') else '0',
                f'--junitxml={path}'] if False else
               ['/venv/bin/python','-m','pytest','-q','-p','no:cacheprovider','--timeout=900',
                '--continue-on-collection-errors', f'--junitxml={path}'],
               cwd=repo, stdout=subprocess.DEVNULL, stderr=subprocess.DEVNULL)
passed=set(); failed=set()
for tc in ET.parse(path).iter('testcase'):
    name=f"{tc.get('classname')}::{tc.get('name')}"
    if any(c.tag in ('failure','error') for c in tc): failed.add(name)
    elif any(c.tag=='skipped' for c in tc): pass
    else: passed.add(name)
os.unlink(path)
missing=[t for t in stable if t not in passed]
print(f'passed={len(passed)} failed={len(failed)} baseline={len(stable)} baseline_missing={len(missing)}')
for t in missing[:30]: print('  MISSING', t)
sys.exit(1 if missing else 0)
