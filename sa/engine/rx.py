"""
Regular-expression language comparison without running any matcher.

Patterns are parsed with CPython's own regex parser (re._parser), translated to a Thompson
NFA over a partition of the code space induced by the character sets of both patterns, and
compared by a product search over the determinised automata. `equivalent()` returns None
when the two languages are equal (full-match semantics) or a shortest string accepted by
exactly one of them.

Supported: literals, ., character sets with ranges/negation/\\d\\s\\w categories (ASCII and
Unicode \\d/\\s handled by explicit ranges given in CATEGORY_RANGES), groups, alternation,
greedy and lazy repeats with finite or open bounds, outer ^…$ anchors. Look-around, back
references and inner anchors raise Unsupported.
"""
from __future__ import annotations

import re
import re._constants as C    # type: ignore[import-not-found]
import re._parser as P       # type: ignore[import-not-found]
from typing import Any, Optional

MAXU = 0x110000


class Unsupported(Exception):
    pass


CATEGORY_RANGES = {
    C.CATEGORY_DIGIT: None,        # Unicode Nd: computed lazily
    C.CATEGORY_SPACE: None,
    C.CATEGORY_WORD: None,
}
_cat_cache: dict[Any, list[tuple[int, int]]] = {}


def _ranges_of(pred) -> list[tuple[int, int]]:   # type: ignore[no-untyped-def]
    out = []
    start = None
    for cp in range(MAXU):
        if pred(chr(cp)):
            if start is None:
                start = cp
        elif start is not None:
            out.append((start, cp))
            start = None
    if start is not None:
        out.append((start, MAXU))
    return out


def category_ranges(cat: Any) -> list[tuple[int, int]]:
    if cat in _cat_cache:
        return _cat_cache[cat]
    if cat in (C.CATEGORY_DIGIT, C.CATEGORY_NOT_DIGIT):
        base = _ranges_of(lambda ch: ch.isdigit() and ch.isdecimal())
    elif cat in (C.CATEGORY_SPACE, C.CATEGORY_NOT_SPACE):
        base = _ranges_of(lambda ch: ch.isspace() or ch in '\x1c\x1d\x1e\x1f')
    elif cat in (C.CATEGORY_WORD, C.CATEGORY_NOT_WORD):
        base = _ranges_of(lambda ch: ch.isalnum() or ch == '_')
    else:
        raise Unsupported(f'category {cat}')
    if cat in (C.CATEGORY_NOT_DIGIT, C.CATEGORY_NOT_SPACE, C.CATEGORY_NOT_WORD):
        base = complement(base)
    _cat_cache[cat] = base
    return base


def complement(rs: list[tuple[int, int]]) -> list[tuple[int, int]]:
    out = []
    pos = 0
    for a, b in sorted(rs):
        if a > pos:
            out.append((pos, a))
        pos = max(pos, b)
    if pos < MAXU:
        out.append((pos, MAXU))
    return out


def normalise(rs: list[tuple[int, int]]) -> list[tuple[int, int]]:
    out: list[list[int]] = []
    for a, b in sorted(rs):
        if out and a <= out[-1][1]:
            out[-1][1] = max(out[-1][1], b)
        else:
            out.append([a, b])
    return [(a, b) for a, b in out]


def set_ranges(items: list) -> list[tuple[int, int]]:
    neg = False
    rs: list[tuple[int, int]] = []
    for op, av in items:
        if op is C.NEGATE:
            neg = True
        elif op is C.LITERAL:
            rs.append((av, av + 1))
        elif op is C.RANGE:
            rs.append((av[0], av[1] + 1))
        elif op is C.CATEGORY:
            rs.extend(category_ranges(av))
        else:
            raise Unsupported(f'set item {op}')
    rs = normalise(rs)
    return complement(rs) if neg else rs


class NFA:
    def __init__(self) -> None:
        self.eps: list[list[int]] = []
        self.trans: list[list[tuple[list[tuple[int, int]], int]]] = []
        # look-ahead edges: (target, ranges) — the NEXT consumed character must be in ranges
        self.look: list[list[tuple[int, tuple[tuple[int, int], ...]]]] = []

    def new(self) -> int:
        self.eps.append([])
        self.trans.append([])
        self.look.append([])
        return len(self.eps) - 1


def _single_char_set(items: list) -> Optional[list[tuple[int, int]]]:
    """ranges if `items` matches exactly one character (set, literal or branch of those)."""
    if len(items) != 1:
        return None
    op, av = items[0]
    if op is C.LITERAL:
        return [(av, av + 1)]
    if op is C.IN:
        return set_ranges(av)
    if op is C.ANY:
        return complement([(10, 11)])
    if op is C.BRANCH:
        out: list[tuple[int, int]] = []
        for alt in av[1]:
            r = _single_char_set(list(alt))
            if r is None:
                return None
            out.extend(r)
        return normalise(out)
    if op is C.SUBPATTERN:
        return _single_char_set(list(av[3]))
    return None


def strip_anchors(tree: Any) -> list:
    items = list(tree)
    if items and items[0][0] is C.AT and items[0][1] in (C.AT_BEGINNING, C.AT_BEGINNING_STRING):
        items = items[1:]
    if items and items[-1][0] is C.AT and items[-1][1] in (C.AT_END, C.AT_END_STRING):
        items = items[:-1]
    return items


def build(nfa: NFA, items: list, start: int, repeat_cap: int = 40) -> int:
    """Add the sequence `items` starting at state `start`; return the end state."""
    cur = start
    for op, av in items:
        if op is C.LITERAL:
            nxt = nfa.new()
            nfa.trans[cur].append(([(av, av + 1)], nxt))
            cur = nxt
        elif op is C.NOT_LITERAL:
            nxt = nfa.new()
            nfa.trans[cur].append((complement([(av, av + 1)]), nxt))
            cur = nxt
        elif op is C.ANY:
            nxt = nfa.new()
            nfa.trans[cur].append((complement([(10, 11)]), nxt))
            cur = nxt
        elif op is C.IN:
            nxt = nfa.new()
            nfa.trans[cur].append((set_ranges(av), nxt))
            cur = nxt
        elif op is C.BRANCH:
            end = nfa.new()
            for alt in av[1]:
                s = nfa.new()
                nfa.eps[cur].append(s)
                e = build(nfa, list(alt), s, repeat_cap)
                nfa.eps[e].append(end)
            cur = end
        elif op is C.SUBPATTERN:
            cur = build(nfa, list(av[3]), cur, repeat_cap)
        elif op in (C.MAX_REPEAT, C.MIN_REPEAT):
            lo, hi, sub = av
            sub = list(sub)
            if lo > repeat_cap or (hi is not C.MAXREPEAT and hi > repeat_cap):
                raise Unsupported(f'repeat bound above {repeat_cap}')
            for _ in range(lo):
                cur = build(nfa, sub, cur, repeat_cap)
            if hi is C.MAXREPEAT:
                loop_s = nfa.new()
                nfa.eps[cur].append(loop_s)
                e = build(nfa, sub, loop_s, repeat_cap)
                nfa.eps[e].append(loop_s)
                end = nfa.new()
                nfa.eps[loop_s].append(end)
                cur = end
            else:
                end = nfa.new()
                nfa.eps[cur].append(end)
                for _ in range(hi - lo):
                    cur = build(nfa, sub, cur, repeat_cap)
                    nfa.eps[cur].append(end)
                cur = end
        elif op is C.ASSERT and av[0] == 1:
            rs = _single_char_set(list(av[1]))
            if rs is None:
                raise Unsupported('look-ahead longer than one character')
            nxt = nfa.new()
            nfa.look[cur].append((nxt, tuple(rs)))
            cur = nxt
        elif op is C.AT:
            raise Unsupported('inner anchor')
        else:
            raise Unsupported(f'op {op}')
    return cur


def compile_nfa(pattern: str, flags: int = 0) -> tuple[NFA, int, int]:
    tree = P.parse(pattern, flags)
    items = strip_anchors(tree)
    # a single top-level non-capturing group wrapping everything may carry the anchors inside
    nfa = NFA()
    s = nfa.new()
    e = build(nfa, items, s)
    return nfa, s, e


def _meet(a: Optional[tuple], b: tuple) -> tuple:
    if a is None:
        return b
    out = []
    for x0, x1 in a:
        for y0, y1 in b:
            lo, hi = max(x0, y0), min(x1, y1)
            if lo < hi:
                out.append((lo, hi))
    return tuple(out)


def _closure(nfa: NFA, states: frozenset) -> frozenset:
    """states are (nfa state, pending look-ahead constraint or None)."""
    seen = set(states)
    stack = list(states)
    while stack:
        x, c = stack.pop()
        for y in nfa.eps[x]:
            if (y, c) not in seen:
                seen.add((y, c))
                stack.append((y, c))
        for y, rs in nfa.look[x]:
            k = (y, _meet(c, rs))
            if k not in seen:
                seen.add(k)
                stack.append(k)
    return frozenset(seen)

def _boundaries(nfa: NFA) -> set[int]:
    b = {0, MAXU}
    for tr in nfa.trans:
        for rs, _ in tr:
            for a, c in rs:
                b.add(a)
                b.add(c)
    for lk in nfa.look:
        for _, rs in lk:
            for a, c in rs:
                b.add(a)
                b.add(c)
    return b


def equivalent(p1: str, p2: str, flags1: int = 0, flags2: int = 0,
               limit: int = 200000) -> Optional[str]:
    """None if L(p1) == L(p2) (full match), else a witness string in exactly one of them."""
    n1, s1, e1 = compile_nfa(p1, flags1)
    n2, s2, e2 = compile_nfa(p2, flags2)
    cuts = sorted(_boundaries(n1) | _boundaries(n2))
    classes = [(a, b) for a, b in zip(cuts, cuts[1:]) if a < b]

    def step(nfa: NFA, st: frozenset, cls: tuple[int, int]) -> frozenset:
        out = set()
        for x, c in st:
            if c is not None and not any(a <= cls[0] and cls[1] <= b for a, b in c):
                continue
            for rs, y in nfa.trans[x]:
                for a, b in rs:
                    if a <= cls[0] and cls[1] <= b:
                        out.add((y, None))
                        break
        return _closure(nfa, frozenset(out))

    start = (_closure(n1, frozenset([(s1, None)])), _closure(n2, frozenset([(s2, None)])))
    seen = {start: ''}
    queue = [start]
    while queue:
        if len(seen) > limit:
            raise Unsupported('state limit')
        a, b = queue.pop(0)
        w = seen[(a, b)]
        if ((e1, None) in a) != ((e2, None) in b):
            return w
        for cls in classes:
            na, nb = step(n1, a, cls), step(n2, b, cls)
            if not na and not nb:
                continue
            key = (na, nb)
            if key not in seen:
                ch = chr(cls[0]) if not (0xD800 <= cls[0] < 0xE000) else '�'
                seen[key] = w + ch
                queue.append(key)
    return None


def accepts(pattern: str, s: str, flags: int = 0) -> bool:
    """Full-match of s by the automaton (used by positive controls only)."""
    nfa, st, e = compile_nfa(pattern, flags)
    cur = _closure(nfa, frozenset([(st, None)]))
    for ch in s:
        cp = ord(ch)
        nxt = set()
        for x, c in cur:
            if c is not None and not any(a <= cp < b for a, b in c):
                continue
            for rs, y in nfa.trans[x]:
                if any(a <= cp < b for a, b in rs):
                    nxt.add((y, None))
        cur = _closure(nfa, frozenset(nxt))
    return (e, None) in cur


_ = re
