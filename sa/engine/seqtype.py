"""
Recursive-descent parser for the SequenceType production of XPath 3.1 (A.1 EBNF [79]-[112]).

parse(text) returns a small tree  ('seq', item, occurrence)  with item one of
  ('empty',) ('item',) ('atomic', qname) ('kind', name, args) ('function', params|'*', ret)
  ('map', key|'*', value) ('array', member|'*') ('paren', item)
or raises SeqTypeError with the offending position.
"""
from __future__ import annotations

import re

NCNAME = r'[^\W\d][\w.\-]*'
QNAME = re.compile(rf'(?:Q\{{[^{{}}]*\}}{NCNAME}|{NCNAME}:{NCNAME}|{NCNAME})')
KIND_TESTS = {'document-node', 'element', 'attribute', 'schema-element', 'schema-attribute',
              'processing-instruction', 'comment', 'text', 'namespace-node', 'node'}


class SeqTypeError(Exception):
    pass


class _P:
    def __init__(self, s: str) -> None:
        self.s = s
        self.i = 0

    def ws(self) -> None:
        while self.i < len(self.s) and self.s[self.i].isspace():
            self.i += 1

    def peek(self, t: str) -> bool:
        self.ws()
        return self.s.startswith(t, self.i)

    def eat(self, t: str) -> bool:
        if self.peek(t):
            self.i += len(t)
            return True
        return False

    def need(self, t: str) -> None:
        if not self.eat(t):
            raise SeqTypeError(f'expected {t!r} at {self.i} in {self.s!r}')

    def qname(self) -> str:
        self.ws()
        m = QNAME.match(self.s, self.i)
        if not m:
            raise SeqTypeError(f'QName expected at {self.i} in {self.s!r}')
        self.i = m.end()
        return m.group()

    def keyword(self) -> str:
        """a name immediately followed by '(' (kind test / function / map / array / item)."""
        self.ws()
        m = re.compile(rf'({NCNAME}(?:-{NCNAME})*)\s*\(').match(self.s, self.i)
        return m.group(1) if m else ''

    # SequenceType
    def sequence_type(self):
        if self.keyword() == 'empty-sequence':
            self.qname()
            self.need('(')
            self.need(')')
            return ('seq', ('empty',), '')
        item = self.item_type()
        occ = ''
        self.ws()
        if self.i < len(self.s) and self.s[self.i] in '?*+':
            occ = self.s[self.i]
            self.i += 1
        return ('seq', item, occ)

    def item_type(self):
        self.ws()
        if self.eat('('):
            it = self.item_type()
            self.need(')')
            return ('paren', it)
        kw = self.keyword()
        if kw == 'item':
            self.qname(); self.need('('); self.need(')')
            return ('item',)
        if kw == 'function':
            self.qname(); self.need('(')
            if self.eat('*'):
                self.need(')')
                return ('function', '*', None)
            params = []
            if not self.peek(')'):
                params.append(self.sequence_type())
                while self.eat(','):
                    params.append(self.sequence_type())
            self.need(')')
            self.ws()
            if not re.compile(r'as\b').match(self.s, self.i):
                raise SeqTypeError(f"'as' expected at {self.i} in {self.s!r}")
            self.i += 2
            ret = self.sequence_type()
            return ('function', params, ret)
        if kw == 'map':
            self.qname(); self.need('(')
            if self.eat('*'):
                self.need(')')
                return ('map', '*', None)
            key = self.qname()
            self.need(',')
            val = self.sequence_type()
            self.need(')')
            return ('map', key, val)
        if kw == 'array':
            self.qname(); self.need('(')
            if self.eat('*'):
                self.need(')')
                return ('array', '*')
            member = self.sequence_type()
            self.need(')')
            return ('array', member)
        if kw in KIND_TESTS:
            return self.kind_test(kw)
        if kw:
            raise SeqTypeError(f'unknown item type {kw}() in {self.s!r}')
        return ('atomic', self.qname())

    def kind_test(self, kw: str):
        self.qname(); self.need('(')
        args: list = []
        if kw in ('comment', 'text', 'namespace-node', 'node'):
            pass
        elif kw == 'document-node':
            if not self.peek(')'):
                inner = self.keyword()
                if inner not in ('element', 'schema-element'):
                    raise SeqTypeError(f'document-node() takes an element test in {self.s!r}')
                args.append(self.kind_test(inner))
        elif kw in ('element', 'attribute'):
            if not self.peek(')'):
                args.append('*' if self.eat('*') else self.qname())
                if self.eat(','):
                    args.append(self.qname())
                    if kw == 'element' and self.eat('?'):
                        args.append('?')
        elif kw in ('schema-element', 'schema-attribute'):
            args.append(self.qname())
        elif kw == 'processing-instruction':
            if not self.peek(')'):
                self.ws()
                m = re.compile(r'"[^"]*"|\'[^\']*\'').match(self.s, self.i)
                if m:
                    self.i = m.end()
                    args.append(m.group())
                else:
                    args.append(self.qname())
        self.need(')')
        return ('kind', kw, args)


def parse(text: str):
    p = _P(text)
    t = p.sequence_type()
    p.ws()
    if p.i != len(p.s):
        raise SeqTypeError(f'trailing text at {p.i} in {text!r}')
    return t


def item_kind(t) -> str:
    """Coarse item class of a parsed sequence type: atomic:<qname> | node | item | function |
    map | array | empty"""
    it = t[1]
    while it[0] == 'paren':
        it = it[1]
    if it[0] == 'atomic':
        return 'atomic:' + it[1]
    if it[0] == 'kind':
        return 'node:' + it[1]
    return it[0]
