"""
A small forward may-analysis over the CFG: local names -> set of taint kinds.

The client supplies
  expr_taint(expr, state, node) -> set of kinds   taint of an expression value
  iter_taint(expr, state, node)  -> set of kinds  taint of the ELEMENTS obtained by iterating
The engine handles assignment (incl. tuple targets, walrus, for/with targets,
comprehension-free) and joins by union. Stores into a local container
(`c[k] = tainted`, `c.append(tainted)`) mark the container as holding that kind
('holds:<kind>'), and a subscript load from such a container yields the kind again.
"""
from __future__ import annotations

import ast
from typing import Callable

from .cfg import CFG, Node

State = dict[str, frozenset[str]]
MUT_ADD = {'append', 'add', 'insert', 'extend', 'setdefault', 'update'}


def _targets(t: ast.AST) -> list[ast.AST]:
    if isinstance(t, (ast.Tuple, ast.List)):
        out = []
        for e in t.elts:
            out.extend(_targets(e))
        return out
    if isinstance(t, ast.Starred):
        return _targets(t.value)
    return [t]


class Taint:
    def __init__(self, cfg: CFG,
                 expr_taint: Callable[[ast.AST, State, Node], set[str]],
                 iter_taint: Callable[[ast.AST, State, Node], set[str]]) -> None:
        self.cfg = cfg
        self.expr_taint = expr_taint
        self.iter_taint = iter_taint
        self.state_in: dict[int, State] = {}
        self._run()

    def value_taint(self, e: ast.AST, st: State, n: Node) -> set[str]:
        """Taint of expression e including local propagation rules."""
        out = set(self.expr_taint(e, st, n))
        if isinstance(e, ast.Name):
            out |= {k for k in st.get(e.id, ()) if not k.startswith('holds:')}
        elif isinstance(e, ast.Subscript) and not isinstance(e.slice, ast.Slice):
            if isinstance(e.value, ast.Name):
                out |= {k[6:] for k in st.get(e.value.id, ()) if k.startswith('holds:')}
        elif isinstance(e, ast.IfExp):
            out |= self.value_taint(e.body, st, n) | self.value_taint(e.orelse, st, n)
        elif isinstance(e, ast.NamedExpr):
            out |= self.value_taint(e.value, st, n)
        elif isinstance(e, ast.Call) and isinstance(e.func, ast.Name) and e.func.id == 'cast' \
                and len(e.args) == 2:
            out |= self.value_taint(e.args[1], st, n)
        return out

    def holds_taint(self, e: ast.AST, st: State, n: Node) -> set[str]:
        """Kinds a freshly built container expression holds (list/tuple/dict displays)."""
        out: set[str] = set()
        if isinstance(e, ast.Name):
            out |= {k for k in st.get(e.id, ()) if k.startswith('holds:')}
        if isinstance(e, (ast.List, ast.Tuple, ast.Set)):
            for x in e.elts:
                out |= {'holds:' + k for k in self.value_taint(x, st, n)}
        if isinstance(e, ast.Dict):
            for x in e.values:
                if x is not None:
                    out |= {'holds:' + k for k in self.value_taint(x, st, n)}
        return out

    def _assign(self, st: State, target: ast.AST, kinds: set[str]) -> None:
        if isinstance(target, ast.Name):
            st[target.id] = frozenset(kinds)
        elif isinstance(target, ast.Subscript) and isinstance(target.value, ast.Name):
            cur = set(st.get(target.value.id, ()))
            cur |= {'holds:' + k for k in kinds if not k.startswith('holds:')}
            st[target.value.id] = frozenset(cur)

    def transfer(self, n: Node, st_in: State) -> State:
        st = dict(st_in)
        a = n.ast
        if n.kind == 'for':
            elems = self.iter_taint(a.iter, st, n)            # type: ignore[union-attr]
            if isinstance(a.iter, ast.Name):                  # type: ignore[union-attr]
                elems |= {k[6:] for k in st.get(a.iter.id, ()) if k.startswith('holds:')}
            for t in _targets(a.target):                      # type: ignore[union-attr]
                self._assign(st, t, set(elems))
            return st
        if n.kind == 'with':
            for it in a.items:                                # type: ignore[union-attr]
                if it.optional_vars is not None:
                    for t in _targets(it.optional_vars):
                        self._assign(st, t, self.value_taint(it.context_expr, st, n))
            return st
        if n.kind == 'stmt':
            if isinstance(a, ast.Assign):
                kinds = self.value_taint(a.value, st, n) | self.holds_taint(a.value, st, n)
                for t in a.targets:
                    ts = _targets(t)
                    if len(ts) == 1:
                        self._assign(st, ts[0], kinds)
                    elif isinstance(a.value, (ast.Tuple, ast.List)) \
                            and len(a.value.elts) == len(ts):
                        for tt, vv in zip(ts, a.value.elts):
                            self._assign(st, tt, self.value_taint(vv, st_in, n)
                                         | self.holds_taint(vv, st_in, n))
                    else:
                        elems = self.iter_taint(a.value, st, n)
                        for tt in ts:
                            self._assign(st, tt, set(elems))
            elif isinstance(a, ast.AnnAssign) and a.value is not None:
                self._assign(st, a.target, self.value_taint(a.value, st, n)
                             | self.holds_taint(a.value, st, n))
            elif isinstance(a, ast.Expr) and isinstance(a.value, ast.Call):
                c = a.value
                if isinstance(c.func, ast.Attribute) and c.func.attr in MUT_ADD \
                        and isinstance(c.func.value, ast.Name) and c.args:
                    kinds: set[str] = set()
                    for x in c.args:
                        kinds |= self.value_taint(x, st, n)
                        if c.func.attr in ('extend', 'update'):
                            kinds |= self.iter_taint(x, st, n)
                    if kinds:
                        cur = set(st.get(c.func.value.id, ()))
                        cur |= {'holds:' + k for k in kinds if not k.startswith('holds:')}
                        st[c.func.value.id] = frozenset(cur)
        for x in n.walk():
            if isinstance(x, ast.NamedExpr):
                self._assign(st, x.target, self.value_taint(x.value, st, n))
        return st

    def _run(self) -> None:
        cfg = self.cfg
        self.state_in = {cfg.entry.id: {}}
        work = [cfg.entry]
        while work:
            n = work.pop()
            out = self.transfer(n, self.state_in[n.id])
            for _, s in n.succs:
                old = self.state_in.get(s.id)
                if old is None:
                    self.state_in[s.id] = dict(out)
                    work.append(s)
                else:
                    changed = False
                    for k, v in out.items():
                        nv = old.get(k, frozenset()) | v
                        if nv != old.get(k):
                            old[k] = nv
                            changed = True
                    if changed:
                        work.append(s)

    def at(self, n: Node) -> State:
        return self.state_in.get(n.id, {})
