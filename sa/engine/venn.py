"""
Abstract interpretation of straight-line set code over Venn regions.

A Boolean identity between sets built from k generator sets with ∪ ∩ − and complement, under
tests for emptiness, holds for all sets iff it holds in every *inhabitation pattern* of the 2^k
Venn regions of the generators: a set is the union of the inhabited regions it covers, and the
truth of an emptiness test depends only on which regions are inhabited. The interpreter below
walks the AST of a method (never runs it): a set-valued variable is a bitmask over the regions,
`|= &= -= ^= | & - ^ .clear() .copy() .update() .difference_update() UnicodeSubset()
UnicodeSubset([(0, maxunicode + 1)])` are bitwise operations, `if X` / `if not X` on a set is
decided per pattern. Anything else raises AnalysisError (fail closed, exit 2).
"""
from __future__ import annotations

import ast
from typing import Callable, Optional

from .srcmodel import AnalysisError, dotted, stmt_text


class _Return(Exception):
    pass


class VennInterp:
    def __init__(self, func: ast.FunctionDef, env: dict[str, int], universe: int,
                 truthy_calls: Callable[[ast.Call], Optional[bool]],
                 helpers: Optional[dict[str, ast.FunctionDef]] = None) -> None:
        self.func = func
        self.env = dict(env)
        self.U = universe
        self.truthy_calls = truthy_calls
        self.helpers = helpers or {}

    def _pure_helper(self, call: ast.Call) -> Optional[int]:
        """self.h(args) where h is a method of the same class whose body is one
        `return <set expression>`: the expression with the parameters bound to the arguments."""
        f = call.func
        if not (isinstance(f, ast.Attribute) and isinstance(f.value, ast.Name)
                and f.value.id == 'self' and f.attr in self.helpers and not call.keywords):
            return None
        h = self.helpers[f.attr]
        body = [b for b in h.body if not (isinstance(b, ast.Expr)
                                          and isinstance(b.value, ast.Constant))]
        params = [a.arg for a in h.args.posonlyargs + h.args.args][1:]
        if len(body) != 1 or not isinstance(body[0], ast.Return) or body[0].value is None \
                or len(params) != len(call.args):
            return None
        env = dict(self.env)
        for p_, a in zip(params, call.args):
            env[p_] = self.ev(a)
        sub = VennInterp(h, env, self.U, self.truthy_calls, self.helpers)
        return sub.ev(body[0].value)

    # --- expressions -------------------------------------------------------------------
    def ev(self, e: ast.AST) -> int:
        if isinstance(e, (ast.Name, ast.Attribute)):
            d = dotted(e)
            if d in self.env:
                return self.env[d]
            raise AnalysisError(f'venn: unknown set `{d}` in {self.func.name}')
        if isinstance(e, ast.BinOp):
            a, b = self.ev(e.left), self.ev(e.right)
            if isinstance(e.op, ast.BitOr):
                return a | b
            if isinstance(e.op, ast.BitAnd):
                return a & b
            if isinstance(e.op, ast.Sub):
                return a & ~b & self.U
            if isinstance(e.op, ast.BitXor):
                return a ^ b
        if isinstance(e, ast.Call):
            hv = self._pure_helper(e)
            if hv is not None:
                return hv
            d = dotted(e.func)
            if d.split('.')[-1] == 'UnicodeSubset':
                if not e.args:
                    return 0
                t = stmt_text(e.args[0]).replace(' ', '')
                if t in ('[(0,maxunicode+1)]', '[(0,sys.maxunicode+1)]'):
                    return self.U
                if isinstance(e.args[0], ast.Call) and isinstance(e.args[0].func, ast.Attribute) \
                        and e.args[0].func.attr == 'complement' and not e.args[0].args:
                    return ~self.ev(e.args[0].func.value) & self.U
                return self.ev(e.args[0])
            if isinstance(e.func, ast.Attribute) and e.func.attr in ('copy', '__copy__') \
                    and not e.args:
                return self.ev(e.func.value)
            if isinstance(e.func, ast.Attribute) and e.args and len(e.args) == 1:
                a, b = self.ev(e.func.value), self.ev(e.args[0])
                if e.func.attr == 'union':
                    return a | b
                if e.func.attr == 'intersection':
                    return a & b
                if e.func.attr == 'difference':
                    return a & ~b & self.U
        raise AnalysisError(f'venn: set expression `{stmt_text(e)[:50]}` not interpreted '
                            f'({self.func.name})')

    def cond(self, e: ast.AST) -> bool:
        if isinstance(e, ast.UnaryOp) and isinstance(e.op, ast.Not):
            return not self.cond(e.operand)
        if isinstance(e, ast.BoolOp):
            vals = [self.cond(v) for v in e.values]
            return all(vals) if isinstance(e.op, ast.And) else any(vals)
        if isinstance(e, ast.Call):
            r = self.truthy_calls(e)
            if r is not None:
                return r
            raise AnalysisError(f'venn: test `{stmt_text(e)[:50]}` not interpreted')
        return self.ev(e) != 0

    # --- statements --------------------------------------------------------------------
    def assign(self, target: ast.AST, value: int) -> None:
        d = dotted(target)
        if not d:
            raise AnalysisError(f'venn: target `{stmt_text(target)[:40]}` not interpreted')
        if d.endswith('.codepoints'):
            d = d[:-len('.codepoints')]
        self.env[d] = value

    def run(self, body: list[ast.stmt]) -> None:
        for st in body:
            if isinstance(st, ast.Expr) and isinstance(st.value, ast.Constant):
                continue  # docstring
            if isinstance(st, ast.If):
                self.run(st.body if self.cond(st.test) else st.orelse)
            elif isinstance(st, ast.Return):
                raise _Return()
            elif isinstance(st, ast.Pass):
                continue
            elif isinstance(st, ast.Assign) and len(st.targets) == 1:
                t = st.targets[0]
                if isinstance(t, ast.Tuple) and isinstance(st.value, ast.Tuple) \
                        and len(t.elts) == len(st.value.elts):
                    vals = [self.ev(v) for v in st.value.elts]
                    for tt, v in zip(t.elts, vals):
                        self.assign(tt, v)
                elif dotted(t).endswith('.codepoints'):
                    txt = stmt_text(st.value).replace(' ', '')
                    if txt in ('[(0,maxunicode+1)]', '[(0,sys.maxunicode+1)]'):
                        self.assign(t, self.U)
                    elif txt == '[]':
                        self.assign(t, 0)
                    else:
                        raise AnalysisError(f'venn: `{stmt_text(st)[:50]}` not interpreted')
                else:
                    self.assign(t, self.ev(st.value))
            elif isinstance(st, ast.AnnAssign) and st.value is not None:
                self.assign(st.target, self.ev(st.value))
            elif isinstance(st, ast.AugAssign):
                cur = self.ev(st.target)
                v = self.ev(st.value)
                if isinstance(st.op, ast.BitOr):
                    cur |= v
                elif isinstance(st.op, ast.BitAnd):
                    cur &= v
                elif isinstance(st.op, ast.Sub):
                    cur &= ~v & self.U
                elif isinstance(st.op, ast.BitXor):
                    cur ^= v
                else:
                    raise AnalysisError(f'venn: `{stmt_text(st)[:50]}` not interpreted')
                self.assign(st.target, cur)
            elif isinstance(st, ast.Expr) and isinstance(st.value, ast.Call) \
                    and isinstance(st.value.func, ast.Attribute):
                c = st.value
                recv = c.func.value
                if c.func.attr == 'clear' and not c.args:
                    self.assign(recv, 0)
                elif c.func.attr == 'update' and len(c.args) == 1:
                    self.assign(recv, self.ev(recv) | self.ev(c.args[0]))
                elif c.func.attr == 'difference_update' and len(c.args) == 1:
                    self.assign(recv, self.ev(recv) & ~self.ev(c.args[0]) & self.U)
                elif c.func.attr == 'intersection_update' and len(c.args) == 1:
                    self.assign(recv, self.ev(recv) & self.ev(c.args[0]))
                else:
                    raise AnalysisError(f'venn: `{stmt_text(st)[:50]}` not interpreted')
            else:
                raise AnalysisError(f'venn: statement `{stmt_text(st)[:50]}` not interpreted '
                                    f'({self.func.name})')

    def execute(self) -> dict[str, int]:
        try:
            self.run(self.func.body)
        except _Return:
            pass
        return self.env


def region_masks(k: int) -> tuple[list[int], int]:
    """Bitmasks of k generators over the 2^k Venn regions, and the universe mask."""
    n = 1 << k
    gens = []
    for g in range(k):
        m = 0
        for r in range(n):
            if r >> g & 1:
                m |= 1 << r
        gens.append(m)
    return gens, (1 << n) - 1
