"""
Source model of the elementpath package: every module parsed with ``ast``; an index of
modules, classes (with resolved bases), functions (with qualified names, including
nested ones); import resolution; constant folding; file digests.

Nothing from /repo is imported or executed.
"""
from __future__ import annotations

import ast
import hashlib
import os
from dataclasses import dataclass, field
from typing import Any, Iterator, Optional


class AnalysisError(Exception):
    """The checker met something it cannot analyse (exit code 2, never a verdict)."""


class Unfoldable(Exception):
    pass


def repo_root() -> str:
    return os.environ.get('VERIF_REPO', '/repo')


@dataclass
class FuncInfo:
    module: 'Module'
    node: ast.FunctionDef | ast.AsyncFunctionDef
    qualname: str
    cls: Optional['ClassInfo'] = None
    parent: Optional['FuncInfo'] = None

    @property
    def name(self) -> str:
        return self.node.name

    @property
    def key(self) -> str:
        return f'{self.module.name}:{self.qualname}'

    @property
    def loc(self) -> str:
        return f'{self.module.relpath}:{self.node.lineno}'

    def is_generator(self) -> bool:
        return any(isinstance(n, (ast.Yield, ast.YieldFrom)) for n in walk_local(self.node))

    def params(self) -> list[str]:
        a = self.node.args
        return [x.arg for x in a.posonlyargs + a.args + a.kwonlyargs] + \
            ([a.vararg.arg] if a.vararg else []) + ([a.kwarg.arg] if a.kwarg else [])

    def __hash__(self) -> int:
        return id(self)

    def __eq__(self, other: object) -> bool:
        return self is other


@dataclass
class ClassInfo:
    module: 'Module'
    node: ast.ClassDef
    qualname: str
    methods: dict[str, FuncInfo] = field(default_factory=dict)
    attrs: dict[str, ast.expr] = field(default_factory=dict)      # class-level assignments
    base_exprs: list[ast.expr] = field(default_factory=list)
    bases: list[Any] = field(default_factory=list)                # ClassInfo | str (external)

    @property
    def name(self) -> str:
        return self.node.name

    @property
    def key(self) -> str:
        return f'{self.module.name}:{self.qualname}'

    @property
    def loc(self) -> str:
        return f'{self.module.relpath}:{self.node.lineno}'

    def __hash__(self) -> int:
        return id(self)

    def __eq__(self, other: object) -> bool:
        return self is other

    def mro(self) -> list['ClassInfo']:
        """Linearisation sufficient for attribute lookup (depth-first, de-duplicated)."""
        out: list[ClassInfo] = []
        seen: set[int] = set()

        def visit(c: ClassInfo) -> None:
            if id(c) in seen:
                return
            seen.add(id(c))
            out.append(c)
            for b in c.bases:
                if isinstance(b, ClassInfo):
                    visit(b)
        visit(self)
        return out

    def external_bases(self) -> set[str]:
        out: set[str] = set()
        for c in self.mro():
            for b in c.bases:
                if isinstance(b, str):
                    out.add(b)
        return out

    def is_subclass_of(self, other: 'ClassInfo | str') -> bool:
        if isinstance(other, ClassInfo):
            return any(c is other for c in self.mro())
        return other in self.external_bases()

    def find_method(self, name: str) -> Optional[FuncInfo]:
        for c in self.mro():
            if name in c.methods:
                return c.methods[name]
        return None

    def find_attr(self, name: str) -> Optional[tuple['ClassInfo', ast.expr]]:
        for c in self.mro():
            if name in c.attrs:
                return c, c.attrs[name]
        return None


@dataclass
class Module:
    name: str               # dotted: elementpath.xpath1._xpath1_axes
    path: str
    relpath: str
    source: str
    tree: ast.Module
    is_package: bool
    imports: dict[str, tuple[str, Optional[str]]] = field(default_factory=dict)
    # local name -> (module dotted name, attribute or None for module import)
    functions: dict[str, FuncInfo] = field(default_factory=dict)   # by qualname
    classes: dict[str, ClassInfo] = field(default_factory=dict)    # by qualname
    assigns: dict[str, ast.expr] = field(default_factory=dict)     # module-level NAME = expr (last)
    digest: str = ''

    def toplevel_function(self, name: str) -> Optional[FuncInfo]:
        f = self.functions.get(name)
        return f if f is not None and f.cls is None and f.parent is None else None


def walk_local(func: ast.AST) -> Iterator[ast.AST]:
    """Walk a function body without descending into nested defs/lambdas/classes.
    For a function root only the body is walked: decorators, defaults and annotations are
    evaluated at definition time, in the enclosing scope."""
    if isinstance(func, (ast.FunctionDef, ast.AsyncFunctionDef)):
        stack: list[ast.AST] = list(func.body)
    else:
        stack = list(ast.iter_child_nodes(func))
    while stack:
        n = stack.pop()
        yield n
        if isinstance(n, (ast.FunctionDef, ast.AsyncFunctionDef, ast.Lambda, ast.ClassDef)):
            continue
        stack.extend(ast.iter_child_nodes(n))


def walk_stmts(body: list[ast.stmt]) -> Iterator[ast.stmt]:
    """All statements nested in body (not inside nested defs)."""
    for s in body:
        yield s
        if isinstance(s, (ast.FunctionDef, ast.AsyncFunctionDef, ast.ClassDef)):
            continue
        for fname in ('body', 'orelse', 'finalbody'):
            sub = getattr(s, fname, None)
            if isinstance(sub, list) and sub and isinstance(sub[0], ast.stmt):
                yield from walk_stmts(sub)
        if isinstance(s, ast.Try):
            for h in s.handlers:
                yield from walk_stmts(h.body)
        if isinstance(s, ast.Match):
            for c in s.cases:
                yield from walk_stmts(c.body)


class Model:
    PACKAGE = 'elementpath'

    def __init__(self, root: Optional[str] = None) -> None:
        self.root = root or repo_root()
        self.modules: dict[str, Module] = {}
        self.consulted: set[str] = set()
        self._load()
        self._index()
        self._resolve_bases()

    # ---------------------------------------------------------------- loading
    def _load(self) -> None:
        pkg_dir = os.path.join(self.root, self.PACKAGE)
        if not os.path.isdir(pkg_dir):
            raise AnalysisError(f'package directory {pkg_dir} not found')
        for dirpath, dirnames, filenames in os.walk(pkg_dir):
            dirnames[:] = sorted(d for d in dirnames if d != '__pycache__')
            for fn in sorted(filenames):
                if not fn.endswith('.py'):
                    continue
                path = os.path.join(dirpath, fn)
                rel = os.path.relpath(path, self.root)
                parts = rel[:-3].split(os.sep)
                is_pkg = parts[-1] == '__init__'
                if is_pkg:
                    parts = parts[:-1]
                name = '.'.join(parts)
                with open(path, 'rb') as f:
                    raw = f.read()
                src = raw.decode('utf-8')
                try:
                    tree = ast.parse(src, filename=path)
                except SyntaxError as err:
                    raise AnalysisError(f'cannot parse {rel}: {err}')
                from .desugar import desugar
                tree = desugar(tree)
                self.modules[name] = Module(
                    name=name, path=path, relpath=rel, source=src, tree=tree,
                    is_package=is_pkg, digest=hashlib.sha256(raw).hexdigest()
                )

    def _abs_module(self, mod: Module, level: int, target: Optional[str]) -> str:
        if level == 0:
            return target or ''
        parts = mod.name.split('.')
        if not mod.is_package:
            parts = parts[:-1]
        if level > 1:
            parts = parts[:-(level - 1)]
        base = '.'.join(parts)
        return f'{base}.{target}' if target else base

    def _index(self) -> None:
        for mod in self.modules.values():
            self._index_imports(mod, mod.tree.body)
            self._index_body(mod, mod.tree.body, prefix='', cls=None, parent=None)
            for st in mod.tree.body:
                if isinstance(st, ast.Assign) and len(st.targets) == 1 \
                        and isinstance(st.targets[0], ast.Name):
                    mod.assigns[st.targets[0].id] = st.value
                elif isinstance(st, ast.AnnAssign) and isinstance(st.target, ast.Name) \
                        and st.value is not None:
                    mod.assigns[st.target.id] = st.value

    def _index_imports(self, mod: Module, body: list[ast.stmt]) -> None:
        for st in body:
            if isinstance(st, ast.Import):
                for a in st.names:
                    if a.asname:
                        mod.imports[a.asname] = (a.name, None)
                    else:
                        mod.imports[a.name.split('.')[0]] = (a.name.split('.')[0], None)
            elif isinstance(st, ast.ImportFrom):
                target = self._abs_module(mod, st.level, st.module)
                for a in st.names:
                    mod.imports[a.asname or a.name] = (target, a.name)
            elif isinstance(st, ast.If):
                # `if TYPE_CHECKING: ... else: ...` : the runtime branch is the else-branch
                test = st.test
                if isinstance(test, ast.Name) and test.id == 'TYPE_CHECKING':
                    self._index_imports(mod, st.body)      # type-only names (lower priority)
                    self._index_imports(mod, st.orelse)    # runtime names override
                else:
                    self._index_imports(mod, st.body)
                    self._index_imports(mod, st.orelse)
            elif isinstance(st, ast.Try):
                self._index_imports(mod, st.body)
                for h in st.handlers:
                    self._index_imports(mod, h.body)

    def _index_body(self, mod: Module, body: list[ast.stmt], prefix: str,
                    cls: Optional[ClassInfo], parent: Optional[FuncInfo]) -> None:
        for st in body:
            if isinstance(st, (ast.FunctionDef, ast.AsyncFunctionDef)):
                qn = prefix + st.name
                fi = FuncInfo(mod, st, qn, cls=cls, parent=parent)
                # keep the first definition under the plain name; later redefinitions
                # (e.g. property setters) get a suffix
                key = qn
                k = 1
                while key in mod.functions:
                    k += 1
                    key = f'{qn}#{k}'
                fi.qualname = key
                mod.functions[key] = fi
                if cls is not None and parent is None:
                    cls.methods.setdefault(st.name, fi)
                self._index_body(mod, st.body, prefix=key + '.<locals>.', cls=None, parent=fi)
            elif isinstance(st, ast.ClassDef):
                qn = prefix + st.name
                ci = ClassInfo(mod, st, qn, base_exprs=list(st.bases))
                mod.classes[qn] = ci
                for s2 in st.body:
                    if isinstance(s2, ast.Assign):
                        for t in s2.targets:
                            if isinstance(t, ast.Name):
                                ci.attrs[t.id] = s2.value
                            elif isinstance(t, ast.Tuple) and isinstance(s2.value, ast.Tuple) \
                                    and len(t.elts) == len(s2.value.elts):
                                for te, ve in zip(t.elts, s2.value.elts):
                                    if isinstance(te, ast.Name):
                                        ci.attrs[te.id] = ve
                    elif isinstance(s2, ast.AnnAssign) and isinstance(s2.target, ast.Name) \
                            and s2.value is not None:
                        ci.attrs[s2.target.id] = s2.value
                self._index_body(mod, st.body, prefix=qn + '.', cls=ci, parent=None)
            elif isinstance(st, (ast.If, ast.Try, ast.With, ast.For, ast.While)):
                for fname in ('body', 'orelse', 'finalbody'):
                    sub = getattr(st, fname, None)
                    if isinstance(sub, list):
                        self._index_body(mod, sub, prefix, cls, parent)
                if isinstance(st, ast.Try):
                    for h in st.handlers:
                        self._index_body(mod, h.body, prefix, cls, parent)

    # ------------------------------------------------------------- resolution
    def resolve(self, mod: Module, name: str, _depth: int = 0) -> tuple[str, Any]:
        """
        Resolve a module-level name to one of
          ('class', ClassInfo) ('func', FuncInfo) ('const', (Module, expr))
          ('module', dotted) ('external', 'pkg.attr') ('unknown', name)
        """
        if _depth > 12:
            return 'unknown', name
        if name in mod.classes:
            return 'class', mod.classes[name]
        f = mod.toplevel_function(name)
        if f is not None:
            return 'func', f
        if name in mod.assigns:
            expr = mod.assigns[name]
            if isinstance(expr, ast.Name) and expr.id != name:
                kind, val = self.resolve(mod, expr.id, _depth + 1)
                if kind in ('class', 'func'):
                    return kind, val
            return 'const', (mod, expr)
        if name in mod.imports:
            target, attr = mod.imports[name]
            if attr is None:
                if target in self.modules:
                    return 'module', target
                return 'external', target
            if target in self.modules:
                tm = self.modules[target]
                sub = f'{target}.{attr}'
                if attr not in tm.classes and tm.toplevel_function(attr) is None \
                        and attr not in tm.assigns and attr not in tm.imports \
                        and sub in self.modules:
                    return 'module', sub
                return self.resolve(tm, attr, _depth + 1)
            sub = f'{target}.{attr}'
            if sub in self.modules:
                return 'module', sub
            return 'external', f'{target}.{attr}'
        return 'unknown', name

    def resolve_expr(self, mod: Module, expr: ast.expr) -> tuple[str, Any]:
        """Resolve Name or dotted Attribute chains (module.attr)."""
        if isinstance(expr, ast.Name):
            return self.resolve(mod, expr.id)
        if isinstance(expr, ast.Attribute):
            kind, val = self.resolve_expr(mod, expr.value)
            if kind == 'module':
                return self.resolve(self.modules[val], expr.attr)
            if kind == 'external':
                return 'external', f'{val}.{expr.attr}'
            if kind == 'class':
                m = val.find_method(expr.attr)
                if m is not None:
                    return 'func', m
                a = val.find_attr(expr.attr)
                if a is not None:
                    return 'const', (a[0].module, a[1])
        if isinstance(expr, ast.Subscript):      # Generic[...] / Parser[X]
            return self.resolve_expr(mod, expr.value)
        return 'unknown', ast.unparse(expr)

    def _resolve_bases(self) -> None:
        for mod in self.modules.values():
            for ci in mod.classes.values():
                for be in ci.base_exprs:
                    kind, val = self.resolve_expr(mod, be)
                    if kind == 'class':
                        ci.bases.append(val)
                    elif kind == 'external':
                        ci.bases.append(val)
                    else:
                        ci.bases.append(ast.unparse(be))

    def find_class(self, name: str) -> ClassInfo:
        """Find a class by simple name; must be unique in the package."""
        found = [c for m in self.modules.values() for c in m.classes.values() if c.name == name]
        if len(found) != 1:
            raise AnalysisError(f'anchor class {name!r}: expected 1 definition, found {len(found)}')
        return found[0]

    def find_classes(self, name: str) -> list[ClassInfo]:
        return [c for m in self.modules.values() for c in m.classes.values() if c.name == name]

    def module(self, name: str) -> Module:
        if name not in self.modules:
            raise AnalysisError(f'anchor module {name!r} not found')
        self.consulted.add(name)
        return self.modules[name]

    def all_functions(self) -> Iterator[FuncInfo]:
        for m in self.modules.values():
            yield from m.functions.values()

    def all_classes(self) -> Iterator[ClassInfo]:
        for m in self.modules.values():
            yield from m.classes.values()

    def subclasses_of(self, base: ClassInfo) -> list[ClassInfo]:
        return [c for c in self.all_classes() if c.is_subclass_of(base)]

    # --------------------------------------------------------------- folding
    def fold(self, mod: Module, expr: ast.expr, _depth: int = 0,
             env: Optional[dict[str, Any]] = None) -> Any:
        """Constant-fold a side-effect free expression. Raises Unfoldable."""
        if _depth > 40:
            raise Unfoldable('depth')
        f = lambda e: self.fold(mod, e, _depth + 1, env)  # noqa: E731
        if isinstance(expr, ast.Constant):
            return expr.value
        if isinstance(expr, ast.Tuple):
            return tuple(f(e) for e in expr.elts)
        if isinstance(expr, ast.List):
            return [f(e) for e in expr.elts]
        if isinstance(expr, ast.Set):
            return frozenset(f(e) for e in expr.elts)
        if isinstance(expr, ast.Dict):
            if any(k is None for k in expr.keys):
                raise Unfoldable('dict unpack')
            return {f(k): f(v) for k, v in zip(expr.keys, expr.values)}  # type: ignore[arg-type]
        if isinstance(expr, ast.JoinedStr):
            out = []
            for v in expr.values:
                if isinstance(v, ast.Constant):
                    out.append(str(v.value))
                elif isinstance(v, ast.FormattedValue):
                    if v.format_spec is not None or v.conversion not in (-1, 115):
                        raise Unfoldable('format spec')
                    out.append(str(f(v.value)))
            return ''.join(out)
        if isinstance(expr, ast.UnaryOp):
            v = f(expr.operand)
            if isinstance(expr.op, ast.USub):
                return -v
            if isinstance(expr.op, ast.UAdd):
                return +v
            if isinstance(expr.op, ast.Not):
                return not v
            raise Unfoldable('unary')
        if isinstance(expr, ast.BinOp):
            a, b = f(expr.left), f(expr.right)
            try:
                if isinstance(expr.op, ast.Add):
                    return a + b
                if isinstance(expr.op, ast.Sub):
                    return a - b
                if isinstance(expr.op, ast.Mult):
                    return a * b
                if isinstance(expr.op, ast.Pow):
                    if isinstance(b, int) and abs(b) > 4096:
                        raise Unfoldable('pow')
                    return a ** b
                if isinstance(expr.op, ast.Mod):
                    return a % b
                if isinstance(expr.op, ast.FloorDiv):
                    return a // b
                if isinstance(expr.op, ast.BitOr):
                    return a | b
            except Unfoldable:
                raise
            except Exception as err:
                raise Unfoldable(str(err))
            raise Unfoldable('binop')
        if isinstance(expr, ast.Name):
            if env is not None and expr.id in env:
                return env[expr.id]
            if expr.id in ('True', 'False', 'None'):
                return {'True': True, 'False': False, 'None': None}[expr.id]
            kind, val = self.resolve(mod, expr.id)
            if kind == 'const':
                m2, e2 = val
                return self.fold(m2, e2, _depth + 1)
            raise Unfoldable(f'name {expr.id}')
        if isinstance(expr, ast.Attribute):
            kind, val = self.resolve_expr(mod, expr)
            if kind == 'const':
                m2, e2 = val
                return self.fold(m2, e2, _depth + 1)
            raise Unfoldable(f'attr {ast.unparse(expr)}')
        if isinstance(expr, ast.Call):
            fn = expr.func
            if isinstance(fn, ast.Name) and fn.id in ('frozenset', 'set', 'tuple', 'list') \
                    and len(expr.args) <= 1 and not expr.keywords:
                if not expr.args:
                    return {'frozenset': frozenset(), 'set': frozenset(), 'tuple': (),
                            'list': []}[fn.id]
                v = f(expr.args[0])
                return frozenset(v) if fn.id in ('frozenset', 'set') else \
                    (tuple(v) if fn.id == 'tuple' else list(v))
            if isinstance(fn, ast.Name) and fn.id == 'chr' and len(expr.args) == 1:
                return chr(f(expr.args[0]))
            if isinstance(fn, ast.Name) and fn.id == 'range' and 1 <= len(expr.args) <= 3:
                return range(*[f(a) for a in expr.args])
            if isinstance(fn, ast.Name) and fn.id == 'int' and len(expr.args) == 1:
                return int(f(expr.args[0]))
            if isinstance(fn, ast.Name) and fn.id == 'len' and len(expr.args) == 1:
                return len(f(expr.args[0]))
            if isinstance(fn, ast.Attribute) and fn.attr == 'join' and len(expr.args) == 1:
                sep = f(fn.value)
                if isinstance(sep, str):
                    return sep.join(f(expr.args[0]))
            if isinstance(fn, ast.Attribute) and fn.attr == 'format' and not expr.keywords:
                s = f(fn.value)
                if isinstance(s, str):
                    return s.format(*[f(a) for a in expr.args])
            raise Unfoldable(f'call {ast.unparse(fn)}')
        if isinstance(expr, (ast.GeneratorExp, ast.ListComp)) and len(expr.generators) == 1:
            g = expr.generators[0]
            if isinstance(g.target, ast.Name) and not g.is_async:
                it = f(g.iter)
                out2 = []
                for v in it:
                    e2 = dict(env or {})
                    e2[g.target.id] = v
                    if all(self.fold(mod, c, _depth + 1, e2) for c in g.ifs):
                        out2.append(self.fold(mod, expr.elt, _depth + 1, e2))
                return out2
        if isinstance(expr, ast.Compare) and len(expr.ops) == 1:
            a, b = f(expr.left), f(expr.comparators[0])
            op = expr.ops[0]
            if isinstance(op, ast.Eq):
                return a == b
            if isinstance(op, ast.NotEq):
                return a != b
            if isinstance(op, ast.In):
                return a in b
            if isinstance(op, ast.NotIn):
                return a not in b
            if isinstance(op, ast.Lt):
                return a < b
            if isinstance(op, ast.Gt):
                return a > b
        if isinstance(expr, ast.Subscript):
            v = f(expr.value)
            if isinstance(expr.slice, ast.Slice):
                lo = f(expr.slice.lower) if expr.slice.lower else None
                hi = f(expr.slice.upper) if expr.slice.upper else None
                return v[lo:hi]
            return v[f(expr.slice)]
        raise Unfoldable(type(expr).__name__)

    def try_fold(self, mod: Module, expr: ast.expr, default: Any = None) -> Any:
        try:
            return self.fold(mod, expr)
        except Unfoldable:
            return default

    # --------------------------------------------------------------- digests
    def digests(self, names: Optional[set[str]] = None) -> dict[str, str]:
        names = names if names is not None else self.consulted
        return {self.modules[n].relpath: self.modules[n].digest[:16]
                for n in sorted(names) if n in self.modules}


def stmt_text(node: ast.AST) -> str:
    """Normalised text of a node, for keys and reports (never line based)."""
    try:
        s = ast.unparse(node)
    except Exception:
        s = type(node).__name__
    return ' '.join(s.split())


def call_name(call: ast.Call) -> str:
    """Dotted textual name of the callee: 'self.parser.expression', 'copy', ..."""
    return dotted(call.func)


def dotted(e: ast.expr) -> str:
    if isinstance(e, ast.Name):
        return e.id
    if isinstance(e, ast.Attribute):
        return dotted(e.value) + '.' + e.attr
    if isinstance(e, ast.Call):
        return dotted(e.func) + '()'
    if isinstance(e, ast.Subscript):
        return dotted(e.value) + '[]'
    return '<' + type(e).__name__ + '>'
