"""
Statement-level control-flow graph for one function, built from the ast.

Node kinds: entry, exit (normal: fall-through or return), raise (exceptional exit), stmt,
test (if/while/ternary-free condition), for (advance iterator + bind target), with,
dispatch (exception dispatch of a try), handler (except clause entry), match.

``finally`` bodies are duplicated per way of entering them (normal, exception, return,
break, continue) so that no infeasible path "enter by exception, leave normally" exists.

Exception edges are optional and precise to a caller-supplied predicate
``may_raise(stmt_or_expr) -> bool``; ``raise`` statements always take the exception edge.
"""
from __future__ import annotations

import ast
from dataclasses import dataclass, field
from typing import Callable, Iterable, Iterator, Optional

from .srcmodel import AnalysisError, stmt_text


class Node:
    __slots__ = ('id', 'kind', 'ast', 'succs', 'preds', 'lineno', 'note')

    def __init__(self, nid: int, kind: str, node: Optional[ast.AST], note: str = '') -> None:
        self.id = nid
        self.kind = kind
        self.ast = node
        self.succs: list[tuple[str, 'Node']] = []
        self.preds: list[tuple[str, 'Node']] = []
        self.lineno = getattr(node, 'lineno', 0) if node is not None else 0
        self.note = note

    def __repr__(self) -> str:
        return f'<{self.kind}#{self.id} L{self.lineno} {self.text()[:50]}>'

    def text(self) -> str:
        if self.ast is None:
            return self.kind
        if self.kind == 'for':
            assert isinstance(self.ast, (ast.For, ast.AsyncFor))
            return f'for {stmt_text(self.ast.target)} in {stmt_text(self.ast.iter)}'
        if self.kind == 'with':
            assert isinstance(self.ast, (ast.With, ast.AsyncWith))
            return 'with ' + ', '.join(stmt_text(i) for i in self.ast.items)
        if self.kind == 'handler':
            assert isinstance(self.ast, ast.ExceptHandler)
            return 'except ' + (stmt_text(self.ast.type) if self.ast.type else '')
        if self.kind == 'dispatch':
            return 'try-dispatch'
        return stmt_text(self.ast)

    def exprs(self) -> list[ast.AST]:
        """The expressions evaluated AT this node (not in nested blocks)."""
        a = self.ast
        if a is None:
            return []
        if self.kind in ('stmt', 'test'):
            return [a]
        if self.kind == 'for':
            return [a.iter, a.target]           # type: ignore[attr-defined]
        if self.kind == 'with':
            out: list[ast.AST] = []
            for it in a.items:                  # type: ignore[attr-defined]
                out.append(it.context_expr)
                if it.optional_vars is not None:
                    out.append(it.optional_vars)
            return out
        if self.kind == 'match':
            return [a.subject]                  # type: ignore[attr-defined]
        if self.kind == 'handler':
            return [a.type] if a.type is not None else []   # type: ignore[attr-defined]
        return []

    def walk(self) -> Iterator[ast.AST]:
        """All ast nodes evaluated at this CFG node (no nested defs/lambdas)."""
        for e in self.exprs():
            stack = [e]
            while stack:
                n = stack.pop()
                yield n
                if isinstance(n, (ast.FunctionDef, ast.AsyncFunctionDef, ast.Lambda,
                                  ast.ClassDef)) and n is not e:
                    continue
                if isinstance(n, (ast.FunctionDef, ast.AsyncFunctionDef, ast.ClassDef)):
                    continue
                stack.extend(ast.iter_child_nodes(n))

    def has_yield(self) -> bool:
        return any(isinstance(n, (ast.Yield, ast.YieldFrom)) for n in self.walk())


@dataclass
class _Ctx:
    ret: Node
    exc: Node
    brk: Optional[Node] = None
    cont: Optional[Node] = None


class CFG:
    def __init__(self, func: ast.FunctionDef | ast.AsyncFunctionDef,
                 may_raise: Optional[Callable[[ast.AST], bool]] = None) -> None:
        self.func = func
        self.may_raise = may_raise
        self.nodes: list[Node] = []
        self.entry = self._new('entry', None)
        self.exit = self._new('exit', None)
        self.raise_exit = self._new('raise', None)
        ctx = _Ctx(ret=self.exit, exc=self.raise_exit)
        first = self._block(func.body, self.exit, ctx)
        self._edge(self.entry, 'next', first)
        self._prune()

    # ------------------------------------------------------------- building
    def _new(self, kind: str, node: Optional[ast.AST], note: str = '') -> Node:
        n = Node(len(self.nodes), kind, node, note)
        self.nodes.append(n)
        return n

    def _edge(self, a: Node, label: str, b: Node) -> None:
        a.succs.append((label, b))
        b.preds.append((label, a))

    def _raises(self, node: ast.AST) -> bool:
        if self.may_raise is None:
            return False
        return self.may_raise(node)

    def _block(self, stmts: list[ast.stmt], succ: Node, ctx: _Ctx) -> Node:
        nxt = succ
        for st in reversed(stmts):
            nxt = self._stmt(st, nxt, ctx)
        return nxt

    def _stmt(self, st: ast.stmt, succ: Node, ctx: _Ctx) -> Node:
        if isinstance(st, ast.If):
            n = self._new('test', st.test)
            self._edge(n, 'true', self._block(st.body, succ, ctx))
            self._edge(n, 'false', self._block(st.orelse, succ, ctx) if st.orelse else succ)
            if self._raises(st.test):
                self._edge(n, 'exc', ctx.exc)
            return n
        if isinstance(st, ast.While):
            n = self._new('test', st.test, note='while')
            after = self._block(st.orelse, succ, ctx) if st.orelse else succ
            inner = _Ctx(ret=ctx.ret, exc=ctx.exc, brk=succ, cont=n)
            body = self._block(st.body, n, inner)
            self._edge(n, 'true', body)
            is_true = isinstance(st.test, ast.Constant) and bool(st.test.value)
            if not is_true:
                self._edge(n, 'false', after)
            if self._raises(st.test):
                self._edge(n, 'exc', ctx.exc)
            return n
        if isinstance(st, (ast.For, ast.AsyncFor)):
            n = self._new('for', st)
            after = self._block(st.orelse, succ, ctx) if st.orelse else succ
            inner = _Ctx(ret=ctx.ret, exc=ctx.exc, brk=succ, cont=n)
            body = self._block(st.body, n, inner)
            self._edge(n, 'true', body)
            self._edge(n, 'false', after)
            if self._raises(st.iter):
                self._edge(n, 'exc', ctx.exc)
            return n
        if isinstance(st, (ast.With, ast.AsyncWith)):
            n = self._new('with', st)
            self._edge(n, 'next', self._block(st.body, succ, ctx))
            if any(self._raises(i.context_expr) for i in st.items):
                self._edge(n, 'exc', ctx.exc)
            return n
        if isinstance(st, ast.Try) or (hasattr(ast, 'TryStar') and isinstance(st, ast.TryStar)):
            return self._try(st, succ, ctx)    # type: ignore[arg-type]
        if isinstance(st, ast.Match):
            n = self._new('match', st)
            exhaustive = False
            for case in st.cases:
                self._edge(n, 'case', self._block(case.body, succ, ctx))
                if isinstance(case.pattern, ast.MatchAs) and case.pattern.pattern is None \
                        and case.guard is None:
                    exhaustive = True
            if not exhaustive:
                self._edge(n, 'nomatch', succ)
            return n
        if isinstance(st, ast.Return):
            n = self._new('stmt', st)
            self._edge(n, 'return', ctx.ret)
            if st.value is not None and self._raises(st.value):
                self._edge(n, 'exc', ctx.exc)
            return n
        if isinstance(st, ast.Raise):
            n = self._new('stmt', st)
            self._edge(n, 'exc', ctx.exc)
            return n
        if isinstance(st, ast.Break):
            n = self._new('stmt', st)
            if ctx.brk is None:
                raise AnalysisError('break outside loop')
            self._edge(n, 'break', ctx.brk)
            return n
        if isinstance(st, ast.Continue):
            n = self._new('stmt', st)
            if ctx.cont is None:
                raise AnalysisError('continue outside loop')
            self._edge(n, 'continue', ctx.cont)
            return n
        # simple statement (incl. nested def/class, assert, assign, expr, delete, pass ...)
        n = self._new('stmt', st)
        self._edge(n, 'next', succ)
        if not isinstance(st, (ast.FunctionDef, ast.AsyncFunctionDef, ast.ClassDef)) \
                and self._raises(st):
            self._edge(n, 'exc', ctx.exc)
        return n

    def _try(self, st: ast.Try, succ: Node, ctx: _Ctx) -> Node:
        fin = st.finalbody

        def through_finally(target: Node, kind: str) -> Node:
            if not fin:
                return target
            # body of finally runs in the outer context
            return self._block(fin, target, ctx_outer_for_finally)

        ctx_outer_for_finally = ctx
        after = through_finally(succ, 'normal')
        outer_exc = through_finally(ctx.exc, 'exc')
        outer_ret = through_finally(ctx.ret, 'ret')
        outer_brk = through_finally(ctx.brk, 'brk') if ctx.brk is not None else None
        outer_cont = through_finally(ctx.cont, 'cont') if ctx.cont is not None else None

        # context for handlers and else: exceptions go (through finally) outwards
        hctx = _Ctx(ret=outer_ret, exc=outer_exc, brk=outer_brk, cont=outer_cont)
        if st.handlers:
            dispatch = self._new('dispatch', st)
            catches_all = False
            for h in st.handlers:
                hn = self._new('handler', h)
                self._edge(dispatch, 'except', hn)
                self._edge(hn, 'next', self._block(h.body, after, hctx))
                if h.type is None or (isinstance(h.type, ast.Name)
                                      and h.type.id == 'BaseException'):
                    catches_all = True
            if not catches_all:
                self._edge(dispatch, 'unhandled', outer_exc)
            body_exc = dispatch
        else:
            body_exc = outer_exc
        bctx = _Ctx(ret=outer_ret, exc=body_exc, brk=outer_brk, cont=outer_cont)
        orelse = self._block(st.orelse, after, hctx) if st.orelse else after
        return self._block(st.body, orelse, bctx)

    def _prune(self) -> None:
        """Drop nodes unreachable from entry (e.g. unused finally copies)."""
        seen = {self.entry.id}
        stack = [self.entry]
        while stack:
            n = stack.pop()
            for _, s in n.succs:
                if s.id not in seen:
                    seen.add(s.id)
                    stack.append(s)
        for n in self.nodes:
            if n.id in seen:
                n.preds = [(lb, p) for lb, p in n.preds if p.id in seen]
        self.nodes = [n for n in self.nodes if n.id in seen or n in (self.exit, self.raise_exit)]

    # ------------------------------------------------------------- queries
    def find(self, pred: Callable[[Node], bool]) -> list[Node]:
        return [n for n in self.nodes if pred(n)]

    def path_avoiding(self, starts: Iterable[Node], goal: Callable[[Node], bool],
                      blocked: Callable[[Node], bool],
                      follow: Optional[Callable[[str], bool]] = None,
                      skip_start: bool = True,
                      edge_ok: Optional[Callable[[Node, str], bool]] = None) \
            -> Optional[list[Node]]:
        """
        A path from any start node (exclusive when skip_start) to a node satisfying `goal`
        that passes no node satisfying `blocked` — or None. The must-pass-through check:
        "every path from A to G passes P" holds iff this returns None with blocked=P.
        """
        parent: dict[int, Optional[Node]] = {}
        stack: list[Node] = []
        for s in starts:
            if skip_start:
                for lb, t in s.succs:
                    if follow is not None and not follow(lb):
                        continue
                    if t.id not in parent:
                        parent[t.id] = s
                        stack.append(t)
            else:
                parent[s.id] = None
                stack.append(s)
        start_ids = {s.id for s in starts}
        while stack:
            n = stack.pop()
            if blocked(n):
                continue
            if goal(n):
                path = [n]
                cur: Optional[Node] = parent.get(n.id)
                guard = 0
                while cur is not None and guard < 10000:
                    path.append(cur)
                    if cur.id in start_ids:
                        break
                    cur = parent.get(cur.id)
                    guard += 1
                return list(reversed(path))
            for lb, t in n.succs:
                if follow is not None and not follow(lb):
                    continue
                if edge_ok is not None and not edge_ok(n, lb):
                    continue
                if t.id not in parent:
                    parent[t.id] = n
                    stack.append(t)
        return None

    def dominated_by(self, node: Node, pred: Callable[[Node], bool],
                     edge_ok: Optional[Callable[[Node, str], bool]] = None) -> bool:
        """Every path entry -> node passes a node satisfying pred (node itself excluded)."""
        return self.path_avoiding([self.entry], lambda n: n is node,
                                  lambda n: n is not node and pred(n),
                                  skip_start=False, edge_ok=edge_ok) is None

    @staticmethod
    def fmt_path(path: list[Node], limit: int = 12) -> list[str]:
        out = [f'L{n.lineno}: {n.text()[:90]}' if n.ast is not None else n.kind for n in path]
        if len(out) > limit:
            out = out[:limit // 2] + ['...'] + out[-limit // 2:]
        return out


def calls_may_raise(n: ast.AST) -> bool:
    """may_raise predicate: any call, raise or assert may raise."""
    if isinstance(n, (ast.Raise, ast.Assert)):
        return True
    for x in ast.walk(n):
        if isinstance(x, (ast.Call, ast.Raise, ast.Assert, ast.Subscript, ast.Await)):
            return True
    return False


def assigned_names(target: ast.AST) -> list[str]:
    """Dotted names bound by an assignment target (x, self.item, tuple elements)."""
    from .srcmodel import dotted
    out = []
    if isinstance(target, (ast.Tuple, ast.List)):
        for e in target.elts:
            out.extend(assigned_names(e))
    elif isinstance(target, ast.Starred):
        out.extend(assigned_names(target.value))
    elif isinstance(target, (ast.Name, ast.Attribute)):
        out.append(dotted(target))
    elif isinstance(target, ast.Subscript):
        out.append(dotted(target.value) + '[]')
    return out


def node_writes(n: Node) -> list[tuple[str, ast.AST]]:
    """(dotted target, value-or-None) pairs written at this CFG node."""
    out: list[tuple[str, ast.AST]] = []
    a = n.ast
    if n.kind == 'for':
        for t in assigned_names(a.target):          # type: ignore[union-attr]
            out.append((t, a))                      # type: ignore[arg-type]
        return out
    if n.kind == 'with':
        for it in a.items:                          # type: ignore[union-attr]
            if it.optional_vars is not None:
                for t in assigned_names(it.optional_vars):
                    out.append((t, it.context_expr))
        return out
    if n.kind != 'stmt' or a is None:
        # walrus in tests
        for x in n.walk():
            if isinstance(x, ast.NamedExpr):
                out.append((x.target.id, x.value))
        return out
    if isinstance(a, ast.Assign):
        for t in a.targets:
            for name in assigned_names(t):
                out.append((name, a.value))
    elif isinstance(a, ast.AnnAssign) and a.value is not None:
        for name in assigned_names(a.target):
            out.append((name, a.value))
    elif isinstance(a, ast.AugAssign):
        for name in assigned_names(a.target):
            out.append((name, a))
    for x in n.walk():
        if isinstance(x, ast.NamedExpr):
            out.append((x.target.id, x.value))
    return out
