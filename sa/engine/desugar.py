"""
AST desugaring applied to every module before indexing, so that all rules see one canonical
form of a few equivalent idioms.

EXITSTACK-CALLBACK
    with ExitStack() as S:            [pre]
        [pre]                         try:
        S.callback(F, *args)    =>        [rest]
        [rest]                        finally:
                                          <body of F>      (F a nested def without return/params)
                                          or F(*args)       (any other callable)

A with-block whose ExitStack is used for anything else (enter_context, push, pop_all, close,
passing S somewhere) is left untouched. Several callbacks nest in LIFO order, as ExitStack runs
them. Line numbers are copied from the replaced nodes.
"""
from __future__ import annotations

import ast
import copy


def _is_exitstack(e: ast.expr) -> bool:
    if not (isinstance(e, ast.Call) and not e.args and not e.keywords):
        return False
    f = e.func
    return (isinstance(f, ast.Name) and f.id == 'ExitStack') or \
        (isinstance(f, ast.Attribute) and f.attr == 'ExitStack')


class _ExitStack(ast.NodeTransformer):
    def __init__(self) -> None:
        self.local_defs: list[dict[str, ast.FunctionDef]] = [{}]

    def visit_FunctionDef(self, node: ast.FunctionDef):      # noqa: N802
        self.local_defs[-1][node.name] = node
        self.local_defs.append({})
        # nested defs are registered while visiting the body, in order
        node.body = self._visit_block(node.body)
        self.local_defs.pop()
        return node

    visit_AsyncFunctionDef = visit_FunctionDef                 # type: ignore[assignment]

    def _visit_block(self, stmts: list[ast.stmt]) -> list[ast.stmt]:
        out: list[ast.stmt] = []
        for st in stmts:
            r = self.visit(st)
            if isinstance(r, list):
                out.extend(r)
            elif r is not None:
                out.append(r)
        return out

    def generic_visit(self, node: ast.AST) -> ast.AST:
        for field in ('body', 'orelse', 'finalbody'):
            v = getattr(node, field, None)
            if isinstance(v, list) and v and isinstance(v[0], ast.stmt):
                setattr(node, field, self._visit_block(v))
        if isinstance(node, ast.Try):
            for h in node.handlers:
                h.body = self._visit_block(h.body)
        if isinstance(node, ast.Match):
            for c in node.cases:
                c.body = self._visit_block(c.body)
        return node

    def visit_With(self, node: ast.With):                      # noqa: N802
        node.body = self._visit_block(node.body)
        if len(node.items) != 1 or not _is_exitstack(node.items[0].context_expr) or \
                not isinstance(node.items[0].optional_vars, ast.Name):
            return node
        sname = node.items[0].optional_vars.id
        # every use of S must be `S.callback(...)` as an expression statement of the body
        regs = []
        for i, st in enumerate(node.body):
            if isinstance(st, ast.Expr) and isinstance(st.value, ast.Call) and \
                    isinstance(st.value.func, ast.Attribute) and \
                    isinstance(st.value.func.value, ast.Name) and \
                    st.value.func.value.id == sname and st.value.func.attr == 'callback' and \
                    st.value.args and not st.value.keywords:
                regs.append(i)
        uses = sum(1 for st in node.body for x in ast.walk(st)
                   if isinstance(x, ast.Name) and x.id == sname)
        if not regs or uses != len(regs):
            return node

        def cleanup(call: ast.Call) -> list[ast.stmt]:
            f, args = call.args[0], call.args[1:]
            fd = None
            if isinstance(f, ast.Name):
                for scope in reversed(self.local_defs):
                    if f.id in scope:
                        fd = scope[f.id]
                        break
            if fd is not None and not args and not fd.args.args and not fd.args.kwonlyargs and \
                    not any(isinstance(x, (ast.Return, ast.Yield, ast.YieldFrom, ast.Nonlocal))
                            for s in fd.body for x in ast.walk(s)):
                fd._verif_inlined_cleanup = True            # type: ignore[attr-defined]
                body = [copy.deepcopy(s) for s in fd.body
                        if not (isinstance(s, ast.Expr) and isinstance(s.value, ast.Constant))]
                for s in body:
                    for x in ast.walk(s):
                        ast.copy_location(x, call)
                return body or [ast.copy_location(ast.Pass(), call)]
            e = ast.Expr(value=ast.Call(func=f, args=list(args), keywords=[]))
            for x in ast.walk(e):
                ast.copy_location(x, call)
            return [e]

        def build(stmts: list[ast.stmt]) -> list[ast.stmt]:
            for i, st in enumerate(stmts):
                if isinstance(st, ast.Expr) and isinstance(st.value, ast.Call) and \
                        isinstance(st.value.func, ast.Attribute) and \
                        isinstance(st.value.func.value, ast.Name) and \
                        st.value.func.value.id == sname and st.value.func.attr == 'callback':
                    rest = build(stmts[i + 1:]) or [ast.copy_location(ast.Pass(), st)]
                    t = ast.Try(body=rest, handlers=[], orelse=[], finalbody=cleanup(st.value))
                    ast.copy_location(t, node)
                    return stmts[:i] + [t]
            return stmts
        return build(node.body)


def desugar(tree: ast.Module) -> ast.Module:
    tr = _ExitStack()
    tree.body = tr._visit_block(tree.body)
    ast.fix_missing_locations(tree)
    return tree
