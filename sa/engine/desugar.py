"""
AST desugaring applied to every module before indexing, so that all rules see one canonical
form of a few equivalent idioms.

EXITSTACK-CALLBACK
    with ExitStack() as S:            [pre]
        [pre]                         try:
        S.callback(F, *args)    =>        [rest]
        [rest]                        finally:
                                          <body of F>      (F a nested def without return/params)
                                          or F(*args)       (any other callable)

CONTEXTMANAGER-INLINE
    @contextmanager                      with H(a):            [pre, p := a, locals renamed]
    def H(p):                                BODY        =>    try:
        [pre]                                                      BODY
        try:                                                   finally:
            yield                                                  [post, p := a]
        finally:
            [post]
    H is a module-level generator decorated with contextmanager whose body is simple statements
    followed by one try/finally around a bare `yield`; the with-item has no `as` target and its
    arguments are plain names. (A save/restore pair moved into such a helper is the same code.)

A with-block whose ExitStack is used for anything else (enter_context, push, pop_all, close,
passing S somewhere) is left untouched. Several callbacks nest in LIFO order, as ExitStack runs
them. Line numbers are copied from the replaced nodes.
"""
from __future__ import annotations

import ast
import copy


def _is_exitstack(e: ast.expr) -> bool:
    if not (isinstance(e, ast.Call) and not e.args and not e.keywords):
        return False
    f = e.func
    return (isinstance(f, ast.Name) and f.id == 'ExitStack') or \
        (isinstance(f, ast.Attribute) and f.attr == 'ExitStack')


class _ExitStack(ast.NodeTransformer):
    def __init__(self) -> None:
        self.local_defs: list[dict[str, ast.FunctionDef]] = [{}]

    def visit_FunctionDef(self, node: ast.FunctionDef):      # noqa: N802
        self.local_defs[-1][node.name] = node
        self.local_defs.append({})
        # nested defs are registered while visiting the body, in order
        node.body = self._visit_block(node.body)
        self.local_defs.pop()
        return node

    visit_AsyncFunctionDef = visit_FunctionDef                 # type: ignore[assignment]

    def _visit_block(self, stmts: list[ast.stmt]) -> list[ast.stmt]:
        out: list[ast.stmt] = []
        for st in stmts:
            r = self.visit(st)
            if isinstance(r, list):
                out.extend(r)
            elif r is not None:
                out.append(r)
        return out

    def generic_visit(self, node: ast.AST) -> ast.AST:
        for field in ('body', 'orelse', 'finalbody'):
            v = getattr(node, field, None)
            if isinstance(v, list) and v and isinstance(v[0], ast.stmt):
                setattr(node, field, self._visit_block(v))
        if isinstance(node, ast.Try):
            for h in node.handlers:
                h.body = self._visit_block(h.body)
        if isinstance(node, ast.Match):
            for c in node.cases:
                c.body = self._visit_block(c.body)
        return node

    def visit_With(self, node: ast.With):                      # noqa: N802
        node.body = self._visit_block(node.body)
        if len(node.items) != 1 or not _is_exitstack(node.items[0].context_expr) or \
                not isinstance(node.items[0].optional_vars, ast.Name):
            return node
        sname = node.items[0].optional_vars.id
        # every use of S must be `S.callback(...)` as an expression statement of the body
        regs = []
        for i, st in enumerate(node.body):
            if isinstance(st, ast.Expr) and isinstance(st.value, ast.Call) and \
                    isinstance(st.value.func, ast.Attribute) and \
                    isinstance(st.value.func.value, ast.Name) and \
                    st.value.func.value.id == sname and st.value.func.attr == 'callback' and \
                    st.value.args and not st.value.keywords:
                regs.append(i)
        uses = sum(1 for st in node.body for x in ast.walk(st)
                   if isinstance(x, ast.Name) and x.id == sname)
        if not regs or uses != len(regs):
            return node

        def cleanup(call: ast.Call) -> list[ast.stmt]:
            f, args = call.args[0], call.args[1:]
            fd = None
            if isinstance(f, ast.Name):
                for scope in reversed(self.local_defs):
                    if f.id in scope:
                        fd = scope[f.id]
                        break
            if fd is not None and not args and not fd.args.args and not fd.args.kwonlyargs and \
                    not any(isinstance(x, (ast.Return, ast.Yield, ast.YieldFrom, ast.Nonlocal))
                            for s in fd.body for x in ast.walk(s)):
                fd._verif_inlined_cleanup = True            # type: ignore[attr-defined]
                body = [copy.deepcopy(s) for s in fd.body
                        if not (isinstance(s, ast.Expr) and isinstance(s.value, ast.Constant))]
                for s in body:
                    for x in ast.walk(s):
                        ast.copy_location(x, call)
                return body or [ast.copy_location(ast.Pass(), call)]
            e = ast.Expr(value=ast.Call(func=f, args=list(args), keywords=[]))
            for x in ast.walk(e):
                ast.copy_location(x, call)
            return [e]

        def build(stmts: list[ast.stmt]) -> list[ast.stmt]:
            for i, st in enumerate(stmts):
                if isinstance(st, ast.Expr) and isinstance(st.value, ast.Call) and \
                        isinstance(st.value.func, ast.Attribute) and \
                        isinstance(st.value.func.value, ast.Name) and \
                        st.value.func.value.id == sname and st.value.func.attr == 'callback':
                    rest = build(stmts[i + 1:]) or [ast.copy_location(ast.Pass(), st)]
                    t = ast.Try(body=rest, handlers=[], orelse=[], finalbody=cleanup(st.value))
                    ast.copy_location(t, node)
                    return stmts[:i] + [t]
            return stmts
        return build(node.body)


def _cm_helpers(tree: ast.Module) -> dict[str, ast.FunctionDef]:
    out: dict[str, ast.FunctionDef] = {}
    for st in tree.body:
        if not isinstance(st, ast.FunctionDef):
            continue
        decs = [ast.unparse(d).split('(')[0].split('.')[-1] for d in st.decorator_list]
        if 'contextmanager' not in decs or not st.body:
            continue
        body = [b for b in st.body if not (isinstance(b, ast.Expr)
                                           and isinstance(b.value, ast.Constant))]
        if not body or not isinstance(body[-1], ast.Try):
            continue
        tr = body[-1]
        if tr.handlers or tr.orelse or not tr.finalbody or len(tr.body) != 1:
            continue
        y = tr.body[0]
        if not (isinstance(y, ast.Expr) and isinstance(y.value, ast.Yield)
                and (y.value.value is None or isinstance(y.value.value, ast.Name))):
            continue       # `yield` or `yield <local>` (bound by `with H(..) as V`)
        if any(isinstance(x, (ast.Yield, ast.YieldFrom, ast.Return))
               for b in body[:-1] + tr.finalbody for x in ast.walk(b)):
            continue
        a = st.args
        if a.vararg or a.kwarg or a.kwonlyargs or a.defaults:
            continue
        out[st.name] = st
    return out


class _InlineCM(ast.NodeTransformer):
    def __init__(self, helpers: dict[str, ast.FunctionDef]) -> None:
        self.helpers = helpers

    def visit_With(self, node: ast.With):      # noqa: N802
        self.generic_visit(node)
        if len(node.items) != 1:
            return node
        as_var = node.items[0].optional_vars
        if as_var is not None and not isinstance(as_var, ast.Name):
            return node
        call = node.items[0].context_expr
        if not (isinstance(call, ast.Call) and isinstance(call.func, ast.Name)
                and call.func.id in self.helpers and not call.keywords
                and all(isinstance(x, ast.Name) for x in call.args)):
            return node
        h = self.helpers[call.func.id]
        params = [p.arg for p in h.args.posonlyargs + h.args.args]
        if len(params) != len(call.args):
            return node
        ren = {p: x.id for p, x in zip(params, call.args)}      # type: ignore[attr-defined]
        body = [b for b in h.body if not (isinstance(b, ast.Expr)
                                          and isinstance(b.value, ast.Constant))]
        tr = body[-1]
        yielded = tr.body[0].value.value        # type: ignore[attr-defined]
        if (as_var is None) != (yielded is None) and as_var is not None:
            return node     # `as V` on a helper that yields nothing: V is None, not modelled
        if as_var is not None and isinstance(yielded, ast.Name):
            if yielded.id in params:
                return node
            # the yielded local of the helper *is* the variable bound by `as`
            ren[yielded.id] = as_var.id
        assigned = {t.id for b in body[:-1] + tr.finalbody for x in ast.walk(b)
                    if isinstance(x, ast.Name) and isinstance(x.ctx, ast.Store)
                    for t in [x]}
        for nm in assigned:
            if nm not in ren:
                ren[nm] = f'_cm_{nm}_{node.lineno}'

        def clone(stmts: list[ast.stmt]) -> list[ast.stmt]:
            out = []
            for st in stmts:
                c = copy.deepcopy(st)
                for x in ast.walk(c):
                    if isinstance(x, ast.Name) and x.id in ren:
                        x.id = ren[x.id]
                    if hasattr(x, 'lineno'):
                        x.lineno = node.lineno
                        x.end_lineno = node.lineno
                out.append(c)
            return out
        t = ast.Try(body=node.body, handlers=[], orelse=[], finalbody=clone(tr.finalbody))
        ast.copy_location(t, node)
        return clone(body[:-1]) + [t]


def desugar(tree: ast.Module) -> ast.Module:
    tr = _ExitStack()
    tree.body = tr._visit_block(tree.body)
    helpers = _cm_helpers(tree)
    if helpers:
        tree = _InlineCM(helpers).visit(tree)
    ast.fix_missing_locations(tree)
    return tree
