"""
Small forward must-analyses over the CFG.

`branch_facts(cfg)` computes, for every node, the set of condition facts that hold on
every path reaching it. Facts are strings: '+<expr>' (expr evaluated truthy), '-<expr>'
(falsy). Normalisations: `not X` flips the sign; `A and B` true gives both; `A or B` false
gives both negations; `X is not None` is '-X is None'; `X != Y` is '-X == Y';
`X not in Y` is '-X in Y'; `not isinstance(..)` flips. A fact is killed when any dotted
name it mentions is (re)assigned, deleted, or used as a for/with target.
"""
from __future__ import annotations

import ast
from typing import Iterable

from .cfg import CFG, Node, node_writes
from .srcmodel import dotted, stmt_text


def cond_facts(e: ast.expr, truth: bool) -> set[str]:
    if isinstance(e, ast.UnaryOp) and isinstance(e.op, ast.Not):
        return cond_facts(e.operand, not truth)
    if isinstance(e, ast.BoolOp):
        if isinstance(e.op, ast.And) and truth:
            out: set[str] = set()
            for v in e.values:
                out |= cond_facts(v, True)
            return out
        if isinstance(e.op, ast.Or) and not truth:
            out = set()
            for v in e.values:
                out |= cond_facts(v, False)
            return out
        return {('+' if truth else '-') + stmt_text(e)}
    if isinstance(e, ast.Compare) and len(e.ops) == 1:
        op = e.ops[0]
        left, right = stmt_text(e.left), stmt_text(e.comparators[0])
        if isinstance(op, ast.IsNot):
            return {('-' if truth else '+') + f'{left} is {right}'}
        if isinstance(op, ast.Is):
            return {('+' if truth else '-') + f'{left} is {right}'}
        if isinstance(op, ast.NotEq):
            return {('-' if truth else '+') + f'{left} == {right}'}
        if isinstance(op, ast.NotIn):
            return {('-' if truth else '+') + f'{left} in {right}'}
    if isinstance(e, ast.NamedExpr):
        return {('+' if truth else '-') + e.target.id} | cond_facts(e.value, truth)
    return {('+' if truth else '-') + stmt_text(e)}


def _names_in_fact(fact: str) -> set[str]:
    try:
        tree = ast.parse(fact[1:], mode='eval')
    except SyntaxError:
        return set()
    out = set()
    for n in ast.walk(tree):
        if isinstance(n, (ast.Name, ast.Attribute)):
            out.add(dotted(n))
    return out


def _kill(facts: frozenset[str], written: Iterable[str]) -> frozenset[str]:
    w = set(written)
    if not w:
        return facts
    keep = set()
    for f in facts:
        names = _names_in_fact(f)
        dead = False
        for name in names:
            for x in w:
                x0 = x[:-2] if x.endswith('[]') else x
                if name == x0 or name.startswith(x0 + '.'):
                    dead = True
        if not dead:
            keep.add(f)
    return frozenset(keep)


def branch_facts(cfg: CFG, gen=None) -> dict[int, frozenset[str]]:
    """node id -> facts holding on entry to the node on every path."""
    TOP = None
    state: dict[int, frozenset[str] | None] = {n.id: TOP for n in cfg.nodes}
    state[cfg.entry.id] = frozenset()
    work = [cfg.entry]
    while work:
        n = work.pop()
        cur = state[n.id]
        assert cur is not None
        written = [w for w, _ in node_writes(n)]
        if n.kind == 'stmt' and isinstance(n.ast, ast.Delete):
            for t in n.ast.targets:
                written.append(dotted(t))
        out_base = _kill(cur, written)
        if gen is not None:
            extra = gen(n)
            if extra:
                out_base = frozenset(out_base | set(extra))
        for label, s in n.succs:
            out = out_base
            if n.kind == 'test' and label in ('true', 'false'):
                assert isinstance(n.ast, ast.expr)
                out = frozenset(out | cond_facts(n.ast, label == 'true'))
            old = state[s.id]
            new = out if old is None else frozenset(old & out)
            if new != old:
                state[s.id] = new
                work.append(s)
    return {k: (v if v is not None else frozenset()) for k, v in state.items()}


def feasible_edges(cfg: CFG, target: Node, facts: dict[int, frozenset[str]]):
    """
    edge_ok predicate for path searches towards `target`: an edge out of a test node is
    infeasible if it establishes the negation of a fact that holds at `target` and no name
    of that fact is written anywhere except before the test (single dominating write).
    """
    tf = facts.get(target.id, frozenset())
    writes: dict[str, list[Node]] = {}
    for n in cfg.nodes:
        for w, _ in node_writes(n):
            writes.setdefault(w, []).append(n)

    def neg(f: str) -> str:
        return ('-' if f[0] == '+' else '+') + f[1:]

    def edge_ok(n: Node, label: str) -> bool:
        if n.kind != 'test' or label not in ('true', 'false'):
            return True
        for ef in cond_facts(n.ast, label == 'true'):       # type: ignore[arg-type]
            if neg(ef) in tf:
                names = _names_in_fact(ef)
                stable = True
                for nm in names:
                    for wname, nodes in writes.items():
                        w0 = wname[:-2] if wname.endswith('[]') else wname
                        if nm == w0 or nm.startswith(w0 + '.'):
                            for wn in nodes:
                                if wn is n or not cfg.dominated_by(n, lambda q, wn=wn: q is wn):
                                    stable = False
                if stable:
                    return False
        return True
    return edge_ok
