"""
Resolved call graph of the package and the phase map (parse phase / dynamic phase).

Resolution tiers, recorded on every edge:
  direct   module-level name, Class.method, module.attr, super().m, nested function
  self     self.m / cls.m through the class hierarchy (MRO upwards, overriding subclasses)
  anno     receiver is a parameter or annotated local whose annotation names a package class
  token    self.m inside a function bound to a token class by the registration DSL
  dispatch x.evaluate/select/nud/led/cast/__call__ on a token: every function bound to that
           slot by the DSL or defined under that name in a token class
  by-name  receiver of unknown type: every package method with that name, unless the name
           is also a method of a builtin container/str (then the call is left unresolved)
"""
from __future__ import annotations

import ast
import builtins
from collections import defaultdict
from dataclasses import dataclass
from typing import Iterable, Optional

from .srcmodel import Model, Module, ClassInfo, FuncInfo, walk_local, dotted
from .regmodel import RegModel

BUILTIN_METHOD_NAMES: set[str] = set()
for _t in (list, dict, str, set, frozenset, tuple, bytes, int, float, object):
    BUILTIN_METHOD_NAMES.update(n for n in dir(_t) if not n.startswith('__'))
BUILTIN_METHOD_NAMES.update({'match', 'search', 'group', 'groups', 'sub', 'finditer', 'findall',
                             'fullmatch', 'compile', 'read', 'write', 'close', 'acquire',
                             'release', 'quantize', 'as_tuple', 'send', 'throw', 'normalize',
                             'total_seconds', 'utcoffset', 'tzname', 'dst', 'isoformat',
                             'strftime', 'timetuple', 'toordinal', 'weekday', 'astimezone',
                             'fromisoformat', 'geturl', 'is_integer', 'hex', 'start', 'end',
                             'span', 'expandtabs', 'iter', 'find', 'set', 'getroot', 'itertext',
                             'getparent', 'getchildren', 'makeelement', 'getnext', 'getprevious',
                             'iterchildren', 'getroottree', 'xpath', 'parse'})

SLOTS = ('nud', 'led', 'evaluate', 'select', 'cast', '__call__')


@dataclass
class CallSite:
    caller: FuncInfo
    node: ast.Call
    targets: list[FuncInfo]
    tier: str
    text: str


class CallGraph:
    def __init__(self, model: Model, reg: RegModel) -> None:
        self.model = model
        self.reg = reg
        self.sites: dict[FuncInfo, list[CallSite]] = {}
        self.callees: dict[FuncInfo, set[FuncInfo]] = defaultdict(set)
        self.callers: dict[FuncInfo, set[FuncInfo]] = defaultdict(set)
        self.unresolved: list[tuple[FuncInfo, ast.Call]] = []
        self.methods_by_name: dict[str, list[FuncInfo]] = defaultdict(list)
        for c in model.all_classes():
            for name, f in c.methods.items():
                self.methods_by_name[name].append(f)
        self.token_base = model.find_class('XPathToken')
        self.tdop_token = model.find_class('Token')
        self.token_classes = [c for c in model.all_classes()
                              if c.is_subclass_of(self.tdop_token)]
        self.bound = reg.bound_functions()
        # slot -> functions
        self.slot_funcs: dict[str, set[FuncInfo]] = defaultdict(set)
        for f, uses in self.bound.items():
            for _, slot in uses:
                self.slot_funcs[slot].add(f)
        for c in self.token_classes:
            for s in SLOTS:
                if s in c.methods:
                    self.slot_funcs[s].add(c.methods[s])
        self._build()

    # ------------------------------------------------------------------
    def _param_classes(self, f: FuncInfo) -> dict[str, list[ClassInfo]]:
        """parameter name -> package classes named in its annotation."""
        out: dict[str, list[ClassInfo]] = {}
        a = f.node.args
        for p in a.posonlyargs + a.args + a.kwonlyargs:
            if p.annotation is not None:
                cs = self._anno_classes(f.module, p.annotation)
                if cs:
                    out[p.arg] = cs
        # annotated locals
        for n in walk_local(f.node):
            if isinstance(n, ast.AnnAssign) and isinstance(n.target, ast.Name):
                cs = self._anno_classes(f.module, n.annotation)
                if cs:
                    out.setdefault(n.target.id, cs)
        return out

    _ALIASES = {'ContextType': 'XPathContext', 'XPathTokenType': 'XPathToken',
                'XPathParserType': 'XPath1Parser'}

    def _anno_classes(self, mod: Module, anno: ast.expr) -> list[ClassInfo]:
        out: list[ClassInfo] = []
        for n in ast.walk(anno):
            name = None
            if isinstance(n, ast.Name):
                name = n.id
            elif isinstance(n, ast.Attribute):
                name = n.attr
            elif isinstance(n, ast.Constant) and isinstance(n.value, str):
                name = n.value.strip("'\" ")
            if not name:
                continue
            name = self._ALIASES.get(name, name)
            kind, val = self.model.resolve(mod, name)
            if kind == 'class':
                out.append(val)
            else:
                cs = self.model.find_classes(name)
                if len(cs) == 1 and name[0].isupper():
                    out.append(cs[0])
        return out

    def _lookup_down(self, cls: ClassInfo, name: str) -> list[FuncInfo]:
        """cls.name resolved up the MRO plus overriding definitions in subclasses."""
        out: list[FuncInfo] = []
        m = cls.find_method(name)
        if m is not None:
            out.append(m)
        for sub in self.model.all_classes():
            if sub is not cls and sub.is_subclass_of(cls) and name in sub.methods:
                if sub.methods[name] not in out:
                    out.append(sub.methods[name])
        return out

    def _build(self) -> None:
        for f in self.model.all_functions():
            self.sites[f] = []
            pcls = self._param_classes(f)
            is_bound = f in self.bound
            owner: Optional[ClassInfo] = f.cls
            p = f
            while owner is None and p.parent is not None:
                p = p.parent
                owner = p.cls
            local_defs = {q.name: q for q in self.model.modules[f.module.name].functions.values()
                          if q.parent is f}
            enclosing_defs: dict[str, FuncInfo] = {}
            anc = f.parent
            while anc is not None:
                for q in f.module.functions.values():
                    if q.parent is anc:
                        enclosing_defs.setdefault(q.name, q)
                anc = anc.parent
            for n in walk_local(f.node):
                if not isinstance(n, ast.Call):
                    continue
                targets, tier = self._resolve_call(f, n, pcls, is_bound, owner,
                                                   local_defs, enclosing_defs)
                if targets:
                    self.sites[f].append(CallSite(f, n, targets, tier, dotted(n.func)))
                    for t in targets:
                        self.callees[f].add(t)
                        self.callers[t].add(f)
                else:
                    self.unresolved.append((f, n))

    def _resolve_call(self, f: FuncInfo, call: ast.Call, pcls: dict[str, list[ClassInfo]],
                      is_bound: bool, owner: Optional[ClassInfo],
                      local_defs: dict[str, FuncInfo], enclosing: dict[str, FuncInfo]) \
            -> tuple[list[FuncInfo], str]:
        fn = call.func
        mod = f.module
        if isinstance(fn, ast.Name):
            if fn.id in local_defs:
                return [local_defs[fn.id]], 'direct'
            if fn.id in enclosing:
                return [enclosing[fn.id]], 'direct'
            kind, val = self.model.resolve(mod, fn.id)
            if kind == 'func':
                return [val], 'direct'
            if kind == 'class':
                out = [m for m in (val.find_method('__init__'), val.find_method('__new__')) if m]
                return out, 'direct'
            return [], ''
        if not isinstance(fn, ast.Attribute):
            return [], ''
        name = fn.attr
        recv = fn.value
        # super().m
        if isinstance(recv, ast.Call) and isinstance(recv.func, ast.Name) \
                and recv.func.id == 'super' and owner is not None:
            for b in owner.mro()[1:]:
                if name in b.methods:
                    return [b.methods[name]], 'direct'
            return [], ''
        # module.attr / Class.method
        kind, val = self.model.resolve_expr(mod, fn)
        if kind == 'func':
            return [val], 'direct'
        if kind == 'class':
            out = [m for m in (val.find_method('__init__'), val.find_method('__new__')) if m]
            return out, 'direct'
        # token-slot dispatch
        if name in SLOTS and not (isinstance(recv, ast.Name) and recv.id in ('self', 'cls')
                                  and owner is not None and not is_bound
                                  and not owner.is_subclass_of(self.tdop_token)):
            is_tokenish = True
            if isinstance(recv, ast.Name) and recv.id in pcls:
                is_tokenish = any(c.is_subclass_of(self.tdop_token) for c in pcls[recv.id])
                if not is_tokenish:
                    out = []
                    for c in pcls[recv.id]:
                        out.extend(self._lookup_down(c, name))
                    if out:
                        return out, 'anno'
            if is_tokenish and name != '__call__':
                return sorted(self.slot_funcs[name], key=lambda q: q.key), 'dispatch'
        # self.m
        if isinstance(recv, ast.Name) and recv.id in ('self', 'cls'):
            if owner is not None and f.parent is None:
                out = self._lookup_down(owner, name)
                if out:
                    return out, 'self'
            if recv.id in pcls:
                out = []
                for c in pcls[recv.id]:
                    out.extend(self._lookup_down(c, name))
                if out:
                    return out, 'token' if is_bound else 'anno'
            if is_bound or (f.params() and f.params()[0] in ('self', 'self_')):
                out = self._lookup_down(self.token_base, name)
                if out:
                    return out, 'token'
        # annotated receiver
        if isinstance(recv, ast.Name) and recv.id in pcls:
            out = []
            for c in pcls[recv.id]:
                out.extend(self._lookup_down(c, name))
            if out:
                return out, 'anno'
        # self.parser.m -> parser classes
        if dotted(recv).endswith('.parser') or dotted(recv) == 'parser':
            out = []
            for pc in self.reg.parser_classes.values():
                m = pc.find_method(name)
                if m is not None and m not in out:
                    out.append(m)
            if out:
                return out, 'anno'
        # by name
        if isinstance(recv, ast.Name) and hasattr(builtins, recv.id):
            return [], ''
        if isinstance(recv, ast.Name) and self.model.resolve(mod, recv.id)[0] == 'external':
            return [], ''
        if name.startswith('__'):
            return [], ''
        if name not in BUILTIN_METHOD_NAMES and name in self.methods_by_name:
            return list(self.methods_by_name[name]), 'by-name'
        return [], ''

    # ------------------------------------------------------------------
    def reachable(self, roots: Iterable[FuncInfo]) -> set[FuncInfo]:
        seen: set[FuncInfo] = set()
        stack = list(roots)
        while stack:
            f = stack.pop()
            if f in seen:
                continue
            seen.add(f)
            stack.extend(self.callees.get(f, ()))
            # nested functions defined in f run in f's phase
            for q in f.module.functions.values():
                if q.parent is f:
                    stack.append(q)
        return seen

    def dynamic_roots(self) -> set[FuncInfo]:
        roots: set[FuncInfo] = set()
        for slot in ('evaluate', 'select', 'cast', '__call__'):
            roots |= self.slot_funcs[slot]
        for c in self.token_classes:
            for n in ('__call__', 'evaluate', 'select', 'cast'):
                if n in c.methods:
                    roots.add(c.methods[n])
            # a token method that takes the dynamic context runs in the dynamic phase, even
            # when its name (keys, values, items, …) defeats by-name call resolution
            for n, m in c.methods.items():
                if n not in ('nud', 'led', '__init__') and 'context' in m.params():
                    roots.add(m)
        return roots

    def parse_roots(self) -> set[FuncInfo]:
        roots: set[FuncInfo] = set()
        for slot in ('nud', 'led'):
            roots |= self.slot_funcs[slot]
        for pc in self.reg.parser_classes.values():
            for c in pc.mro():
                for name, m in c.methods.items():
                    if name in ('parse', 'advance', 'advance_until', 'expression',
                                'expected_next', 'parse_occurrence', 'parse_sequence_type'):
                        roots.add(m)
        return roots

    def phases(self) -> tuple[set[FuncInfo], set[FuncInfo]]:
        """(dynamic-phase functions, parse-phase functions); a function may be in both."""
        dyn = self.reachable(self.dynamic_roots())
        # the parse phase calls evaluate() for static evaluation: cut the dispatch edges
        par: set[FuncInfo] = set()
        stack = list(self.parse_roots())
        dyn_roots = self.dynamic_roots()
        while stack:
            f = stack.pop()
            if f in par:
                continue
            par.add(f)
            for site in self.sites.get(f, ()):
                if site.tier == 'dispatch' and site.text.split('.')[-1] in \
                        ('evaluate', 'select', 'cast'):
                    continue
                for t in site.targets:
                    if t in dyn_roots and t not in self.slot_funcs['nud'] \
                            and t not in self.slot_funcs['led']:
                        continue
                    stack.append(t)
            for q in f.module.functions.values():
                if q.parent is f:
                    stack.append(q)
        return dyn, par

    def find_path(self, src: Iterable[FuncInfo], dst: FuncInfo) -> Optional[list[FuncInfo]]:
        parent: dict[FuncInfo, Optional[FuncInfo]] = {}
        stack = []
        for s in src:
            parent[s] = None
            stack.append(s)
        while stack:
            f = stack.pop(0)
            if f is dst:
                out = [f]
                while parent[out[-1]] is not None:
                    out.append(parent[out[-1]])      # type: ignore[arg-type]
                return list(reversed(out))
            for t in sorted(self.callees.get(f, ()), key=lambda q: q.key):
                if t not in parent:
                    parent[t] = f
                    stack.append(t)
        return None


_ = builtins
