"""
Registration model: an abstract interpreter of the parser-definition DSL of elementpath.

The four XPath parsers are built at import time by module-level statements and decorators
(``register/unregister/duplicate/literal/nullary/prefix/postfix/infix/infixr/method/
function/axis/proxy/constructor`` and ``Parser.symbol_table[s] = Class``). Token classes
are created dynamically, so they are invisible to ``ast`` and to a type checker. This
module recovers, per parser class, the symbol table ``lookup_name -> TokenRecord`` with
binding powers, labels, patterns, nargs, sequence types and the functions bound as
``nud/led/evaluate/select/cast``, by interpreting those statements in import order.

The semantics of the DSL is taken from tdop.py/xpath1_parser.py/xpath2_parser.py and is
re-checked against their source on every run (REG-SEMANTICS obligations). Anything
outside the enumerated statement shapes is an AnalysisError (fail closed).
"""
from __future__ import annotations

import ast
from dataclasses import dataclass, field
from typing import Any, Optional

from .srcmodel import Model, Module, ClassInfo, FuncInfo, AnalysisError, Unfoldable, \
    walk_local, stmt_text, dotted

TOKEN_DEFAULTS = {'lbp': 0, 'rbp': 0, 'label': 'symbol', 'pattern': None}

SIMPLE_HELPERS = ('literal', 'nullary', 'prefix', 'postfix', 'infix', 'infixr')
DSL_NAMES = SIMPLE_HELPERS + ('register', 'unregister', 'duplicate', 'method', 'function',
                              'axis', 'proxy', 'constructor')


@dataclass
class MethodRef:
    func: FuncInfo
    env: dict[str, Any] = field(default_factory=dict)   # closure constants (e.g. bp)
    origin: str = ''                                    # 'decorator' | 'helper:infix' | 'class'

    @property
    def key(self) -> str:
        return self.func.key


_uid = [0]


class TokenRecord:
    def __init__(self, symbol: str, lookup_name: str, bases: list[ClassInfo],
                 owner: str, module: str, classinfo: Optional[ClassInfo] = None) -> None:
        _uid[0] += 1
        self.uid = _uid[0]
        self.symbol = symbol
        self.lookup_name = lookup_name
        self.bases = bases
        self.owner = owner              # parser class that created it
        self.module = module
        self.classinfo = classinfo      # set for class-defined tokens
        self.attrs: dict[str, Any] = {}
        self.methods: dict[str, MethodRef] = {}
        self.decl_sites: list[tuple[str, int]] = []

    def __repr__(self) -> str:
        return f'<TokenRecord {self.symbol!r} #{self.uid} by {self.owner}>'

    def _mro(self) -> list[ClassInfo]:
        out: list[ClassInfo] = []
        for b in ([self.classinfo] if self.classinfo else self.bases):
            for c in b.mro():
                if c not in out:
                    out.append(c)
        return out

    def get(self, model: Model, name: str) -> Any:
        if name in self.attrs:
            return self.attrs[name]
        for c in self._mro():
            if name in c.attrs:
                e = c.attrs[name]
                try:
                    return model.fold(c.module, e)
                except Unfoldable:
                    if isinstance(e, ast.Call) and stmt_text(e.func) == 'MultiLabel':
                        try:
                            return tuple(model.fold(c.module, a) for a in e.args)
                        except Unfoldable:
                            pass
                    return UNFOLDED
        return TOKEN_DEFAULTS.get(name)

    def method(self, name: str) -> Optional[MethodRef]:
        if name in self.methods:
            return self.methods[name]
        for c in self._mro():
            if name in c.methods:
                return MethodRef(c.methods[name], origin='class')
        return None

    def is_subclass_of(self, cls: ClassInfo) -> bool:
        return any(c is cls for c in self._mro())

    @property
    def label_values(self) -> tuple[str, ...]:
        lab = self.attrs.get('label')
        if isinstance(lab, tuple):
            return lab
        return (lab,) if isinstance(lab, str) else ()


class _Unfolded:
    def __repr__(self) -> str:
        return '<unfolded>'


UNFOLDED = _Unfolded()


@dataclass
class ExprCall:
    """A `self.parser.expression(...)` call inside a nud/led body."""
    rbp: Any          # int | 'self.rbp' | UNFOLDED
    node: ast.Call


class RegModel:
    PARSERS = ('XPath1Parser', 'XPath2Parser', 'XPath30Parser', 'XPath31Parser')
    VERSIONS = {'XPath1Parser': '1.0', 'XPath2Parser': '2.0',
                'XPath30Parser': '3.0', 'XPath31Parser': '3.1'}

    def __init__(self, model: Model) -> None:
        self.model = model
        self.tables: dict[str, dict[str, TokenRecord]] = {}
        self.function_signatures: dict[str, dict[tuple[str, int], str]] = {}
        self.parser_classes: dict[str, ClassInfo] = {}
        self.module_order: list[str] = []
        self.semantics_checked: list[str] = []
        self.statements_interpreted = 0
        self.decorators_interpreted = 0
        self.bindings: list[tuple[str, TokenRecord, str, FuncInfo]] = []   # parser, rec, slot, func
        self._check_semantics()
        self._interpret_all()

    # ------------------------------------------------------- REG-SEMANTICS
    def _method_of(self, cls_name: str, meth: str) -> FuncInfo:
        ci = self.model.find_class(cls_name)
        f = ci.methods.get(meth)
        if f is None:
            raise AnalysisError(f'REG-SEMANTICS: {cls_name}.{meth} vanished')
        return f

    def _require(self, cond: bool, what: str) -> None:
        if not cond:
            raise AnalysisError(f'REG-SEMANTICS: {what}: the DSL helper no longer has the '
                                f'shape the registration model was derived from')
        self.semantics_checked.append(what)

    def _check_semantics(self) -> None:
        m = self.model
        m.module('elementpath.tdop')
        # Parser.register: monotone raise of lbp/rbp, callables are set, creation copies kwargs
        reg = self._method_of('Parser', 'register')
        src = [stmt_text(n) for n in ast.walk(reg.node) if isinstance(n, ast.Compare)]
        self._require("key == 'lbp' and value > token_class.lbp" in
                      [stmt_text(n) for n in ast.walk(reg.node) if isinstance(n, ast.BoolOp)]
                      and "key == 'rbp' and value > token_class.rbp" in
                      [stmt_text(n) for n in ast.walk(reg.node) if isinstance(n, ast.BoolOp)],
                      'Parser.register raises lbp/rbp only upwards')
        del src
        calls = [stmt_text(n) for n in ast.walk(reg.node) if isinstance(n, ast.Call)]
        self._require('setattr(token_class, key, value)' in calls and 'callable(value)' in calls,
                      'Parser.register sets callables on the token class')
        self._require("kwargs.get('lookup_name', symbol)" in calls
                      and "kwargs.get('bases', (cls.token_base_class,))" in calls
                      and 'ABCMeta(token_class_name, token_class_bases, kwargs)' in calls,
                      'Parser.register creates a class from kwargs when the symbol is new')
        unreg = self._method_of('Parser', 'unregister')
        self._require(any(isinstance(n, ast.Delete) and
                          stmt_text(n) == 'del cls.symbol_table[symbol.strip()]'
                          for n in ast.walk(unreg.node)),
                      'Parser.unregister deletes the table entry')
        dup = self._method_of('Parser', 'duplicate')
        dcalls = [stmt_text(n) for n in ast.walk(dup.node) if isinstance(n, ast.Call)]
        self._require('cls.register(new_symbol, **kwargs)' in dcalls
                      and 'setattr(new_token_class, key, value)' in dcalls
                      and any(stmt_text(n) ==
                              "key in kwargs or key in ('symbol', 'pattern') or key.startswith('_')"
                              for n in ast.walk(dup.node) if isinstance(n, ast.BoolOp)),
                      'Parser.duplicate copies public attributes except symbol/pattern')
        meth = self._method_of('Parser', 'method')
        mcalls = [stmt_text(n) for n in ast.walk(meth.node) if isinstance(n, ast.Call)]
        self._require('cls.register(symbol, label=label, lbp=bp, rbp=bp)' in mcalls
                      and "func.__name__.partition('__')" in mcalls
                      and 'setattr(token_class, method_name, func)' in mcalls,
                      'Parser.method registers (label,lbp,rbp) and binds name__suffix -> name')
        defaults = {a.arg: d for a, d in zip(meth.node.args.args[-2:], meth.node.args.defaults)}
        self._require(stmt_text(defaults.get('bp', ast.Constant(None))) == '0' and
                      stmt_text(defaults.get('label', ast.Constant(None))) == "'operator'",
                      "Parser.method defaults bp=0, label='operator'")
        # metaclass: symbol table shallow-copied from first base
        meta = self._method_of('ParserMeta', '__new__')
        self._require(any(stmt_text(n) == 'cls.symbol_table.update(base_class.symbol_table)'
                          for n in ast.walk(meta.node) if isinstance(n, ast.Call)),
                      'ParserMeta shares token classes with the base parser (shallow copy)')
        # Pratt loop
        expr = self._method_of('Parser', 'expression')
        self._require(any(isinstance(n, ast.While) and
                          stmt_text(n.test) == 'rbp < self.next_token.lbp'
                          for n in ast.walk(expr.node)),
                      'Parser.expression loops while rbp < next_token.lbp')
        # xpath1 helpers
        ax = self._method_of('XPath1Parser', 'axis')
        self._require(any(stmt_text(n) == 'cls.register(symbol, bases=(XPathAxis,), '
                          'reverse_axis=reverse_axis, lbp=bp, rbp=bp)'
                          for n in ast.walk(ax.node) if isinstance(n, ast.Call)),
                      'XPath1Parser.axis registers with bases=(XPathAxis,), reverse_axis, bp')
        fn = self._method_of('XPath1Parser', 'function')
        fdicts = [n for n in ast.walk(fn.node) if isinstance(n, ast.Dict)]
        self._require(any(stmt_text(d) == "{'bases': (XPathFunction,), 'label': label, "
                          "'nargs': nargs, 'lbp': bp, 'rbp': bp}" for d in fdicts),
                      'XPath1Parser.function kwargs = bases/label/nargs/lbp/rbp')
        fcalls = [stmt_text(n) for n in ast.walk(fn.node) if isinstance(n, ast.Call)]
        self._require("cls.proxy(symbol, label='function', bp=bp)" in fcalls
                      and 'cls.register(symbol, **kwargs)' in fcalls,
                      'XPath1Parser.function registers a proxy for prefixed functions')
        px = self._method_of('XPath1Parser', 'proxy')
        self._require(any(stmt_text(n).startswith("cls.register(symbol, label='function', "
                                                  "class_name=token_class_name, "
                                                  "bases=(ProxyToken,), lbp=bp, rbp=bp)")
                          for n in ast.walk(px.node) if isinstance(n, ast.Call))
                      and any(stmt_text(n) ==
                              "cls.symbol_table[f'{{{token_cls.namespace}}}{symbol}'] = token_cls"
                              for n in ast.walk(px.node) if isinstance(n, ast.Assign)),
                      'XPath1Parser.proxy moves the plain entry to its expanded name')
        cons = self._method_of('XPath2Parser', 'constructor')
        cd = [stmt_text(d) for d in ast.walk(cons.node) if isinstance(d, ast.Dict)]
        self._require(any("'bases': (XPathConstructor,)" in d and "'lbp': bp" in d
                          and "'sequence_types': sequence_types" in d for d in cd)
                      and any(stmt_text(n) == "func.__name__.partition('_')"
                              for n in ast.walk(cons.node) if isinstance(n, ast.Call)),
                      'XPath2Parser.constructor registers an XPathConstructor and binds cast')

    # ------------------------------------------------------- helper summaries
    def _simple_helper(self, parser: str, name: str, symbol: str, bp: int,
                       site: tuple[Module, ast.AST]) -> TokenRecord:
        """Generic interpretation of literal/nullary/prefix/postfix/infix/infixr."""
        pc = self.parser_classes[parser]
        f = pc.find_method(name)
        if f is None:
            raise AnalysisError(f'DSL helper {name} not found for {parser}')
        inner = {s.name: s for s in f.node.body if isinstance(s, ast.FunctionDef)}
        ret = [s for s in f.node.body if isinstance(s, ast.Return)]
        if len(ret) != 1 or not isinstance(ret[0].value, ast.Call) or \
                stmt_text(ret[0].value.func) != 'cls.register':
            raise AnalysisError(f'REG-SEMANTICS: Parser.{name} does not end with cls.register(...)')
        call = ret[0].value
        env = {'bp': bp, 'symbol': symbol}
        kwargs: dict[str, Any] = {}
        for kw in call.keywords:
            if kw.arg is None:
                raise AnalysisError(f'REG-SEMANTICS: Parser.{name}: **kwargs in register call')
            if isinstance(kw.value, ast.Name) and kw.value.id in inner:
                fi = f.module.functions.get(f'{f.qualname}.<locals>.{kw.value.id}')
                if fi is None:
                    raise AnalysisError(f'inner function {kw.value.id} of {name} not indexed')
                kwargs[kw.arg] = MethodRef(fi, env=dict(env), origin=f'helper:{name}')
            else:
                try:
                    kwargs[kw.arg] = self.model.fold(f.module, kw.value, env=env)
                except Unfoldable as err:
                    raise AnalysisError(f'REG-SEMANTICS: Parser.{name}: cannot fold {kw.arg}: {err}')
        return self._register(parser, symbol, kwargs, site)

    # ------------------------------------------------------- core semantics
    def _token_base(self, parser: str) -> ClassInfo:
        pc = self.parser_classes[parser]
        a = pc.find_attr('token_base_class')
        if a is None:
            raise AnalysisError(f'{parser}.token_base_class not found')
        kind, val = self.model.resolve_expr(a[0].module, a[1])
        if kind != 'class':
            raise AnalysisError(f'{parser}.token_base_class unresolved')
        return val

    def _register(self, parser: str, symbol: Any, kwargs: dict[str, Any],
                  site: tuple[Module, ast.AST]) -> TokenRecord:
        table = self.tables[parser]
        mod, node = site
        if isinstance(symbol, TokenRecord):
            rec = symbol
            if table.get(rec.lookup_name) is not rec:
                raise AnalysisError(f'{mod.relpath}:{node.lineno}: token class not registered')
        else:
            if not isinstance(symbol, str):
                raise AnalysisError(f'{mod.relpath}:{node.lineno}: symbol is not a string')
            lookup = kwargs.get('lookup_name', symbol)
            if lookup in table:
                rec = table[lookup]
            else:
                bases = kwargs.get('bases')
                if bases is None:
                    bases = (self._token_base(parser),)
                rec = TokenRecord(symbol, lookup, list(bases), parser, mod.name)
                for k, v in kwargs.items():
                    if isinstance(v, MethodRef):
                        rec.methods[k] = v
                    elif k not in ('bases', 'class_name'):
                        rec.attrs[k] = v
                rec.attrs['symbol'] = symbol
                rec.attrs['lookup_name'] = lookup
                table[lookup] = rec
                rec.decl_sites.append((mod.relpath, getattr(node, 'lineno', 0)))
                return rec
        rec.decl_sites.append((mod.relpath, getattr(node, 'lineno', 0)))
        for k, v in kwargs.items():
            if k == 'lbp':
                cur = rec.get(self.model, 'lbp')
                if isinstance(v, int) and isinstance(cur, int) and v > cur:
                    rec.attrs['lbp'] = v
            elif k == 'rbp':
                cur = rec.get(self.model, 'rbp')
                if isinstance(v, int) and isinstance(cur, int) and v > cur:
                    rec.attrs['rbp'] = v
            elif isinstance(v, MethodRef):
                rec.methods[k] = v
        return rec

    def _proxy(self, parser: str, symbol: str, bp: int, site: tuple[Module, ast.AST]) -> None:
        table = self.tables[parser]
        proxy_cls = self.model.find_class('ProxyToken')
        if symbol in table and not table[symbol].is_subclass_of(proxy_cls):
            rec = table.pop(symbol)
            ns = rec.get(self.model, 'namespace')
            table[f'{{{ns}}}{symbol}'] = rec
        self._register(parser, symbol, {'label': 'function', 'bases': (proxy_cls,),
                                        'lbp': bp, 'rbp': bp, 'class_name': 'proxy'}, site)

    def _function(self, parser: str, symbol: str, kw: dict[str, Any],
                  site: tuple[Module, ast.AST]) -> TokenRecord:
        fn_cls = self.model.find_class('XPathFunction')
        label = kw.get('label', 'function')
        nargs = kw.get('nargs')
        bp = kw.get('bp', 90)
        prefix = kw.get('prefix')
        sequence_types = kw.get('sequence_types', ())
        kwargs: dict[str, Any] = {'bases': (fn_cls,), 'label': label, 'nargs': nargs,
                                  'lbp': bp, 'rbp': bp}
        label_txt = ' '.join(label) if isinstance(label, tuple) else label
        if 'function' not in label_txt:
            return self._register(parser, symbol, kwargs, site)
        pc = self.parser_classes[parser]
        if prefix:
            a = pc.find_attr('DEFAULT_NAMESPACES')
            namespace = None
            if a is not None:
                try:
                    namespace = self._fold_namespaces(a[0].module, a[1]).get(prefix)
                except Unfoldable:
                    namespace = None
            if namespace is None:
                raise AnalysisError(f'{site[0].relpath}:{site[1].lineno}: cannot resolve '
                                    f'DEFAULT_NAMESPACES[{prefix!r}] for {parser}')
            kwargs['lookup_name'] = f'{{{namespace}}}{symbol}'
            kwargs['namespace'] = namespace
            self._proxy(parser, symbol, bp, site)
            qname = (namespace, symbol)
        else:
            namespace = self.model.fold(
                self.model.module('elementpath.namespaces'),
                ast.Name('XPATH_FUNCTIONS_NAMESPACE', ast.Load()))
            kwargs['namespace'] = namespace
            qname = (namespace, symbol)
        if sequence_types:
            kwargs['sequence_types'] = sequence_types
            sigs = self.function_signatures[parser]
            if isinstance(nargs, int):
                sigs[(f'{{{qname[0]}}}{qname[1]}', nargs)] = 'function({}) as {}'.format(
                    ', '.join(sequence_types[:-1]), sequence_types[-1])
            elif isinstance(nargs, tuple) and nargs[1] is None:
                sigs[(f'{{{qname[0]}}}{qname[1]}', nargs[0])] = \
                    'function({}, ...) as {}'.format(
                        ', '.join(sequence_types[:-1]), sequence_types[-1])
            elif isinstance(nargs, tuple):
                for arity in range(nargs[0], nargs[1] + 1):
                    sigs[(f'{{{qname[0]}}}{qname[1]}', arity)] = 'function({}) as {}'.format(
                        ', '.join(sequence_types[:arity]), sequence_types[-1])
        return self._register(parser, symbol, kwargs, site)

    def _fold_namespaces(self, mod: Module, expr: ast.expr) -> dict[str, str]:
        if isinstance(expr, ast.Dict):
            out: dict[str, str] = {}
            for k, v in zip(expr.keys, expr.values):
                if k is None:
                    kind, val = self.model.resolve_expr(mod, v)
                    if kind == 'const':
                        out.update(self._fold_namespaces(val[0], val[1]))
                    else:
                        raise Unfoldable('**' + stmt_text(v))
                else:
                    out[self.model.fold(mod, k)] = self.model.fold(mod, v)
            return out
        raise Unfoldable('namespaces')

    def _constructor(self, parser: str, symbol: str, kw: dict[str, Any],
                     site: tuple[Module, ast.AST]) -> TokenRecord:
        cons_cls = self.model.find_class('XPathConstructor')
        bp = kw.get('bp', 90)
        nargs = kw.get('nargs', 1)
        label = kw.get('label', 'constructor function')
        st = kw.get('sequence_types', ())
        if not st:
            st = ('xs:anyAtomicType?', 'xs:%s?' % symbol)
        xsd = self.model.fold(self.model.module('elementpath.namespaces'),
                              ast.Name('XSD_NAMESPACE', ast.Load()))
        kwargs = {'bases': (cons_cls,), 'label': label, 'nargs': nargs, 'lbp': bp, 'rbp': bp,
                  'sequence_types': tuple(st), 'name': f'{{{xsd}}}{symbol}'}
        return self._register(parser, symbol, kwargs, site)

    def _duplicate(self, parser: str, symbol: str, new_symbol: str, kw: dict[str, Any],
                   site: tuple[Module, ast.AST]) -> TokenRecord:
        table = self.tables[parser]
        if symbol not in table:
            raise AnalysisError(f'{site[0].relpath}:{site[1].lineno}: duplicate of unknown '
                                f'symbol {symbol!r}')
        src = table[symbol]
        new = self._register(parser, new_symbol, dict(kw), site)
        # copy the source class __dict__ (own attributes only), except symbol/pattern/_*
        for k, v in src.attrs.items():
            if k in kw or k in ('symbol', 'pattern') or k.startswith('_'):
                continue
            new.attrs[k] = v
        for k, v in src.methods.items():
            if k in kw or k.startswith('_'):
                continue
            new.methods[k] = v
        if src.classinfo is not None:
            ci = src.classinfo
            for k, e in ci.attrs.items():
                if k in kw or k in ('symbol', 'pattern') or k.startswith('_'):
                    continue
                try:
                    new.attrs[k] = self.model.fold(ci.module, e)
                except Unfoldable:
                    new.attrs[k] = UNFOLDED
            for k, f in ci.methods.items():
                if k in kw or k.startswith('_'):
                    continue
                new.methods[k] = MethodRef(f, origin='class')
        return new

    # ------------------------------------------------------- interpretation
    def _module_chain(self, pkg: str) -> list[str]:
        """Import chain of a version package, in execution order (parser module first)."""
        m = self.model.module(pkg)
        start = None
        for st in m.tree.body:
            if isinstance(st, ast.If) and isinstance(st.test, ast.Name) \
                    and st.test.id == 'TYPE_CHECKING':
                for s2 in st.orelse:
                    if isinstance(s2, ast.ImportFrom) and s2.level == 1:
                        start = f'{pkg}.{s2.module}'
        if start is None:
            raise AnalysisError(f'{pkg}: runtime import of the parser class not found')
        chain = [start]
        while True:
            cur = self.model.module(chain[-1])
            nxt = None
            for st in cur.tree.body:
                stmts = [st]
                if isinstance(st, ast.If) and isinstance(st.test, ast.Name) \
                        and st.test.id == 'TYPE_CHECKING':
                    stmts = st.orelse
                for s2 in stmts:
                    if isinstance(s2, ast.ImportFrom) and s2.level == 1 and s2.module and \
                            any(a.name.endswith('Parser') for a in s2.names):
                        nxt = f'{pkg}.{s2.module}'
            if nxt is None:
                break
            if nxt in chain:
                raise AnalysisError(f'import cycle at {nxt}')
            chain.append(nxt)
        return list(reversed(chain))

    def _interpret_all(self) -> None:
        pkgs = [('XPath1Parser', 'elementpath.xpath1'), ('XPath2Parser', 'elementpath.xpath2'),
                ('XPath30Parser', 'elementpath.xpath30'), ('XPath31Parser', 'elementpath.xpath31')]
        prev: Optional[str] = None
        for pname, pkg in pkgs:
            chain = self._module_chain(pkg)
            pmod = self.model.module(chain[0])
            if pname not in pmod.classes:
                raise AnalysisError(f'{pname} not defined in {chain[0]}')
            pc = pmod.classes[pname]
            self.parser_classes[pname] = pc
            # ParserMeta.__new__: copy the base table unless the class body defines one
            if 'symbol_table' in pc.attrs:
                raise AnalysisError(f'{pname} defines its own symbol_table: unsupported shape')
            if prev is None:
                self.tables[pname] = {}
                self.function_signatures[pname] = {}
            else:
                base_names = [b.name for b in pc.bases if isinstance(b, ClassInfo)]
                if prev not in base_names:
                    raise AnalysisError(f'{pname} does not derive from {prev}')
                self.tables[pname] = dict(self.tables[prev])
                self.function_signatures[pname] = dict(self.function_signatures[prev])
            for modname in chain:
                self.module_order.append(modname)
                self._interpret_module(self.model.module(modname), pname)
            prev = pname

    def _interpret_module(self, mod: Module, parser: str) -> None:
        aliases: dict[str, tuple[str, str]] = {}      # local name -> (parser, dsl method)

        def parser_of(e: ast.expr) -> Optional[str]:
            if isinstance(e, ast.Name):
                kind, val = self.model.resolve(mod, e.id)
                if kind == 'class' and val.name in self.PARSERS:
                    return val.name
            return None

        def dsl_target(fn: ast.expr) -> Optional[tuple[str, str]]:
            if isinstance(fn, ast.Name) and fn.id in aliases:
                return aliases[fn.id]
            if isinstance(fn, ast.Attribute):
                p = parser_of(fn.value)
                if p is not None and fn.attr in DSL_NAMES:
                    return p, fn.attr
            return None

        def fold_arg(e: ast.expr) -> Any:
            if isinstance(e, ast.Call):
                return eval_call(e)
            if isinstance(e, ast.Tuple):
                # tuple of classes (bases=...) or constants
                vals = []
                for x in e.elts:
                    kind, val = self.model.resolve_expr(mod, x) \
                        if isinstance(x, (ast.Name, ast.Attribute)) else ('', None)
                    if kind == 'class':
                        vals.append(val)
                    else:
                        vals.append(self.model.fold(mod, x))
                return tuple(vals)
            try:
                return self.model.fold(mod, e)
            except Unfoldable as err:
                raise AnalysisError(f'{mod.relpath}:{e.lineno}: cannot fold DSL argument '
                                    f'{stmt_text(e)}: {err}')

        def eval_call(call: ast.Call) -> Any:
            tgt = dsl_target(call.func)
            if tgt is None:
                raise AnalysisError(f'{mod.relpath}:{call.lineno}: unknown call in DSL '
                                    f'position: {stmt_text(call)}')
            p, name = tgt
            if p != parser:
                raise AnalysisError(f'{mod.relpath}:{call.lineno}: DSL call on {p} inside the '
                                    f'definition modules of {parser}')
            args = [fold_arg(a) for a in call.args]
            kw = {}
            for k in call.keywords:
                if k.arg is None:
                    raise AnalysisError(f'{mod.relpath}:{call.lineno}: **kwargs in DSL call')
                kw[k.arg] = fold_arg(k.value)
            site = (mod, call)
            if name in SIMPLE_HELPERS:
                bp = kw.get('bp', args[1] if len(args) > 1 else 0)
                return self._simple_helper(p, name, args[0], bp, site)
            if name == 'register':
                return self._register(p, args[0], kw, site)
            if name == 'unregister':
                sym = args[0].strip()
                if sym not in self.tables[p]:
                    raise AnalysisError(f'{mod.relpath}:{call.lineno}: unregister of unknown '
                                        f'symbol {sym!r}')
                del self.tables[p][sym]
                return None
            if name == 'duplicate':
                return self._duplicate(p, args[0], args[1], kw, site)
            if name == 'function':
                return self._function(p, args[0], kw, site)
            if name == 'axis':
                ax_cls = self.model.find_class('XPathAxis')
                bp = kw.get('bp', 80)
                return self._register(p, args[0], {
                    'bases': (ax_cls,), 'reverse_axis': kw.get('reverse_axis', False),
                    'lbp': bp, 'rbp': bp}, site)
            if name == 'proxy':
                self._proxy(p, args[0], kw.get('bp', 90), site)
                return self.tables[p][args[0]]
            if name == 'method':
                sym = args[0]
                bp = kw.get('bp', args[1] if len(args) > 1 else 0)
                label = kw.get('label', 'operator')
                rec = self._register(p, sym, {'label': label, 'lbp': bp, 'rbp': bp}, site)
                return ('bind-method', rec)
            if name == 'constructor':
                rec = self._constructor(p, args[0], kw, site)
                return ('bind-cast', rec)
            raise AnalysisError(f'unhandled DSL method {name}')

        def slot_name(fname: str, kind: str) -> str:
            if kind == 'bind-cast':
                s = fname.partition('_')[0]
                if s != 'cast':
                    raise AnalysisError(f'{mod.relpath}: constructor function {fname} does not '
                                        f'start with cast')
                return s
            if '__' in fname:
                return fname.partition('__')[0]
            if fname[0] != '_':
                return fname.partition('_')[0]
            return '_' + fname[1:].partition('_')[0]

        for st in mod.tree.body:
            if isinstance(st, (ast.Import, ast.ImportFrom, ast.ClassDef)):
                continue
            if isinstance(st, ast.If):
                if isinstance(st.test, ast.Name) and st.test.id == 'TYPE_CHECKING':
                    continue
                raise AnalysisError(f'{mod.relpath}:{st.lineno}: module-level if in a '
                                    f'definition module')
            if isinstance(st, ast.Expr):
                if isinstance(st.value, ast.Constant):
                    continue
                if isinstance(st.value, ast.Call):
                    eval_call(st.value)
                    self.statements_interpreted += 1
                    continue
                raise AnalysisError(f'{mod.relpath}:{st.lineno}: unknown module-level '
                                    f'expression {stmt_text(st)}')
            if isinstance(st, (ast.Assign, ast.AnnAssign)):
                targets = st.targets if isinstance(st, ast.Assign) else [st.target]
                value = st.value
                if len(targets) == 1 and isinstance(targets[0], ast.Name) and value is not None:
                    if isinstance(value, ast.Attribute):
                        p = parser_of(value.value)
                        if p is not None and value.attr in DSL_NAMES:
                            aliases[targets[0].id] = (p, value.attr)
                            continue
                    # constants and helper tables: must not touch a parser
                    if any(parser_of(n) for n in ast.walk(value) if isinstance(n, ast.Name)):
                        raise AnalysisError(f'{mod.relpath}:{st.lineno}: assignment involving '
                                            f'a parser class: {stmt_text(st)}')
                    continue
                if len(targets) == 1 and isinstance(targets[0], ast.Subscript):
                    t = targets[0]
                    if isinstance(t.value, ast.Attribute) and t.value.attr == 'symbol_table':
                        p = parser_of(t.value.value)
                        if p != parser:
                            raise AnalysisError(f'{mod.relpath}:{st.lineno}: symbol_table of '
                                                f'another parser')
                        sym = self.model.fold(mod, t.slice)
                        kind, val = self.model.resolve_expr(mod, value)  # type: ignore[arg-type]
                        if kind != 'class':
                            raise AnalysisError(f'{mod.relpath}:{st.lineno}: symbol_table value '
                                                f'is not a class')
                        rec = self._class_record(val, parser)
                        self.tables[parser][sym] = rec
                        rec.decl_sites.append((mod.relpath, st.lineno))
                        self.statements_interpreted += 1
                        continue
                    if isinstance(t.value, ast.Name):
                        continue   # e.g. table[...] = value on a local constant
                if len(targets) == 1 and isinstance(targets[0], ast.Attribute):
                    # e.g. XPathToken.registry = TokenRegistry()
                    if parser_of(targets[0].value) is None:
                        continue
                raise AnalysisError(f'{mod.relpath}:{st.lineno}: unknown module-level '
                                    f'assignment {stmt_text(st)}')
            if isinstance(st, (ast.FunctionDef, ast.AsyncFunctionDef)):
                fi = mod.functions.get(st.name) or next(
                    (f for f in mod.functions.values() if f.node is st), None)
                if fi is None or fi.node is not st:
                    fi = next((f for f in mod.functions.values() if f.node is st), None)
                if fi is None:
                    raise AnalysisError(f'{mod.relpath}:{st.lineno}: function not indexed')
                for dec in st.decorator_list:      # evaluated top-down
                    # decorators imported from outside the package (contextmanager, cache,
                    # lru_cache(...), wraps(...)) are not part of the registration DSL
                    dname = dotted(dec.func if isinstance(dec, ast.Call) else dec)
                    if dname:
                        try:
                            kind_, _ = self.model.resolve(mod, dname.split('.')[0])
                        except Exception:           # noqa: BLE001
                            kind_ = ''
                        if kind_ == 'external':
                            continue
                    if not isinstance(dec, ast.Call):
                        raise AnalysisError(f'{mod.relpath}:{dec.lineno}: decorator is not a '
                                            f'call: {stmt_text(dec)}')
                    res = eval_call(dec)
                    if not (isinstance(res, tuple) and res[0] in ('bind-method', 'bind-cast')):
                        raise AnalysisError(f'{mod.relpath}:{dec.lineno}: decorator does not '
                                            f'bind a method: {stmt_text(dec)}')
                    rec = res[1]
                    slot = slot_name(st.name, res[0])
                    if res[0] == 'bind-method' and rec.method(slot) is None \
                            and slot not in ('nud', 'led', 'evaluate', 'select'):
                        raise AnalysisError(f'{mod.relpath}:{dec.lineno}: {slot!r} is not a '
                                            f'method of the token class of {rec.symbol!r}')
                    rec.methods[slot] = MethodRef(fi, origin='decorator')
                    self.bindings.append((parser, rec, slot, fi))
                    self.decorators_interpreted += 1
                continue
            raise AnalysisError(f'{mod.relpath}:{st.lineno}: unknown module-level statement '
                                f'{type(st).__name__}')

    _class_records: dict[int, TokenRecord] = {}

    def _class_record(self, ci: ClassInfo, parser: str) -> TokenRecord:
        key = id(ci)
        if key in self._class_records and self._class_records[key].classinfo is ci:
            return self._class_records[key]
        sym = None
        a = ci.find_attr('symbol')
        if a is not None:
            sym = self.model.try_fold(a[0].module, a[1])
        look = None
        a = ci.find_attr('lookup_name')
        if a is not None:
            look = self.model.try_fold(a[0].module, a[1])
        rec = TokenRecord(sym or ci.name, look or sym or ci.name, [], parser, ci.module.name,
                          classinfo=ci)
        self._class_records[key] = rec
        return rec

    # ------------------------------------------------------- queries
    def records(self, parser: str) -> dict[str, TokenRecord]:
        return self.tables[parser]

    def all_records(self) -> list[TokenRecord]:
        seen: dict[int, TokenRecord] = {}
        for t in self.tables.values():
            for r in t.values():
                seen[r.uid] = r
        # records that were unregistered are still interesting for bindings
        for _, r, _, _ in self.bindings:
            seen[r.uid] = r
        return list(seen.values())

    def bound_functions(self) -> dict[FuncInfo, set[tuple[str, str]]]:
        """func -> {(symbol, slot)} for every function bound to a token record."""
        out: dict[FuncInfo, set[tuple[str, str]]] = {}
        for rec in self.all_records():
            for slot, ref in rec.methods.items():
                out.setdefault(ref.func, set()).add((rec.symbol, slot))
        return out

    def expression_calls(self, ref: MethodRef) -> list[ExprCall]:
        """The `…parser.expression(rbp)` calls in a nud/led body with folded rbp."""
        out = []
        for n in walk_local(ref.func.node):
            if isinstance(n, ast.Call) and isinstance(n.func, ast.Attribute) \
                    and n.func.attr == 'expression' \
                    and stmt_text(n.func.value).endswith('parser'):
                arg: Optional[ast.expr] = None
                if n.args:
                    arg = n.args[0]
                for k in n.keywords:
                    if k.arg == 'rbp':
                        arg = k.value
                if arg is None:
                    out.append(ExprCall(0, n))
                    continue
                if stmt_text(arg) == 'self.rbp':
                    out.append(ExprCall('self.rbp', n))
                    continue
                try:
                    out.append(ExprCall(self.model.fold(ref.func.module, arg, env=ref.env), n))
                except Unfoldable:
                    out.append(ExprCall(UNFOLDED, n))
        out.sort(key=lambda c: (c.node.lineno, c.node.col_offset))
        return out
