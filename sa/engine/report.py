"""
Findings, rule results, known-findings handling, evidence files and exit codes.

Exit codes: 0 all obligations discharged (known findings printed as KNOWN-FINDING lines);
1 at least one violation that known_findings.json does not list; 2 ANALYSIS-ERROR.
"""
from __future__ import annotations

import json
import os
import sys
import time
from dataclasses import dataclass, field
from typing import Any, Optional

VERIF = os.path.dirname(os.path.dirname(os.path.dirname(os.path.abspath(__file__))))


@dataclass
class Finding:
    rule: str            # e.g. 'R19.1'
    module: str          # path relative to the repository root
    function: str        # qualified name, '' for module level
    construct: str       # callee / attribute / symbol / exception class concerned
    message: str
    line: int = 0
    path: list[str] = field(default_factory=list)
    ordinal: int = 1

    @property
    def key(self) -> str:
        k = f'{self.rule}|{self.module}|{self.function}|{self.construct}'
        return k if self.ordinal == 1 else f'{k}#{self.ordinal}'

    def as_dict(self) -> dict[str, Any]:
        return {'key': self.key, 'rule': self.rule, 'where': f'{self.module}:{self.line}',
                'function': self.function, 'construct': self.construct,
                'message': self.message, 'path': self.path}


@dataclass
class RuleResult:
    rule: str
    title: str
    text: str                              # the rule, in words
    obligations: int = 0
    discharged: int = 0
    instances: list[str] = field(default_factory=list)     # what was analysed
    samples: list[Any] = field(default_factory=list)
    findings: list[Finding] = field(default_factory=list)
    notes: list[str] = field(default_factory=list)
    allowed: list[dict[str, str]] = field(default_factory=list)

    def ok(self, n: int = 1) -> None:
        self.obligations += n
        self.discharged += n

    def fail(self, f: Finding) -> None:
        self.obligations += 1
        self.findings.append(f)

    def allow(self, f: Finding, reason: str) -> None:
        self.obligations += 1
        self.discharged += 1
        self.allowed.append({'key': f.key, 'reason': reason})


# rules that could not analyse the tree (sa/check.py isolates each rule): (rule id, message)
ANALYSIS_ERRORS: list[tuple[str, str]] = []


def number_ordinals(findings: list[Finding]) -> None:
    seen: dict[str, int] = {}
    for f in findings:
        base = f'{f.rule}|{f.module}|{f.function}|{f.construct}'
        seen[base] = seen.get(base, 0) + 1
        f.ordinal = seen[base]


def load_json(path: str, default: Any) -> Any:
    try:
        with open(path) as fp:
            return json.load(fp)
    except FileNotFoundError:
        return default


class Allow:
    """sa/allow.json: {"<finding key>": "<one line of reason>"}; no wildcards."""

    def __init__(self) -> None:
        self.table: dict[str, str] = load_json(os.path.join(VERIF, 'sa', 'allow.json'), {})
        self.used: set[str] = set()

    def reason(self, key: str) -> Optional[str]:
        r = self.table.get(key)
        if r is not None:
            self.used.add(key)
        return r


def apply_allow(res: RuleResult, allow: Allow) -> None:
    """Move findings that the allow table lists (exact key) to `allowed`."""
    number_ordinals(res.findings)
    keep = []
    for f in res.findings:
        r = allow.reason(f.key)
        if r is not None:
            res.discharged += 1
            res.allowed.append({'key': f.key, 'reason': r})
        else:
            keep.append(f)
    res.findings = keep


def finish(prop: str, tier: str, results: list[RuleResult], explanation: str,
           assumptions: list[str], digests: dict[str, str], t0: float,
           baselines: dict[str, int], counts: dict[str, int],
           not_decided: str = '') -> int:
    """Print the verdict lines, write evidence, return the exit code."""
    known = load_json(os.path.join(VERIF, 'known_findings.json'), {'findings': [], 'fixed': []})
    known_by_key = {k['key']: k for k in known.get('findings', []) if k.get('property') == prop}

    # vacuity guard: per-rule instance/obligation counts are measured on every run
    counts = dict(counts)
    for r in results:
        counts.setdefault(f'{r.rule}.instances', len(r.instances))
        counts.setdefault(f'{r.rule}.obligations', r.obligations)
    violations: list[Finding] = []
    known_hit: list[Finding] = []
    for r in results:
        for f in r.findings:
            if f.key in known_by_key:
                known_hit.append(f)
            else:
                violations.append(f)

    # a rule that met an idiom it cannot analyse makes a clean verdict untrustworthy (exit 2);
    # violations found by the other rules are still reported (exit 1)
    for rule, msg in ANALYSIS_ERRORS:
        if not violations:
            print(f'ANALYSIS-ERROR property={prop} [{rule}] {msg}')
            return 2
        print(f'NOTE property={prop} [{rule}] not analysed: {msg}')
    # a shrunken instance set makes a clean verdict untrustworthy (exit 2); when violations
    # were found anyway they are reported (exit 1) and the shortfall is only mentioned
    for name, minimum in baselines.items():
        got = counts.get(name)
        if got is None or got < minimum:
            msg = (f'baseline {name!r} was not measured' if got is None else
                   f'instance count {name}={got} fell below the hand-confirmed baseline '
                   f'{minimum}: the rule may be passing vacuously')
            if not violations:
                print(f'ANALYSIS-ERROR property={prop} {msg}')
                return 2
            print(f'NOTE property={prop} {msg}')

    # runs against a scratch copy (VERIF_REPO) must not touch the committed evidence
    scratch = os.environ.get('VERIF_REPO', '/repo') != '/repo' or \
        bool(os.environ.get('VERIF_NO_EVIDENCE'))
    out_root = os.path.join('/tmp', 'verif-scratch-out') if scratch else VERIF
    replay_dir = os.path.join(out_root, 'replay')
    os.makedirs(replay_dir, exist_ok=True)
    for f in known_hit:
        print(f'KNOWN-FINDING: property={prop} {known_by_key[f.key].get("what", f.message)} '
              f'[{f.key}] at {f.module}:{f.line}')
    for i, f in enumerate(violations, 1):
        path = os.path.join(replay_dir, f'{prop}-{i}.json')
        with open(path, 'w') as fp:
            json.dump({'property': prop, **f.as_dict(),
                       'rerun': f'/venv/bin/python sa/check.py {prop} --tier {tier}'},
                      fp, indent=1)
        print(f'{f.module}:{f.line}: [{f.rule}] {f.function or "<module>"}: {f.message} '
              f'(key {f.key})')
        for p in f.path:
            print(f'    path: {p}')
        print(f'VIOLATION property={prop} replay={path}')

    obligations = sum(r.obligations for r in results)
    discharged = sum(r.discharged for r in results)
    samples: list[Any] = []
    for r in results:
        samples.extend(r.samples[:6])
    evidence = {
        'property_id': prop,
        'tier': tier,
        'seed': int(os.environ.get('VERIF_SEED', '0') or 0),
        'level': 'other',
        'coverage': {
            'explanation': explanation,
            'not_decided': not_decided,
            'obligations': obligations,
            'discharged': discharged,
            'evaluations': max(obligations, 1),
            'distinct_nontrivial': sum(len(set(r.instances)) for r in results),
            'rule': 'one obligation per rule instance found structurally in /repo source; '
                    'distinct_nontrivial counts distinct analysed instances '
                    '(functions, call sites, table rows, symbols)',
            'checker_cmd': f'/venv/bin/python sa/check.py {prop} --tier {tier}',
            'trusted_base': ['CPython ast', 'sa/specs/*.json transcriptions', 'sa/allow.json'],
            'samples': samples[:40] or ['(no instances)'],
            'instance_counts': counts,
            'baselines': baselines,
            'rules': [{
                'rule': r.rule, 'title': r.title, 'text': r.text,
                'obligations': r.obligations, 'discharged': r.discharged,
                'instances_analysed': len(r.instances),
                'instances': r.instances[:400],
                'open_findings': [f.as_dict() for f in r.findings],
                'allowed': r.allowed, 'notes': r.notes,
            } for r in results],
            'known_findings_printed': [f.key for f in known_hit],
            'consulted_files': digests,
        },
        'assumptions': assumptions,
        'wall_s': round(time.time() - t0, 3),
        'violations': len(violations),
    }
    os.makedirs(os.path.join(out_root, 'evidence'), exist_ok=True)
    with open(os.path.join(out_root, 'evidence', f'{prop}.json'), 'w') as fp:
        json.dump(evidence, fp, indent=1, default=str)

    tot_inst = sum(len(r.instances) for r in results)
    print(f'{prop} [{tier}]: {len(results)} rules, {tot_inst} instances, '
          f'{discharged}/{obligations} obligations discharged, '
          f'{len(known_hit)} known findings, {len(violations)} violations, '
          f'{evidence["wall_s"]}s')
    sys.stdout.flush()
    return 1 if violations else 0
