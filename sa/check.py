#!/venv/bin/python
"""
Entry point:  /venv/bin/python sa/check.py C05 [--tier quick|thorough]

Static analysis only: parses /repo (or $VERIF_REPO) with ast, never imports elementpath.
"""
from __future__ import annotations

import argparse
import importlib
import os
import sys
import time
import traceback

sys.path.insert(0, os.path.dirname(os.path.dirname(os.path.abspath(__file__))))

from sa.engine.srcmodel import Model, AnalysisError      # noqa: E402
from sa.engine.regmodel import RegModel                  # noqa: E402
from sa.engine import report                             # noqa: E402

RULE_MODULES = {
    'C01': 'c01_paths', 'C02': 'c02_trees', 'C03': 'c03_errors', 'C04': 'c04_grammar',
    'C05': 'c05_purity', 'C06': 'c06_numeric', 'C07': 'c07_compare', 'C08': 'c08_sequences',
    'C09': 'c09_strings', 'C10': 'c10_datatypes', 'C11': 'c11_datetime', 'C12': 'c12_regex', 'C13': 'c13_unicode',
    'C14': 'c14_fnpath', 'C15': 'c15_mapsarrays', 'C16': 'c16_funcitems', 'C17': 'c17_json', 'C18': 'c18_seqtypes',
    'C19': 'c19_global', 'C20': 'c20_schema',
}


class Ctx:
    def __init__(self, tier: str, root: str | None = None) -> None:
        self.tier = tier
        self.model = Model(root)
        self._reg: RegModel | None = None
        self.allow = report.Allow()
        self._cache: dict[str, object] = {}

    @property
    def reg(self) -> RegModel:
        if self._reg is None:
            self._reg = RegModel(self.model)
        return self._reg

    def memo(self, key: str, fn):  # type: ignore[no-untyped-def]
        if key not in self._cache:
            self._cache[key] = fn()
        return self._cache[key]


def isolate_rules() -> None:
    """
    Wrap every rule function (rNN_M in sa/rules/*) so that an AnalysisError raised by one rule
    does not hide the verdicts of the others: the rule yields an empty result, the message is
    kept in report.ANALYSIS_ERRORS and the run still ends with exit 2 unless another rule
    reports a violation (exit 1, the unanalysed rule is mentioned).
    """
    import functools
    import re
    import types
    wrapped: dict[int, object] = {}
    mods = [importlib.import_module(f'sa.rules.{m}') for m in sorted(set(RULE_MODULES.values()))]
    for mod in mods:
        for name, fn in list(vars(mod).items()):
            if not isinstance(fn, types.FunctionType) or \
                    not re.fullmatch(r'r\d\d_\d+', fn.__name__):
                continue
            if id(fn) not in wrapped:
                rule = 'R' + fn.__name__[1:].replace('_', '.')

                def make(fn=fn, rule=rule):   # type: ignore[no-untyped-def]
                    @functools.wraps(fn)
                    def guarded(*a, **k):     # type: ignore[no-untyped-def]
                        try:
                            return fn(*a, **k)
                        except AnalysisError as err:
                            report.ANALYSIS_ERRORS.append((k.get('rule', rule), str(err)))
                            return report.RuleResult(k.get('rule', rule), 'NOT-ANALYSED',
                                                     f'not analysed: {err}')
                    return guarded
                wrapped[id(fn)] = make()
            setattr(mod, name, wrapped[id(fn)])


def main() -> int:
    ap = argparse.ArgumentParser()
    ap.add_argument('property')
    ap.add_argument('--tier', default=os.environ.get('VERIF_TIER') or 'quick',
                    choices=['quick', 'thorough'])
    args = ap.parse_args()
    prop = args.property.upper()
    t0 = time.time()
    if prop not in RULE_MODULES:
        print(f'ANALYSIS-ERROR property={prop} is not claimed (see MANIFEST.json not_applicable)')
        return 2
    try:
        ctx = Ctx(args.tier)
        isolate_rules()
        mod = importlib.import_module(f'sa.rules.{RULE_MODULES[prop]}')
        out = mod.run(ctx)
        for r in out['results']:
            report.apply_allow(r, ctx.allow)
        if args.tier == 'thorough':
            from sa import thorough
            extra = thorough.run(prop, ctx, out)
            out['results'].extend(extra.get('results', []))
            out.setdefault('counts', {}).update(extra.get('counts', {}))
            out['explanation'] += ' ' + extra.get('explanation', '')
        baselines = report.load_json(os.path.join(report.VERIF, 'sa', 'baselines.json'), {})
        return report.finish(
            prop, args.tier, out['results'], out['explanation'], out.get('assumptions', []),
            ctx.model.digests(), t0, baselines.get(prop, {}), out.get('counts', {}),
            out.get('not_decided', ''))
    except AnalysisError as err:
        print(f'ANALYSIS-ERROR property={prop} {err}')
        return 2
    except Exception:
        traceback.print_exc()
        print(f'ANALYSIS-ERROR property={prop} internal error in the checker (traceback above)')
        return 2


if __name__ == '__main__':
    code = main()
    sys.stdout.flush()
    sys.exit(code)
