"""
Thorough tier: everything the quick tier does, plus

* POSITIVE CONTROLS — every catalogued mutant of selftest/mutants.json for the property is
  applied to a scratch copy of the current /repo tree (mkdtemp, removed afterwards) and the
  same rules are run on the copy in a worker process: a mutant that is not reported by the
  rule it targets means the rule passes vacuously on this tree -> ANALYSIS-ERROR (exit 2);
  behaviour-preserving refactorings of the catalogue must stay silent. A stale mutant (its
  anchor text no longer occurs) is reported as skipped, with the count, and fails the run if
  more than a third of the controls of a property are stale.
* TYPED OBLIGATIONS (C18) — the repository's own type checker (mypy, as shipped in /venv) is
  run on the package and must report no return-value / return / no-any-return error inside a
  function that implements a registered XPath function: that ties the bodies to the return
  annotations which R18.2 compares with the declared sequence types.
"""
from __future__ import annotations

import importlib
import json
import os
import shutil
import subprocess
import sys
import tempfile
from concurrent.futures import ProcessPoolExecutor

from .engine.srcmodel import AnalysisError, repo_root
from .engine.report import RuleResult, Finding, VERIF


def _run_mutant(args):
    prop, m, module_name = args
    sys.path.insert(0, VERIF)
    d = tempfile.mkdtemp(prefix='verif-control-')
    try:
        shutil.copytree(os.path.join(repo_root(), 'elementpath'), os.path.join(d, 'elementpath'),
                        ignore=shutil.ignore_patterns('__pycache__'))
        if m.get('patch'):
            r = subprocess.run(['patch', '-p1', '-s', '-f', '-d', d, '-i', m['patch']],
                               capture_output=True, text=True)
            if r.returncode != 0:
                return m['id'], 'stale', ''
        for e in ([] if m.get('patch') else (m.get('edits') or [m])):
            p = os.path.join(d, e['file'])
            s = open(p).read()
            if s.count(e['find']) != e.get('count', 1):
                return m['id'], 'stale', ''
            s = s.replace(e['find'], e['replace'])
            try:
                compile(s, p, 'exec')
            except SyntaxError:
                return m['id'], 'nocompile', ''
            open(p, 'w').write(s)
        from sa.check import Ctx
        from sa.engine import report
        try:
            ctx = Ctx('quick', d)
            mod = importlib.import_module(f'sa.rules.{module_name}')
            out = mod.run(ctx)
            if m.get('tier') == 'thorough':
                out['results'].extend(extra_rules(prop, ctx))
            for r in out['results']:
                report.apply_allow(r, ctx.allow)
        except AnalysisError as err:
            return m['id'], 'analysis-error', str(err)[:200]
        known = report.load_json(os.path.join(VERIF, 'known_findings.json'), {'findings': []})
        kk = {k['key'] for k in known.get('findings', [])}
        hits = [f for r in out['results'] for f in r.findings if f.key not in kk]
        if m.get('preserving'):
            return m['id'], 'silent' if not hits else 'false-alarm', \
                '' if not hits else hits[0].message[:160]
        rule_hits = [f for f in hits if m['rule'] in ('*', f.rule)]
        return m['id'], 'detected' if rule_hits else 'missed', \
            (rule_hits[0].key if rule_hits else '')
    finally:
        shutil.rmtree(d, ignore_errors=True)


def controls(prop: str) -> RuleResult:
    from .check import RULE_MODULES
    muts = [m for m in json.load(open(os.path.join(VERIF, 'selftest', 'mutants.json')))
            if m['property'] == prop]
    res = RuleResult(
        'CONTROLS', 'POSITIVE-CONTROLS',
        'Each catalogued mutant of this property (selftest/mutants.json: one instance broken — '
        'release deleted, check dropped, literal changed, writer added — while the module still '
        'compiles) is applied to a scratch copy of the current tree and must be reported by the '
        'rule it targets; catalogued behaviour-preserving refactorings must stay silent. This '
        'shows on every thorough run that the rules are not passing vacuously.')
    import glob
    for sd in sorted(glob.glob(os.path.join(VERIF, 'seeded', f'{prop}-m*'))):
        meta = json.load(open(os.path.join(sd, 'meta.json')))
        if meta.get('detected_by_own_property_check'):
            muts.append({'id': 'seed-' + os.path.basename(sd), 'property': prop, 'rule': '*',
                         'patch': os.path.join(sd, 'patch.diff')})
        else:
            res.notes.append(f'seed {os.path.basename(sd)}: independent breakage NOT decided by '
                             f'this check (value-level; see DESIGN.md, seeded changes)')
    if not muts:
        res.notes.append('no catalogued mutants for this property')
        return res
    with ProcessPoolExecutor(max_workers=min(16, len(muts))) as ex:
        out = list(ex.map(_run_mutant, [(prop, m, RULE_MODULES[prop]) for m in muts]))
    stale = 0
    for mid, status, info in out:
        res.instances.append(f'{mid}: {status} {info}')
        res.samples.append({'control': mid, 'outcome': status, 'finding': info})
        if status in ('detected', 'silent'):
            res.ok()
        elif status in ('stale', 'nocompile'):
            stale += 1
            res.notes.append(f'{mid}: {status} (catalogue entry no longer applies to this tree)')
        else:
            raise AnalysisError(f'positive control {mid} gave {status!r} {info}: the rule it '
                                f'targets passes vacuously (or alarms on a preserving edit)')
    if stale * 3 > len(muts):
        raise AnalysisError(f'{stale}/{len(muts)} positive controls of {prop} are stale')
    return res


def typed_c18(ctx, quick_out) -> RuleResult:
    res = RuleResult(
        'R18.5', 'BODY-MATCHES-ANNOTATION',
        'mypy --strict (the repository\'s own configuration) reports no error of the codes '
        'return-value, return, no-any-return inside a function that implements a registered '
        'XPath function or constructor (the functions R18.2 reads the annotations of).')
    reg = ctx.reg
    impl = {}
    for rec in reg.all_records():
        for slot, ref in rec.methods.items():
            if slot in ('evaluate', 'select', 'cast') and ref.origin == 'decorator':
                impl[(ref.func.module.relpath, ref.func.node.lineno,
                      ref.func.node.end_lineno)] = ref.func
    root = ctx.model.root
    try:
        p = subprocess.run([sys.executable, '-m', 'mypy', '--strict', '--no-incremental',
                            '--cache-dir', os.devnull, '--no-error-summary',
                            '--show-error-codes', 'elementpath'],
                           cwd=root, capture_output=True, text=True, timeout=600)
    except (OSError, subprocess.TimeoutExpired) as err:
        raise AnalysisError(f'mypy could not be run: {err}')
    n = 0
    for ln in p.stdout.splitlines():
        parts = ln.split(':', 3)
        if len(parts) < 4 or ' error:' not in ln:
            continue
        path, line = parts[0], parts[1]
        if not line.isdigit():
            continue
        code = ln.rsplit('[', 1)[-1].rstrip(']') if ln.endswith(']') else ''
        if code not in ('return-value', 'return', 'no-any-return'):
            continue
        for (rel, a, b), f in impl.items():
            if rel == path and a <= int(line) <= (b or a):
                n += 1
                res.fail(Finding('R18.5', rel, f.qualname, f'mypy {code}',
                                 f'mypy: {parts[3].strip()[:160]} — the body of {f.name} can '
                                 f'return a value outside its annotation, so R18.2\'s inclusion '
                                 f'argument does not cover it', int(line)))
    res.instances.append(f'mypy --strict: {len(p.stdout.splitlines())} diagnostics, {n} return '
                         f'errors in {len(impl)} implementing functions')
    if n == 0:
        res.ok(len(impl))
    return res


INTERPROC = {'C05': 'R05.8', 'C15': 'R15.5', 'C16': 'R16.7'}


def extra_rules(prop: str, ctx) -> list:
    """rules that only the thorough tier runs (no controls here)"""
    out = []
    if prop in INTERPROC:
        from .rules.interproc import mutation_through_callee
        out.append(mutation_through_callee(ctx, INTERPROC[prop], {}))
    return out


def run(prop: str, ctx, quick_out) -> dict:
    results = [controls(prop)] + extra_rules(prop, ctx)
    counts = {'positive_controls': len(results[0].instances)}
    expl = (f'Thorough tier: {len(results[0].instances)} catalogued mutants/refactorings of this '
            f'property were re-applied to a scratch copy of the current tree and behaved as '
            f'expected (non-vacuity of the rules on this tree).')
    if prop == 'C18':
        results.append(typed_c18(ctx, quick_out))
        expl += ' mypy --strict ties the implementing bodies to their return annotations.'
    if prop in INTERPROC:
        expl += (' Interprocedural mutation summaries (fixpoint over the resolved call graph) '
                 'extend the operand-immutability rules through helper calls.')
    return {'results': results, 'counts': counts, 'explanation': expl}
