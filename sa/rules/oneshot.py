"""
Shared rule ONE-SHOT-ITERATOR-IN-LOOP.

A name bound, outside a loop, to a one-shot iterator (map(), filter(), zip(), a generator
expression, reversed(), or a call of a generator method select*/iter_*; an explicit iter()
or a name advanced with next() is a deliberate cursor and is not concerned) and
consumed inside that loop (as the iterable of a for/comprehension/yield from, or as the
argument of list()/tuple()/set()/sorted()/any()/all()/sum()/next()) is exhausted by the first
iteration of the loop: every later iteration sees an empty sequence.
"""
from __future__ import annotations

import ast

from ..engine.srcmodel import FuncInfo, dotted, stmt_text, walk_local
from ..engine.report import RuleResult
from .common import finding

ONE_SHOT_CALLS = {'map', 'filter', 'zip', 'reversed', 'enumerate', 'chain', 'zip_longest',
                  'islice', 'product'}
CONSUMERS = {'list', 'tuple', 'set', 'sorted', 'any', 'all', 'sum', 'xlist', 'max', 'min',
             'frozenset', 'dict', 'len'}


def is_one_shot(e: ast.expr) -> bool:
    if isinstance(e, ast.GeneratorExp):
        return True
    if isinstance(e, ast.Call):
        d = dotted(e.func).split('.')[-1]
        if d in ONE_SHOT_CALLS:
            return True
        if isinstance(e.func, ast.Attribute) and (
                d.startswith('select') or d.startswith('iter_') or d in ('atomization',)):
            return True
    return False


def one_shot_rule(ctx, rule_id: str, in_scope, counts: dict[str, int]) -> RuleResult:
    model = ctx.model
    res = RuleResult(
        rule_id, 'ONE-SHOT-ITERATOR-IN-LOOP',
        'No name bound outside a loop to a one-shot iterator (map/filter/zip/iter/reversed/'
        'enumerate/generator expression/a select*/iter_* generator call) is consumed inside that '
        'loop without being re-bound there: the first iteration exhausts it and every later '
        'iteration silently sees an empty sequence ((m1, m2)?("a") looks the key up in m1 only).')
    n = 0
    for f in sorted(model.all_functions(), key=lambda q: q.key):
        if not in_scope(f):
            continue
        binds: dict[str, list[ast.Assign]] = {}
        for st in walk_local(f.node):
            if isinstance(st, (ast.Assign, ast.AnnAssign)) and st.value is not None:
                tg = st.targets[0] if isinstance(st, ast.Assign) else st.target
                if isinstance(tg, ast.Name) and is_one_shot(st.value):
                    binds.setdefault(tg.id, []).append(st)        # type: ignore[arg-type]
        # a name advanced with next() anywhere in the function is a deliberate cursor
        cursors = {a.id for c in walk_local(f.node) if isinstance(c, ast.Call)
                   and dotted(c.func) == 'next' for a in c.args if isinstance(a, ast.Name)}
        binds = {k: v for k, v in binds.items() if k not in cursors}
        if not binds:
            continue
        loops = [x for x in walk_local(f.node) if isinstance(x, (ast.For, ast.While))]
        for name, defs in binds.items():
            for loop in loops:
                body_nodes = [y for b in loop.body for y in ast.walk(b)]
                # every binding of the name in the function
                all_defs = [st for st in walk_local(f.node)
                            if isinstance(st, (ast.Assign, ast.AnnAssign, ast.AugAssign))
                            and any(isinstance(t, ast.Name) and t.id == name for t in ast.walk(
                                st.targets[0] if isinstance(st, ast.Assign) else st.target))]
                if any(any(d is y for y in body_nodes) for d in all_defs):
                    continue        # re-bound inside the loop
                outside = [d for d in defs if not any(d is y for y in body_nodes)
                           and d.lineno < loop.lineno]
                if not outside:
                    continue
                # the loop itself iterating the name is the normal single consumption
                uses = []
                for y in body_nodes:
                    if isinstance(y, ast.For) and isinstance(y.iter, ast.Name) and y.iter.id == name:
                        uses.append(y)
                    elif isinstance(y, ast.comprehension) and isinstance(y.iter, ast.Name) \
                            and y.iter.id == name:
                        uses.append(y.iter)
                    elif isinstance(y, ast.YieldFrom) and isinstance(y.value, ast.Name) \
                            and y.value.id == name:
                        uses.append(y)
                    elif isinstance(y, ast.Call) and dotted(y.func).split('.')[-1] in CONSUMERS \
                            and any(isinstance(a, ast.Name) and a.id == name for a in y.args):
                        uses.append(y)
                if not uses:
                    continue
                # a loop that always leaves after the first consumption is fine
                n += 1
                u = uses[0]
                res.instances.append(f'{f.key}: `{name}` = {stmt_text(outside[0].value)[:40]} '
                                     f'consumed inside the loop at L{loop.lineno}')
                res.fail(finding(rule_id, f, u if hasattr(u, 'lineno') else loop,
                                 f'{name} consumed in loop',
                                 f'`{name}` is bound to the one-shot iterator '
                                 f'`{stmt_text(outside[0].value)[:50]}` before the loop at line '
                                 f'{loop.lineno} and consumed inside it: from the second '
                                 f'iteration on it is empty'))
        res.instances.append(f'{f.key}: one-shot bindings {sorted(binds)} examined')
        res.ok()
    counts[f'{rule_id}.one_shot_sites'] = n
    return res
