"""
C01 — path expressions: focus restoration and axis table.

R01.1 FOCUS-FRAME  CFG path rule: save-before-write and restore-before-normal-exit of the
                   focus attributes in the context iterators and select_with_focus
R01.2 AXIS-TABLE   registration model + iterator wiring + numbering of reverse axes vs
                   sa/specs/axes.json
"""
from __future__ import annotations

import ast
import json
import os
from typing import Optional

from ..engine.srcmodel import AnalysisError, FuncInfo, dotted, stmt_text, walk_local
from ..engine.cfg import CFG, Node, node_writes
from ..engine.regmodel import RegModel, MethodRef
from ..engine.report import RuleResult, Finding
from .common import finding, enclosing_map

SPEC = os.path.join(os.path.dirname(os.path.dirname(os.path.abspath(__file__))),
                    'specs', 'axes.json')
FOCUS = ('item', 'axis', 'position', 'size')


def focus_frame(f: FuncInfo, recv: str, res: RuleResult) -> int:
    """Apply R01.1 to one function; returns number of focus attributes written."""
    cfg = CFG(f.node)
    written = 0
    for attr in FOCUS:
        target = f'{recv}.{attr}'
        # save nodes: target read into a local name
        saves: dict[int, set[str]] = {}
        saved_vars: set[str] = set()
        for n in cfg.nodes:
            if n.kind != 'stmt' or not isinstance(n.ast, ast.Assign):
                continue
            a = n.ast
            reads = any(isinstance(x, ast.Attribute) and dotted(x) == target
                        and isinstance(x.ctx, ast.Load) for x in ast.walk(a.value))
            if not reads:
                continue
            names = set()
            for t in a.targets:
                for x in ast.walk(t):
                    if isinstance(x, ast.Name):
                        names.add(x.id)
            if names:
                saves[n.id] = names
                saved_vars |= names

        def is_restore(n: Node) -> bool:
            if n.id in saves:
                return False
            for tgt, val in node_writes(n):
                if tgt != target or n.kind != 'stmt' or not isinstance(n.ast, ast.Assign):
                    continue
                if any(isinstance(x, ast.Name) and x.id in saved_vars
                       for x in ast.walk(n.ast.value)):
                    return True
            return False

        writes = [n for n in cfg.nodes
                  if any(tgt == target for tgt, _ in node_writes(n)) and not is_restore(n)]
        if not writes:
            continue
        written += 1
        res.instances.append(f'{f.key}: {target} written at '
                             f'{[w.lineno for w in writes]}, saved in {sorted(saved_vars)}')
        for w in writes:
            # (i) save-before-write
            if w.id in saves or cfg.dominated_by(w, lambda n: n.id in saves):
                res.ok()
            else:
                res.fail(finding('R01.1', f, w.ast, f'{target} unsaved',
                                 f'{target} is overwritten at `{w.text()[:60]}` on a path on '
                                 f'which its previous value was not saved'))
            # (ii) restore-before-exit
            p = cfg.path_avoiding([w], lambda n: n is cfg.exit, is_restore)
            if p is None:
                res.ok()
            else:
                res.fail(finding('R01.1', f, w.ast, f'{target} unrestored',
                                 f'after `{w.text()[:60]}` the generator can finish normally '
                                 f'without restoring {target}: the caller continues with a '
                                 f'foreign focus', CFG.fmt_path(p)))
            res.samples.append({'rule': 'R01.1', 'function': f.key, 'attribute': target,
                                'write': w.text()[:70]})
    # tuple save / tuple restore must list the attributes in the same order
    saves_t: dict[str, list[str]] = {}
    for n in cfg.nodes:
        if n.kind == 'stmt' and isinstance(n.ast, ast.Assign) and len(n.ast.targets) == 1 \
                and isinstance(n.ast.targets[0], ast.Name) \
                and isinstance(n.ast.value, ast.Tuple):
            elts = [dotted(e) for e in n.ast.value.elts]
            if elts and all(e.startswith(recv + '.') for e in elts):
                saves_t[n.ast.targets[0].id] = elts
    for n in cfg.nodes:
        if n.kind == 'stmt' and isinstance(n.ast, ast.Assign) and len(n.ast.targets) == 1 \
                and isinstance(n.ast.targets[0], ast.Tuple) \
                and isinstance(n.ast.value, ast.Name) and n.ast.value.id in saves_t:
            tg = [dotted(e) for e in n.ast.targets[0].elts]
            if tg == saves_t[n.ast.value.id]:
                res.ok()
            else:
                res.fail(finding('R01.1', f, n.ast, f'restore order of {n.ast.value.id}',
                                 f'`{stmt_text(n.ast)[:70]}` unpacks the saved focus in a '
                                 f'different order than it was saved '
                                 f'({", ".join(saves_t[n.ast.value.id])}): attributes are '
                                 f'restored with each other\'s values'))
    return written


def r01_1(ctx, counts: dict[str, int]) -> RuleResult:
    model = ctx.model
    res = RuleResult(
        'R01.1', 'FOCUS-FRAME',
        'Instances: generator methods of XPathContext and its subclasses that assign a focus '
        'attribute (self.item/axis/position/size), and every select_with_focus method '
        '(assigning through its context parameter). For each focus attribute A written in the '
        'function: (i) every write of A is dominated by a statement that reads A into a local '
        '(save), or is itself such a statement (swap idiom); (ii) every path from a write of A '
        'to the normal exit passes an assignment of A from a saved local (restore). Exits by '
        'exception or GeneratorExit are out of scope.')
    xc = model.find_class('XPathContext')
    n_iter = n_swf = 0
    for cls in model.subclasses_of(xc):
        for name, m in cls.methods.items():
            if not m.is_generator():
                continue
            if focus_frame(m, 'self', res):
                n_iter += 1
    tok = model.find_class('Token')
    for cls in model.subclasses_of(tok):
        m = cls.methods.get('select_with_focus')
        if m is None:
            continue
        params = m.params()
        if len(params) < 2:
            raise AnalysisError(f'{m.key}: unexpected signature')
        if not focus_frame(m, params[1], res):
            res.fail(finding('R01.1', m, m.node, 'no focus written',
                             'select_with_focus no longer sets an inner focus'))
        n_swf += 1
    # select_with_focus functions bound to a token class through the registration DSL
    bound = set()
    for rec in ctx.reg.all_records():
        ref = rec.method('select_with_focus')
        if ref is not None and ref.func is not None and ref.origin != 'class':
            bound.add(ref.func)
    for m in sorted(bound, key=lambda q: q.key):
        params = m.params()
        if len(params) < 2:
            raise AnalysisError(f'{m.key}: unexpected signature')
        if not focus_frame(m, params[1], res):
            res.fail(finding('R01.1', m, m.node, 'no focus written',
                             'select_with_focus no longer sets an inner focus'))
        n_swf += 1
    counts['context_iterators'] = n_iter
    counts['select_with_focus'] = n_swf
    return res


def _iter_calls(f: FuncInfo) -> list[ast.Call]:
    return [n for n in walk_local(f.node) if isinstance(n, ast.Call)
            and isinstance(n.func, ast.Attribute) and n.func.attr.startswith('iter_')
            and dotted(n.func.value) == 'context']


def flat_body(stmts: list[ast.stmt]) -> list[ast.stmt]:
    """The statement list with every `try: .. finally: ..` (no handlers) replaced by its body
    followed by its finally block: the focus functions restore the focus in a finally."""
    out: list[ast.stmt] = []
    for st in stmts:
        if isinstance(st, ast.Try) and not st.handlers and st.finalbody:
            out += flat_body(st.body) + flat_body(st.orelse) + flat_body(st.finalbody)
        else:
            out.append(st)
    return out


def numbering(f: FuncInfo, stmts: list[ast.stmt], recv: str) -> tuple[str, str, Optional[ast.AST]]:
    """
    Classify how a statement list numbers the focus: returns (direction, size, node) with
    direction in asc1 / desc / unknown:<why> / wrong:<why>, size in ok / missing / unknown.
    """
    pos, size, item = f'{recv}.position', f'{recv}.size', f'{recv}.item'
    size_src: Optional[str] = None
    pos_init: Optional[str] = None
    stmts = flat_body(stmts)
    loops = [s for s in stmts if isinstance(s, ast.For)]
    if len(loops) != 1:
        return f'unknown:{len(loops)} loops', 'unknown', None
    loop = loops[0]
    for s in stmts:
        if s is loop:
            break
        if isinstance(s, ast.Assign):
            tg = [dotted(t) for t in s.targets]
            if size in tg:
                size_src = stmt_text(s.value)
            if pos in tg:
                pos_init = stmt_text(s.value)
    iter_txt = stmt_text(loop.iter)
    targets = [dotted(t) for t in (loop.target.elts if isinstance(loop.target, ast.Tuple)
                                   else [loop.target])]
    seq: Optional[str] = None
    direction = 'unknown:loop shape'
    if isinstance(loop.iter, ast.Call) and dotted(loop.iter.func) == 'enumerate' \
            and targets == [pos, item]:
        seq = stmt_text(loop.iter.args[0])
        start = None
        if len(loop.iter.args) > 1:
            start = loop.iter.args[1]
        for k in loop.iter.keywords:
            if k.arg == 'start':
                start = k.value
        if isinstance(start, ast.Constant) and start.value == 1:
            direction = 'asc1'
        else:
            direction = f'wrong:enumerate starts at {stmt_text(start) if start else 0}'
    elif isinstance(loop.iter, ast.Call) and dotted(loop.iter.func) == 'zip' \
            and targets == [pos, item] and len(loop.iter.args) == 2:
        r, seq_e = loop.iter.args
        seq = stmt_text(seq_e)
        rt = stmt_text(r)
        if rt == f'range(len({seq}), 0, -1)':
            direction = 'desc'
        elif rt in (f'range(1, len({seq}) + 1)',):
            direction = 'asc1'
        else:
            direction = f'unknown:zip with {rt}'
    elif targets == [item]:
        seq = iter_txt
        # countdown / countup after the yield
        last = loop.body[-1] if loop.body else None
        yield_first = bool(loop.body) and isinstance(loop.body[0], ast.Expr) and \
            isinstance(loop.body[0].value, ast.Yield)
        if isinstance(last, ast.AugAssign) and dotted(last.target) == pos and yield_first \
                and isinstance(last.value, ast.Constant) and last.value.value == 1:
            if isinstance(last.op, ast.Sub):
                direction = 'desc' if pos_init == f'len({seq})' else \
                    f'wrong:countdown starts at {pos_init}'
            elif isinstance(last.op, ast.Add):
                direction = 'asc1' if pos_init == '1' else f'wrong:countup starts at {pos_init}'
        else:
            direction = 'wrong:position is not advanced in the loop'
    if seq is None:
        return direction, 'unknown', loop
    if size_src is None:
        return direction, 'missing', loop
    return direction, ('ok' if size_src == f'len({seq})' else f'wrong:{size_src}'), loop


def r01_2(ctx, counts: dict[str, int]) -> RuleResult:
    model = ctx.model
    reg: RegModel = ctx.reg
    spec = json.load(open(SPEC))
    res = RuleResult(
        'R01.2', 'AXIS-TABLE',
        '(a) the 13 axis names are registered as XPathAxis tokens in 1.0 and survive in '
        '2.0/3.0/3.1 (attribute as the multi-role kind-test/axis token); (b) reverse_axis is '
        'True exactly for ancestor, ancestor-or-self, parent, preceding, preceding-sibling; '
        '(c) each axis select iterates the context iterator the table prescribes, passing '
        'self.symbol where one iterator serves two axes, and each iterator sets a non-None '
        'context.axis (exactly "attribute" for iter_attributes); (d) XPathAxis.'
        'select_with_focus numbers the reverse branch n..1 and the forward branch 1..n with '
        'size=n over the materialised list, the base select_with_focus 1..n, size=n.')
    axis_cls = model.find_class('XPathAxis')
    axes = spec['axes']
    n_axes = 0
    for parser in reg.PARSERS:
        table = reg.tables[parser]
        ver = reg.VERSIONS[parser]
        for name, row in axes.items():
            rec = table.get(name)
            if rec is None:
                res.fail(Finding('R01.2', 'elementpath', '', f'{ver}:{name} missing',
                                 f'XPath {ver}: axis {name!r} is not registered'))
                continue
            n_axes += 1
            is_axis = rec.is_subclass_of(axis_cls)
            multi = 'axis' in rec.label_values
            res.instances.append(f'{ver}:{name} axis_class={is_axis} multirole={multi} '
                                 f'reverse={rec.get(model, "reverse_axis")}')
            if not (is_axis or multi):
                res.fail(Finding('R01.2', rec.decl_sites[0][0], '', f'{ver}:{name} not an axis',
                                 f'XPath {ver}: {name!r} is registered but is neither an '
                                 f'XPathAxis nor a multi-role axis token', rec.decl_sites[0][1]))
                continue
            # (b)
            rev = rec.get(model, 'reverse_axis') if is_axis else False
            if bool(rev) == row['reverse']:
                res.ok()
            else:
                sel0 = rec.method('select')
                res.fail(finding('R01.2', sel0.func if sel0 else None, None,
                                 f'{name} reverse_axis',
                                 f'axis {name!r}: reverse_axis={rev} but the specification says '
                                 f'{"reverse" if row["reverse"] else "forward"}: positional '
                                 f'predicates count from the wrong end',
                                 module=model.modules[rec.module]) if sel0 else
                         Finding('R01.2', rec.decl_sites[0][0], '', f'{name} reverse_axis',
                                 f'axis {name!r}: reverse_axis={rev}', rec.decl_sites[0][1]))
            # (c)
            sel = rec.method('select')
            if sel is None or sel.func.qualname.endswith('Token.select'):
                res.fail(Finding('R01.2', rec.decl_sites[0][0], '', f'{name} select',
                                 f'axis {name!r} has no select implementation',
                                 rec.decl_sites[0][1]))
                continue
            calls = _iter_calls(sel.func)
            if row['iterator'] is None:
                uses_ns = any(isinstance(n, ast.Attribute) and n.attr == 'namespace_nodes'
                              for n in walk_local(sel.func.node))
                if uses_ns:
                    res.ok()
                else:
                    res.fail(finding('R01.2', sel.func, None, f'{name} iterator',
                                     f'namespace axis does not iterate namespace_nodes'))
                continue
            names = {c.func.attr for c in calls}              # type: ignore[attr-defined]
            if multi and not is_axis:
                # multi-role attribute token: the axis branch must use iter_attributes
                ok = row['iterator'] in names
            else:
                ok = names == {row['iterator']}
            if not ok:
                res.fail(finding('R01.2', sel.func, calls[0] if calls else None,
                                 f'{name} iterator',
                                 f'axis {name!r} must be driven by context.{row["iterator"]}() '
                                 f'but its select iterates {sorted(names)}'))
            else:
                res.ok()
            if row['passes_axis']:
                good = all(any(k.arg == 'axis' and stmt_text(k.value) == 'self.symbol'
                               for k in c.keywords) or
                           (c.args and stmt_text(c.args[0]) == 'self.symbol')
                           for c in calls if c.func.attr == row['iterator'])  # type: ignore
                if good:
                    res.ok()
                else:
                    res.fail(finding('R01.2', sel.func, calls[0] if calls else None,
                                     f'{name} passes axis',
                                     f'axis {name!r} shares {row["iterator"]} with a sibling '
                                     f'axis and must pass axis=self.symbol'))
    counts['axis_rows'] = n_axes
    # iterators set the axis
    xc = model.find_class('XPathContext')
    for it_name, expect in spec['axis_value_set_by_iterator'].items():
        m = xc.methods.get(it_name)
        if m is None:
            raise AnalysisError(f'XPathContext.{it_name} vanished')
        vals = []
        for n in walk_local(m.node):
            if isinstance(n, ast.Assign):
                for t in n.targets:
                    elts = t.elts if isinstance(t, ast.Tuple) else [t]
                    vs = n.value.elts if isinstance(t, ast.Tuple) and \
                        isinstance(n.value, ast.Tuple) and len(n.value.elts) == len(elts) \
                        else [n.value] * len(elts)
                    for e, v in zip(elts, vs):
                        if dotted(e) == 'self.axis':
                            vals.append(v)
        news = [v for v in vals if not (isinstance(v, ast.Name) and v.id in ('status', '_status'))
                and not isinstance(v, ast.Subscript) and stmt_text(v) not in ('status', '_status')]
        texts = {stmt_text(v) for v in news}
        res.instances.append(f'XPathContext.{it_name} sets axis to {sorted(texts)}')
        if expect.startswith('param-or:'):
            want = {f"axis or '{expect.split(':', 1)[1]}'"}
            good = want <= texts
        elif expect == 'param':
            good = 'axis' in texts
        else:
            good = repr(expect) in texts
        if good:
            res.ok()
        else:
            res.fail(finding('R01.2', m, m.node, 'axis value',
                             f'{it_name} must set context.axis to '
                             f'{expect!r} (name tests use it to pick the principal node kind) '
                             f'but assigns {sorted(texts)}'))
    # (d) numbering
    swf_axis = axis_cls.methods.get('select_with_focus')
    base = model.find_class('XPathToken').methods.get('select_with_focus')
    if swf_axis is None or base is None:
        raise AnalysisError('select_with_focus vanished')
    recv = swf_axis.params()[1]
    branch = [n for n in flat_body(swf_axis.node.body) if isinstance(n, ast.If)
              and stmt_text(n.test) == 'self.reverse_axis']
    if len(branch) != 1:
        raise AnalysisError('XPathAxis.select_with_focus: the reverse_axis branch was not found')
    # assignments hoisted in front of the branch (e.g. a common context.size = len(results))
    _flat = flat_body(swf_axis.node.body)
    _pre = [st for st in _flat[:_flat.index(branch[0])] if isinstance(st, ast.Assign)]
    for label, stmts, want in (('reverse', _pre + branch[0].body, 'desc'),
                               ('forward', _pre + branch[0].orelse, 'asc1')):
        d, s, node = numbering(swf_axis, stmts, recv)
        res.instances.append(f'XPathAxis.select_with_focus[{label}]: numbering={d} size={s}')
        res.samples.append({'rule': 'R01.2', 'branch': label, 'numbering': d, 'size': s})
        if d.startswith('unknown'):
            raise AnalysisError(f'XPathAxis.select_with_focus[{label}]: numbering idiom not '
                                f'recognised ({d})')
        if d == want:
            res.ok()
        else:
            res.fail(finding('R01.2', swf_axis, node, f'{label} numbering',
                             f'{label} axes must be numbered '
                             f'{"n..1 (reverse document order)" if want == "desc" else "1..n"} '
                             f'but the branch numbers {d}'))
        if s == 'ok':
            res.ok()
        else:
            res.fail(finding('R01.2', swf_axis, node, f'{label} size',
                             f'context.size in the {label} branch is {s}, not the length of the '
                             f'materialised result list: last() is wrong'))
    d, s, node = numbering(base, base.node.body, base.params()[1])
    res.instances.append(f'XPathToken.select_with_focus: numbering={d} size={s}')
    if d.startswith('unknown'):
        raise AnalysisError(f'XPathToken.select_with_focus: numbering idiom not recognised ({d})')
    if d == 'asc1':
        res.ok()
    else:
        res.fail(finding('R01.2', base, node, 'base numbering',
                         f'the inner focus must be numbered 1..n but is {d}'))
    if s == 'ok':
        res.ok()
    else:
        res.fail(finding('R01.2', base, node, 'base size',
                         f'context.size is {s}, not the length of the materialised list'))
    # materialisation: results list built before the focus loop
    for m in (swf_axis, base):
        lists = [n for n in flat_body(m.node.body) if isinstance(n, ast.Assign)
                 and isinstance(n.value, (ast.ListComp, ast.Call))
                 and 'self.select' in stmt_text(n.value)
                 and (isinstance(n.value, ast.ListComp)
                      or dotted(n.value.func) in ('list', 'xlist'))]
        if lists:
            res.ok()
        else:
            res.fail(finding('R01.2', m, m.node, 'materialise',
                             'select_with_focus no longer materialises the operand before '
                             'numbering it: last() cannot be known'))
    return res


def r01_3(ctx, counts: dict[str, int]) -> RuleResult:
    """Each node once: the identity set of the path operators."""
    from ..engine.dataflow import branch_facts
    model = ctx.model
    reg: RegModel = ctx.reg
    res = RuleResult(
        'R01.3', 'DEDUP-SCOPE',
        'In the select functions bound to "/" and "//": (a) every local set used to remember '
        'the nodes already returned (a name tested with `result in <set>` and extended with '
        '`<set>.add(result)`) is created outside every loop, so that it spans all context items '
        'of the left operand; (b) every `yield result` that can yield a node is dominated by '
        'the failed membership test `result in <set>`; (c) the result is added to the set on '
        'the same path.')
    funcs = {}
    for sym in ('/', '//'):
        rec = reg.tables['XPath1Parser'].get(sym)
        if rec is None or rec.method('select') is None:
            raise AnalysisError(f'select of {sym!r} not found')
        funcs[rec.method('select').func] = sym           # type: ignore[union-attr]
    n = 0
    for f, sym in funcs.items():
        sets = set()
        for x in walk_local(f.node):
            if isinstance(x, ast.Call) and isinstance(x.func, ast.Attribute) \
                    and x.func.attr == 'add' and isinstance(x.func.value, ast.Name):
                sets.add(x.func.value.id)
            # one level of helper: h(items, node) where h adds its 2nd parameter to its 1st
            if isinstance(x, ast.Call) and isinstance(x.func, ast.Name) and len(x.args) >= 2 \
                    and isinstance(x.args[0], ast.Name):
                h = f.module.toplevel_function(x.func.id)
                if h is not None and len(h.params()) >= 2 and any(
                        isinstance(c, ast.Call) and isinstance(c.func, ast.Attribute)
                        and c.func.attr == 'add' and dotted(c.func.value) == h.params()[0]
                        for c in walk_local(h.node)):
                    sets.add(x.args[0].id)
        if not sets:
            res.fail(finding('R01.3', f, f.node, 'no identity set',
                             f'select of {sym!r} keeps no set of already returned nodes: nodes '
                             f'reached from two context items are returned twice'))
            continue
        # (a) creation sites
        def creations(body: list, in_loop: bool, out: list) -> None:
            for st in body:
                if isinstance(st, (ast.Assign, ast.AnnAssign)):
                    tg = st.targets[0] if isinstance(st, ast.Assign) else st.target
                    if isinstance(tg, ast.Name) and tg.id in sets and st.value is not None:
                        out.append((st, in_loop))
                loop = isinstance(st, (ast.For, ast.While))
                for fld in ('body', 'orelse', 'finalbody'):
                    sub = getattr(st, fld, None)
                    if isinstance(sub, list) and sub and isinstance(sub[0], ast.stmt):
                        creations(sub, in_loop or (loop and fld == 'body'), out)
                if isinstance(st, ast.Try):
                    for h in st.handlers:
                        creations(h.body, in_loop, out)
        cr: list = []
        creations(f.node.body, False, cr)
        for st, in_loop in cr:
            n += 1
            res.instances.append(f'{f.key}: identity set created at L{st.lineno} '
                                 f'in_loop={in_loop}')
            if in_loop:
                res.fail(finding('R01.3', f, st, 'identity set inside loop',
                                 f'select of {sym!r}: the set of already returned nodes is '
                                 f're-created inside the loop over the context items, so a '
                                 f'node reachable from two of them (nested same-name elements, '
                                 f'reverse axes) is returned more than once'))
            else:
                res.ok()
        # (b) yields dominated by the membership test
        cfg = CFG(f.node)
        facts = branch_facts(cfg)
        for nd in cfg.nodes:
            if nd.kind != 'stmt' or not isinstance(nd.ast, ast.Expr) \
                    or not isinstance(nd.ast.value, ast.Yield):
                continue
            v = nd.ast.value.value
            if not isinstance(v, ast.Name):
                continue
            fs = facts[nd.id]
            name = v.id
            if f'-isinstance({name}, XPathNode)' in fs:
                continue                    # atomic values are not de-duplicated
            n += 1
            tested = any(fact == f'-{name} in {s_}' for fact in fs for s_ in sets)
            res.instances.append(f'{f.key}: yield {name} at L{nd.lineno} after membership '
                                 f'test={tested}')
            if tested:
                res.ok()
            else:
                res.fail(finding('R01.3', f, nd.ast, f'yield {name} unchecked',
                                 f'select of {sym!r} yields `{name}` on a path on which it was '
                                 f'not tested against the set of already returned nodes'))
    counts['dedup_obligations'] = n
    return res

CONTEXT_ITERATORS = ('select_with_focus', 'iter_descendants', 'iter_children_or_self',
                     'iter_self', 'iter_parent', 'iter_ancestors', 'iter_siblings',
                     'iter_preceding', 'iter_followings', 'iter_attributes')


def r01_4(ctx, counts: dict[str, int]) -> RuleResult:
    """Document order of the merged results of a step."""
    from ..engine.dataflow import branch_facts
    from .common import enclosing_map
    reg: RegModel = ctx.reg
    res = RuleResult(
        'R01.4', 'STEP-MERGE-ORDER',
        'E1/E2 evaluates E2 once per node of E1 and returns the union of the results in document '
        'order. The results of one evaluation are in document order, their concatenation is '
        'not (in //*/* the children of an element come after the children of its parent, '
        'although they precede its following siblings). In the select functions bound to "/" '
        'and "//": a value yielded inside a loop over the context nodes of the left operand '
        '(a `for` over select_with_focus(…) or a context.iter_*() iterator) is established to '
        'be atomic (branch fact `not isinstance(x, XPathNode)`); node results leave the '
        'function only through `sorted(…, key=node_position)` after the loop. A fast path that '
        'yields nodes in step order needs an order-preservation argument for the step and is '
        'listed in sa/allow.json.')
    funcs: dict[FuncInfo, set[str]] = {}
    for rec in reg.all_records():
        if rec.symbol in ('/', '//'):
            ref = rec.method('select')
            if ref is not None and ref.func is not None and ref.origin != 'class':
                funcs.setdefault(ref.func, set()).add(rec.symbol)
    if len(funcs) < 2:
        raise AnalysisError(f'select functions of "/" and "//" located: {len(funcs)} < 2')
    n_loops = n_yields = 0
    for f, syms in sorted(funcs.items(), key=lambda kv: kv[0].key):
        cfg = CFG(f.node)
        facts = branch_facts(cfg)
        emap = enclosing_map(f.node)

        def context_loop(st: ast.AST) -> bool:
            return isinstance(st, ast.For) and any(
                isinstance(c, ast.Call) and isinstance(c.func, ast.Attribute)
                and c.func.attr in CONTEXT_ITERATORS for c in ast.walk(st.iter))
        loops = [st for st in ast.walk(f.node) if context_loop(st)]
        n_loops += len(loops)
        sorted_exits = 0
        for nd in cfg.nodes:
            if nd.kind != 'stmt' or not isinstance(nd.ast, ast.Expr) \
                    or not isinstance(nd.ast.value, (ast.Yield, ast.YieldFrom)):
                continue
            y = nd.ast.value
            v = y.value
            inside = [enc for enc in emap[id(nd.ast)] if context_loop(enc)]
            if not inside:
                if isinstance(y, ast.YieldFrom) and v is not None and any(
                        isinstance(c, ast.Call) and dotted(c.func) == 'sorted' and any(
                            k.arg == 'key' and 'position' in stmt_text(k.value)
                            for k in c.keywords) for c in ast.walk(v)):
                    sorted_exits += 1
                continue
            n_yields += 1
            atomic = isinstance(y, ast.Yield) and isinstance(v, ast.Name) and \
                f'-isinstance({v.id}, XPathNode)' in facts[nd.id]
            res.instances.append(f'{f.key} [{"/".join(sorted(syms))}]: `{stmt_text(nd.ast)}` '
                                 f'inside the loop over the context nodes, atomic={atomic}')
            if atomic:
                res.ok()
            else:
                res.fail(finding('R01.4', f, nd.ast, f'{stmt_text(nd.ast)[:40]} in step order',
                                 f'`{stmt_text(nd.ast)[:50]}` yields a node inside the loop over '
                                 f'the context nodes of the left operand: the results of '
                                 f'successive context nodes are concatenated, not merged in '
                                 f'document order (with <a><b><c/></b><d/></a>, //*/* gives '
                                 f'b, d, c)'))
        if loops:
            res.instances.append(f'{f.key}: {len(loops)} loop(s) over context nodes, '
                                 f'{sorted_exits} sorted exit(s)')
            if sorted_exits:
                res.ok()
            else:
                res.fail(finding('R01.4', f, loops[0], 'no sorted exit',
                                 f'the select of {"/".join(sorted(syms))} loops over the context '
                                 f'nodes but never yields through sorted(…, key=node_position)'))
    counts['context_loops'] = n_loops
    counts['in_loop_yields'] = n_yields
    if n_loops < 3:
        raise AnalysisError(f'only {n_loops} loops over context nodes located in the path operators')
    return res


def r01_5(ctx, counts: dict[str, int]) -> RuleResult:
    """Chained predicates of a reverse axis step count positions in reverse document order."""
    reg: RegModel = ctx.reg
    model = ctx.model
    res = RuleResult(
        'R01.5', 'PREDICATE-AXIS-DIRECTION',
        'All predicates of a step filter with respect to the axis of the step (XPath 1.0 §2.4): '
        'in ancestor::*[@x][1] the second predicate still counts from the nearest ancestor. A '
        'predicate evaluates its left operand through select_with_focus; when the left operand '
        'is itself a predicate, the numbering comes from the select_with_focus of the token '
        'bound to "[". That method must depend on the direction of the step: it reads '
        '`reverse_axis` and has a statement list that numbers the materialised results n..1 '
        '(the same idiom check as XPathAxis.select_with_focus in R01.2). The inherited '
        'XPathToken.select_with_focus numbers 1..n for every operand.')
    n = 0
    for pname, table in sorted(reg.tables.items()):
        rec = table.get('[')
        if rec is None:
            raise AnalysisError(f'{pname}: no token registered for "["')
        ref = rec.method('select_with_focus')
        f = ref.func if ref is not None else None
        n += 1
        if f is None:
            raise AnalysisError(f'{pname}: select_with_focus of "[" not resolved')
        reads_dir = any(isinstance(x, ast.Attribute) and x.attr == 'reverse_axis'
                        for x in walk_local(f.node))
        recv = f.params()[1] if len(f.params()) > 1 else 'context'
        lists = [f.node.body]
        for st in walk_local(f.node):
            if isinstance(st, ast.If):
                lists += [st.body, st.orelse]
            elif isinstance(st, ast.Try):
                lists += [st.body]
        desc = [numbering(f, ls, recv) for ls in lists if ls]
        has_desc = any(d == 'desc' and sz == 'ok' for d, sz, _ in desc)
        res.instances.append(f'{pname} "[": select_with_focus -> {f.key} reads reverse_axis='
                             f'{reads_dir} reverse numbering={has_desc}')
        if reads_dir and has_desc:
            res.ok()
        else:
            res.fail(finding('R01.5', f, f.node, f'{pname} predicate focus ignores the axis',
                             f'the focus of a predicate applied to a predicate comes from '
                             f'{f.key}, which numbers the items 1..n whatever the axis of the '
                             f'step: with <a><b><c><d/></c></b></a>, //d/ancestor::*[true()][1] '
                             f'selects a instead of c (libxml2: c)'))
    # (b) the filter itself takes its items from the focus iteration of its left operand
    from .common import enclosing_map
    done: set = set()
    n_y = 0
    for pname, table in sorted(reg.tables.items()):
        ref = table['['].method('select')
        g = ref.func if ref is not None else None
        if g is None:
            raise AnalysisError(f'{pname}: select of "[" not resolved')
        if g in done:
            continue
        done.add(g)
        me = g.params()[0]
        encl = enclosing_map(g.node)
        for y in walk_local(g.node):
            if not isinstance(y, (ast.Yield, ast.YieldFrom)):
                continue
            n_y += 1
            loops = [lp for lp in encl.get(id(y), []) if isinstance(lp, ast.For)
                     and isinstance(lp.iter, ast.Call) and isinstance(lp.iter.func, ast.Attribute)
                     and lp.iter.func.attr == 'select_with_focus'
                     and stmt_text(lp.iter.func.value) == f'{me}[0]']
            ok = bool(loops) and isinstance(y, ast.Yield)
            res.instances.append(f'{g.key}: L{y.lineno} `{stmt_text(y)[:40]}` inside the loop over '
                                 f'{me}[0].select_with_focus(..): {ok}')
            if ok:
                res.ok()
            else:
                res.fail(finding('R01.5', g, y, 'predicate result outside the focus iteration',
                                 f'`{stmt_text(y)[:50]}` delivers a result of the filter '
                                 f'expression without iterating {me}[0].select_with_focus(..): the '
                                 f'proximity positions of the step (reverse for a reverse axis, '
                                 f'also through a chain of predicates) are then not the ones the '
                                 f'item is selected by; ancestor::*[@k][1] picks the farthest '
                                 f'ancestor'))
    # (c) the focus loop of the filter is left early only for a literal predicate
    from ..engine.cfg import CFG as _CFG5
    from ..engine.dataflow import branch_facts as _bf5
    n_x = 0
    for g in sorted(done, key=lambda q: q.key):
        me = g.params()[0]
        loops5 = [lp for lp in walk_local(g.node) if isinstance(lp, ast.For)
                  and isinstance(lp.iter, ast.Call) and isinstance(lp.iter.func, ast.Attribute)
                  and lp.iter.func.attr == 'select_with_focus'
                  and stmt_text(lp.iter.func.value) == f'{me}[0]']
        if not loops5:
            continue
        cfg5 = _CFG5(g.node)
        facts5 = _bf5(cfg5)
        for lp in loops5:
            exits = [x for b_ in lp.body for x in ast.walk(b_)
                     if isinstance(x, (ast.Return, ast.Break))]
            n_x += 1
            bad5 = []
            for x in exits:
                nd5 = [q for q in cfg5.nodes if q.ast is x]
                fs5 = facts5[nd5[0].id] if nd5 else set()
                literal = any(fa.startswith('+') and f'{me}[1].symbol' in fa and "'(" in fa
                              for fa in fs5)
                if not literal:
                    bad5.append((x, sorted(fs5)[:2]))
            res.instances.append(f'{g.key}: focus loop at L{lp.lineno}: early exits {len(exits)}, '
                                 f'not under a literal-predicate test: {len(bad5)}')
            if not bad5:
                res.ok()
            for x, fs5 in bad5:
                res.fail(finding('R01.5', g, x, 'focus loop left early',
                                 f'`{stmt_text(x)[:30]}` leaves the loop over the items of the '
                                 f'filtered sequence before the last item, under {fs5}, which is '
                                 f'not a test that the predicate is a numeric literal: a predicate '
                                 f'whose value can differ between items (number(), '
                                 f'string-length() read the context item implicitly) then filters '
                                 f'only up to its first match: (1,2,3)[number()] is (1)'))
    counts['predicate_tokens'] = n
    counts['predicate_yields'] = n_y
    counts['predicate_focus_loops'] = n_x
    if n_y < 1:
        raise AnalysisError(f'select of "[": {n_y} yields located')
    return res


NON_CHILD_KINDS = {'AttributeNode', 'NamespaceNode'}
ALL_KINDS = {'ElementNode', 'TextNode', 'CommentNode', 'ProcessingInstructionNode',
             'AttributeNode', 'NamespaceNode'}


def _isinstance_classes(test: ast.AST, subject: str) -> Optional[set[str]]:
    if isinstance(test, ast.Call) and dotted(test.func) == 'isinstance' and len(test.args) == 2 \
            and stmt_text(test.args[0]) == subject:
        c = test.args[1]
        elts = c.elts if isinstance(c, ast.Tuple) else [c]
        return {dotted(e).split('.')[-1] for e in elts}
    return None


def _name_test_clauses(ctx, res: RuleResult, counts: dict[str, int]) -> None:
    """clauses (c) and (d) of R01.6, on XPathContext.iter_matching_nodes"""
    from ..engine.dataflow import branch_facts
    model = ctx.model
    xc = model.find_class('XPathContext')
    # (c) principal node kind: a name test matches attributes on the attribute axis only
    from ..engine.cfg import CFG as _CFG
    mm = xc.methods.get('iter_matching_nodes')
    if mm is None:
        raise AnalysisError('XPathContext.iter_matching_nodes vanished')
    cfg_m = _CFG(mm.node)
    facts_m = branch_facts(cfg_m)

    def ev3(e: ast.AST, attr_axis: bool, kind: str):
        """three-valued value of a test for (axis == 'attribute') = attr_axis, item kind"""
        if isinstance(e, ast.UnaryOp) and isinstance(e.op, ast.Not):
            v = ev3(e.operand, attr_axis, kind)
            return None if v is None else not v
        if isinstance(e, ast.BoolOp):
            vs = [ev3(v, attr_axis, kind) for v in e.values]
            if isinstance(e.op, ast.And):
                return False if False in vs else (None if None in vs else True)
            return True if True in vs else (None if None in vs else False)
        if isinstance(e, ast.Compare) and len(e.ops) == 1 and stmt_text(e.left) == 'self.axis' \
                and isinstance(e.comparators[0], ast.Constant):
            c = e.comparators[0].value
            if isinstance(e.ops[0], (ast.Eq, ast.NotEq)) and isinstance(c, str):
                v = attr_axis if c == 'attribute' else (False if attr_axis else None)
                return v if v is None or isinstance(e.ops[0], ast.Eq) else not v
            if c is None and isinstance(e.ops[0], (ast.Is, ast.IsNot)):
                return isinstance(e.ops[0], ast.IsNot)
            return None
        if isinstance(e, ast.Call) and dotted(e.func) == 'isinstance' and len(e.args) == 2 \
                and stmt_text(e.args[0]) == 'self.item':
            c = e.args[1]
            if isinstance(c, ast.IfExp):
                t = ev3(c.test, attr_axis, kind)
                if t is None:
                    return None
                c = c.body if t else c.orelse
            names = {dotted(x).split('.')[-1] for x in (c.elts if isinstance(c, ast.Tuple) else [c])}
            if names <= {'AttributeNode', 'ElementNode', 'EtreeElementNode', 'TextAttributeNode'}:
                return any(kind in nm for nm in names)
            return None
        return None

    n_pk = 0
    for nd in cfg_m.nodes:
        if nd.ast is None or nd.kind != 'stmt' or not any(
                isinstance(y, ast.Yield) and y.value is not None
                and stmt_text(y.value) == 'self.item' for y in ast.walk(nd.ast)):
            continue
        fs = facts_m[nd.id]
        if not any(fa in ('+self.axis is not None', '-self.axis is None') for fa in fs):
            continue
        n_pk += 1
        admitted_combos = []
        for attr_axis in (True, False):
            for kind in ('Attribute', 'Element'):
                ok_c = True
                for fa in fs:
                    try:
                        ex = ast.parse(fa[1:], mode='eval').body
                    except SyntaxError:
                        continue
                    v = ev3(ex, attr_axis, kind)
                    if v is not None and v != (fa[0] == '+'):
                        ok_c = False
                if ok_c:
                    admitted_combos.append((attr_axis, kind))
        bad_c = [c for c in admitted_combos if c in ((False, 'Attribute'), (True, 'Element'))]
        res.instances.append(f'{mm.key}: L{nd.ast.lineno} name test with an active axis admits '
                             f'(attribute axis, kind) = {admitted_combos}')
        if not bad_c:
            res.ok()
        else:
            what = 'an attribute on an axis other than attribute' if (False, 'Attribute') in bad_c \
                else 'an element on the attribute axis'
            res.fail(finding('R01.6', mm, nd.ast, 'name test ignores the principal node kind',
                             f'`{stmt_text(nd.ast)[:40]}` is reached for {what}: a name test '
                             f'selects nodes of the principal node kind of the axis (attribute '
                             f'for the attribute axis, element otherwise), so //@a/self::a and '
                             f'//@a/ancestor-or-self::a must not select the attribute'))
    # (d) a name test on the children selects by name *and* kind
    n_ch = 0
    for nd in cfg_m.nodes:
        if nd.ast is None or nd.kind != 'stmt':
            continue
        ys = [y for y in ast.walk(nd.ast) if isinstance(y, ast.Yield) and y.value is not None]
        if not ys:
            continue
        fs = facts_m[nd.id]
        if any(fa in ('+self.axis is not None', '-self.axis is None') for fa in fs):
            continue
        for y in ys:
            v = y.value
            if isinstance(v, ast.Call) and dotted(v.func).split('.')[-1] == 'cast' and len(v.args) == 2:
                v = v.args[1]
            subj = stmt_text(v)
            n_ch += 1
            ok_k = any(fa.startswith(f'+{subj}.match_name(') for fa in fs) or any(
                fa.startswith(f'+isinstance({subj}, ') and 'ElementNode' in fa for fa in fs)
            res.instances.append(f'{mm.key}: L{nd.ast.lineno} child name test yields `{subj}` under '
                                 f'match_name() or an element-kind fact: {ok_k}')
            if ok_k:
                res.ok()
            else:
                res.fail(finding('R01.6', mm, nd.ast, f'child name test without kind: {subj}',
                                 f'`{stmt_text(nd.ast)[:50]}` selects a child by a comparison of '
                                 f'names alone ({sorted(f_ for f_ in fs if subj in f_)[:2]}): the '
                                 f'`name` of a processing instruction is its target, so '
                                 f'<a><x/><?x d?><x/></a>/a/x[2] selects the instruction; '
                                 f'match_name() (or an ElementNode test) decides the kind'))
    counts['child_name_tests'] = n_ch
    if n_ch < 1:
        raise AnalysisError('iter_matching_nodes: the child name test was not located')
    counts['name_test_admissions'] = n_pk
    if n_pk < 1:
        raise AnalysisError('iter_matching_nodes: the name test under an active axis was not located')


def r01_6_names(ctx, counts: dict[str, int]) -> RuleResult:
    """the name-test clauses of R01.6 alone (shared with C14)"""
    res = RuleResult(
        'R01.6', 'NAME-TEST-KIND',
        'The name-test clauses (c) and (d) of R01.6: in XPathContext.iter_matching_nodes a name '
        'test with an active axis admits attributes on the attribute axis only and elements on '
        'the others (principal node kind), and a name test on the children yields a child under '
        'match_name() or an element-kind fact, never under a comparison of names alone: the '
        '`name` of a processing instruction is its target, so a generated path step '
        'Q{}x[2] would count the instruction <?x ..?> among the x elements.')
    _name_test_clauses(ctx, res, counts)
    return res


def r01_6(ctx, counts: dict[str, int]) -> RuleResult:
    """Axes from attribute / namespace / text / comment / PI context nodes."""
    from ..engine.dataflow import branch_facts
    model = ctx.model
    res = RuleResult(
        'R01.6', 'AXIS-CONTEXT-DOMAIN',
        'Every axis is defined for every kind of context node. (a) DOMAIN: the outermost '
        '`isinstance(self.item, …)` guard of a context iterator admits the node kinds of '
        'sa/specs/axes.json context_domain: following, preceding, the sibling axes, parent and '
        'ancestor are defined for any node (a guard naming only ElementNode makes '
        'text()/following::* empty); only elements have attributes. (b) SENTINEL: a scan '
        '`for x in <children or descendants>: if x is <item>: break/flag` finds its sentinel '
        'only if the sentinel is a child-kind node: attribute and namespace nodes are not among '
        'the children or descendants of their parent, so on every path to such a loop the '
        'sentinel is either established not to be an AttributeNode/NamespaceNode (branch fact) '
        'or was replaced by its parent under that test. Otherwise @x/preceding-sibling::* '
        'returns every child and @x/preceding::* every node of the document.')
    with open(SPEC) as fp:
        dom = {k: v for k, v in json.load(fp)['context_domain'].items() if not k.startswith('_')}
    xc = model.find_class('XPathContext')
    n_dom = n_scan = 0
    for name, want in sorted(dom.items()):
        m = xc.methods.get(name)
        if m is None:
            raise AnalysisError(f'XPathContext.{name} vanished')
        # (a) domain: isinstance guards on self.item at the top level of the body
        guards: list[tuple[ast.If, set[str]]] = []

        def top_ifs(body: list[ast.stmt]) -> None:
            for st in body:
                if isinstance(st, ast.If):
                    cs = _isinstance_classes(st.test, 'self.item')
                    if cs is not None:
                        guards.append((st, cs))
                    # guard clause: `if not isinstance(self.item, T): return`
                    t = st.test
                    if isinstance(t, ast.UnaryOp) and isinstance(t.op, ast.Not) and st.body \
                            and isinstance(st.body[-1], ast.Return) and not st.orelse:
                        cs = _isinstance_classes(t.operand, 'self.item')
                        if cs is not None:
                            guards.append((st, cs))
                    top_ifs(st.orelse)
        top_ifs(m.node.body)
        if not guards:
            raise AnalysisError(f'{m.key}: no isinstance(self.item, …) guard located')
        n_dom += 1
        admitted: set[str] = set()
        for _, cs in guards:
            admitted |= cs
        res.instances.append(f'{m.key}: context kinds admitted {sorted(admitted)} (spec: {want})')
        if want == 'any-node':
            ok = 'XPathNode' in admitted or ALL_KINDS <= admitted
            if ok:
                res.ok()
            else:
                missing = sorted(ALL_KINDS - admitted)
                res.fail(finding('R01.6', m, guards[0][0], f'{name} domain {sorted(admitted)}',
                                 f'{name} yields nothing unless the context item is one of '
                                 f'{sorted(admitted)}: the axis is empty for {missing} context '
                                 f'nodes (e.g. /a/b/text()/following::* with a following '
                                 f'sibling of b)'))
        else:
            extra = sorted(admitted - {'ElementNode'})
            if not extra:
                res.ok()
            else:
                st = [g for g, cs in guards if cs - {'ElementNode'}][0]
                res.fail(finding('R01.6', m, st, f'{name} admits {"+".join(extra)}',
                                 f'{name} yields for a context item of kind {extra}: only '
                                 f'element nodes have attributes (//@*/attribute::node() returns '
                                 f'the attributes themselves)'))
        # (b) sentinel scans
        cfg = CFG(m.node)
        facts = branch_facts(cfg)
        for nd in cfg.nodes:
            loop = nd.ast
            if not isinstance(loop, ast.For):
                continue
            sent = None
            for x in ast.walk(loop):
                if isinstance(x, ast.Compare) and len(x.ops) == 1 and isinstance(x.ops[0], ast.Is) \
                        and isinstance(x.comparators[0], ast.Name) \
                        and stmt_text(x.left) == stmt_text(loop.target):
                    sent = x.comparators[0].id
            it = stmt_text(loop.iter)
            if sent is None or not (it == f'{sent}.parent' or 'iter_descendants' in it
                                    or it.endswith('.children')):
                continue
            n_scan += 1

            def discharged(q: Node) -> bool:
                for fa in facts[q.id]:
                    if fa.startswith('-isinstance('):
                        try:
                            cs = _isinstance_classes(ast.parse(fa[1:], mode='eval').body, sent)
                        except SyntaxError:
                            cs = None
                        if cs is not None and NON_CHILD_KINDS <= cs:
                            return True
                a = q.ast
                if q.kind == 'stmt' and isinstance(a, ast.Assign) and len(a.targets) == 1 \
                        and stmt_text(a.targets[0]) == sent \
                        and stmt_text(a.value) == f'{sent}.parent':
                    return any(fa.startswith('+isinstance(') and NON_CHILD_KINDS <= (
                        _isinstance_classes(ast.parse(fa[1:], mode='eval').body, sent) or set())
                        for fa in facts[q.id])
                return False
            def edge_ok(q: Node, label: str) -> bool:
                # the false edge of `isinstance(<sentinel>, (AttributeNode, NamespaceNode))`
                # establishes a child-kind sentinel: paths through it are discharged
                if q.kind == 'test' and label == 'false' and q.ast is not None:
                    cs = _isinstance_classes(q.ast, sent)
                    if cs is not None and NON_CHILD_KINDS <= cs:
                        return False
                return True
            path = cfg.path_avoiding([cfg.entry], lambda q: q is nd, discharged,
                                     edge_ok=edge_ok)
            res.instances.append(f'{m.key}: scan `for {stmt_text(loop.target)} in {it}` stops at '
                                 f'`{sent}`: sentinel is a child-kind node on every path='
                                 f'{path is None}')
            if path is None:
                res.ok()
            else:
                f_ = finding('R01.6', m, loop, f'scan for {sent} in {it[:30]}',
                             f'the scan `for {stmt_text(loop.target)} in {it}` stops when it '
                             f'meets `{sent}`, which can be an attribute or namespace node: it '
                             f'is not among the scanned nodes, so the whole collection is '
                             f'yielded (/a/@x/preceding-sibling::node() returns the children of '
                             f'a, @x/preceding::node() the rest of the document)')
                f_.path = [f'L{q.lineno}: {stmt_text(q.ast)[:60]}' for q in path
                           if q.ast is not None][:8]
                res.fail(f_)
    _name_test_clauses(ctx, res, counts)
    counts['axis_domains'] = n_dom
    counts['sentinel_scans'] = n_scan
    if n_scan < 2:
        raise AnalysisError(f'only {n_scan} sentinel scans located in the sibling/preceding '
                            f'iterators')
    return res


def r01_7(ctx, counts: dict[str, int]) -> RuleResult:
    """the saved focus is restored in a finally: an abandoned generator restores it too"""
    model: Model = ctx.model
    res = RuleResult(
        'R01.7', 'FOCUS-RESTORED-ON-ABANDONMENT',
        'The context iterators and the select_with_focus functions are generators that move the '
        'focus (item, axis, position, size) of a context they share with their caller, having '
        'saved it in a local (`status = self.item, self.axis`). fn:head, fn:exists, fn:boolean, '
        'a positional predicate, `is`, `if` take the first item of such a generator and abandon '
        'it; the generator is then closed at the yield. Every yield that lies between the save '
        'and the restoring assignment is therefore inside a `try` whose `finally` block contains '
        'the restoring assignment from the saved local. Otherwise the caller goes on with the '
        'inner focus: (10,20,30) ! (let $h := head((5,6)[. = 5]) return .) was (5,5,5).')
    n = 0
    for f in sorted(model.all_functions(), key=lambda q: q.key):
        if not f.module.name.startswith('elementpath.xpath') or not any(
                isinstance(x, (ast.Yield, ast.YieldFrom)) for x in walk_local(f.node)):
            continue
        recvs = {'self'} if f.cls is not None and 'Context' in f.cls.name else set()
        recvs |= {p_ for p_ in f.params() if p_ == 'context'}
        if not recvs:
            continue
        saves: dict[str, ast.Assign] = {}
        for x in walk_local(f.node):
            if isinstance(x, ast.Assign) and len(x.targets) == 1 \
                    and isinstance(x.targets[0], ast.Name):
                parts = x.value.elts if isinstance(x.value, ast.Tuple) else [x.value]
                if parts and all(isinstance(e, ast.Attribute) and isinstance(e.value, ast.Name)
                                 and e.value.id in recvs and e.attr in FOCUS for e in parts):
                    saves[x.targets[0].id] = x

        def is_restore_of(st: ast.AST, var: str) -> bool:
            return isinstance(st, ast.Assign) and isinstance(st.value, ast.Name) \
                and st.value.id == var and all(
                    isinstance(e, ast.Attribute) and isinstance(e.value, ast.Name)
                    and e.value.id in recvs and e.attr in FOCUS
                    for t in st.targets for e in (t.elts if isinstance(t, ast.Tuple) else [t]))
        encl = enclosing_map(f.node)
        for var, sv in sorted(saves.items()):
            restores = [x for x in walk_local(f.node) if is_restore_of(x, var)]
            if not restores:
                continue
            # the statements that follow the save in its own block (a yield of another
            # branch of the function does not run with this focus moved)
            after: list[ast.stmt] = []
            for blk_owner in ast.walk(f.node):
                for fld in ('body', 'orelse', 'finalbody'):
                    blk = getattr(blk_owner, fld, None)
                    if isinstance(blk, list) and sv in blk:
                        after = blk[blk.index(sv) + 1:]
            ys = [y for st_ in after for y in ast.walk(st_)
                  if isinstance(y, (ast.Yield, ast.YieldFrom))]
            stop_at = [i_ for i_, st_ in enumerate(after) if is_restore_of(st_, var) or (
                isinstance(st_, ast.Try) and any(
                    is_restore_of(r, var) for fb in st_.finalbody for r in ast.walk(fb)))]
            if stop_at:
                upto = stop_at[0] + (1 if isinstance(after[stop_at[0]], ast.Try) else 0)
                ys = [y for st_ in after[:upto] for y in ast.walk(st_)
                      if isinstance(y, (ast.Yield, ast.YieldFrom))]
            for y in ys:
                n += 1
                guarded = any(isinstance(t, ast.Try) and any(
                    is_restore_of(r, var) for fb in t.finalbody for r in ast.walk(fb))
                    and any(z is y for b in t.body for z in ast.walk(b))
                    for t in encl.get(id(y), []))
                res.instances.append(f'{f.key}: L{y.lineno} yield between the save of `{var}` '
                                     f'and its restore: restore in a finally: {guarded}')
                if guarded:
                    res.ok()
                else:
                    res.fail(finding('R01.7', f, y, f'yield outside try/finally of {var}',
                                     f'`{stmt_text(y)[:40]}` yields with the focus moved; the '
                                     f'restore `{stmt_text(restores[-1])[:60]}` is not in a '
                                     f'finally block around it: a consumer that takes one item '
                                     f'and drops the generator (head, exists, boolean, [1], is) '
                                     f'leaves the caller on the inner focus'))
    counts['focus_yields'] = n
    if n < 12:
        raise AnalysisError(f'yields between a focus save and its restore: {n} < 12')
    return res


def run(ctx) -> dict:
    counts: dict[str, int] = {}
    results = [r01_1(ctx, counts), r01_2(ctx, counts), r01_3(ctx, counts), r01_4(ctx, counts),
               r01_5(ctx, counts), r01_6(ctx, counts), r01_7(ctx, counts)]
    # document order of '|' and of the leading '//' (accumulated results are yielded sorted)
    from .c02_trees import r02_3
    results.append(r02_3(ctx, counts))
    # predicates are evaluated for every item of the step
    from .c08_sequences import r08_5
    results.append(r08_5(ctx, counts))
    return {
        'results': results, 'counts': counts,
        'explanation':
            'Decided statically: (1) focus restoration — on the CFG of every context axis '
            'iterator and select_with_focus, each focus attribute that is written is saved '
            'before and restored on every path to the normal exit; (2) the axis table — the 13 '
            'axes are registered in every parser version with the direction of the '
            'specification, each is wired to the matching context iterator, iterators set '
            'context.axis, and reverse axes are numbered from the far end with size = length '
            'of the materialised list.',
        'not_decided':
            'Decided beyond the focus/axis table: merged step results leave through a sort, chained '
            'predicates of reverse axes are numbered from the far end, axes are defined for every '
            'kind of context node. Not decided: the node set a composed path selects in general, '
            'equality with libxml2 and across parser versions beyond those clauses, predicate '
            'truth values: these depend on the data flowing through the generators.',
        'assumptions': ['sa/specs/axes.json transcribes the axis directions of the '
                        'specification', 'exits by exception or GeneratorExit are out of scope'],
    }
