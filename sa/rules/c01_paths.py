"""
C01 — path expressions: focus restoration and axis table.

R01.1 FOCUS-FRAME  CFG path rule: save-before-write and restore-before-normal-exit of the
                   focus attributes in the context iterators and select_with_focus
R01.2 AXIS-TABLE   registration model + iterator wiring + numbering of reverse axes vs
                   sa/specs/axes.json
"""
from __future__ import annotations

import ast
import json
import os
from typing import Optional

from ..engine.srcmodel import AnalysisError, FuncInfo, dotted, stmt_text, walk_local
from ..engine.cfg import CFG, Node, node_writes
from ..engine.regmodel import RegModel, MethodRef
from ..engine.report import RuleResult, Finding
from .common import finding

SPEC = os.path.join(os.path.dirname(os.path.dirname(os.path.abspath(__file__))),
                    'specs', 'axes.json')
FOCUS = ('item', 'axis', 'position', 'size')


def focus_frame(f: FuncInfo, recv: str, res: RuleResult) -> int:
    """Apply R01.1 to one function; returns number of focus attributes written."""
    cfg = CFG(f.node)
    written = 0
    for attr in FOCUS:
        target = f'{recv}.{attr}'
        # save nodes: target read into a local name
        saves: dict[int, set[str]] = {}
        saved_vars: set[str] = set()
        for n in cfg.nodes:
            if n.kind != 'stmt' or not isinstance(n.ast, ast.Assign):
                continue
            a = n.ast
            reads = any(isinstance(x, ast.Attribute) and dotted(x) == target
                        and isinstance(x.ctx, ast.Load) for x in ast.walk(a.value))
            if not reads:
                continue
            names = set()
            for t in a.targets:
                for x in ast.walk(t):
                    if isinstance(x, ast.Name):
                        names.add(x.id)
            if names:
                saves[n.id] = names
                saved_vars |= names

        def is_restore(n: Node) -> bool:
            if n.id in saves:
                return False
            for tgt, val in node_writes(n):
                if tgt != target or n.kind != 'stmt' or not isinstance(n.ast, ast.Assign):
                    continue
                if any(isinstance(x, ast.Name) and x.id in saved_vars
                       for x in ast.walk(n.ast.value)):
                    return True
            return False

        writes = [n for n in cfg.nodes
                  if any(tgt == target for tgt, _ in node_writes(n)) and not is_restore(n)]
        if not writes:
            continue
        written += 1
        res.instances.append(f'{f.key}: {target} written at '
                             f'{[w.lineno for w in writes]}, saved in {sorted(saved_vars)}')
        for w in writes:
            # (i) save-before-write
            if w.id in saves or cfg.dominated_by(w, lambda n: n.id in saves):
                res.ok()
            else:
                res.fail(finding('R01.1', f, w.ast, f'{target} unsaved',
                                 f'{target} is overwritten at `{w.text()[:60]}` on a path on '
                                 f'which its previous value was not saved'))
            # (ii) restore-before-exit
            p = cfg.path_avoiding([w], lambda n: n is cfg.exit, is_restore)
            if p is None:
                res.ok()
            else:
                res.fail(finding('R01.1', f, w.ast, f'{target} unrestored',
                                 f'after `{w.text()[:60]}` the generator can finish normally '
                                 f'without restoring {target}: the caller continues with a '
                                 f'foreign focus', CFG.fmt_path(p)))
            res.samples.append({'rule': 'R01.1', 'function': f.key, 'attribute': target,
                                'write': w.text()[:70]})
    # tuple save / tuple restore must list the attributes in the same order
    saves_t: dict[str, list[str]] = {}
    for n in cfg.nodes:
        if n.kind == 'stmt' and isinstance(n.ast, ast.Assign) and len(n.ast.targets) == 1 \
                and isinstance(n.ast.targets[0], ast.Name) \
                and isinstance(n.ast.value, ast.Tuple):
            elts = [dotted(e) for e in n.ast.value.elts]
            if elts and all(e.startswith(recv + '.') for e in elts):
                saves_t[n.ast.targets[0].id] = elts
    for n in cfg.nodes:
        if n.kind == 'stmt' and isinstance(n.ast, ast.Assign) and len(n.ast.targets) == 1 \
                and isinstance(n.ast.targets[0], ast.Tuple) \
                and isinstance(n.ast.value, ast.Name) and n.ast.value.id in saves_t:
            tg = [dotted(e) for e in n.ast.targets[0].elts]
            if tg == saves_t[n.ast.value.id]:
                res.ok()
            else:
                res.fail(finding('R01.1', f, n.ast, f'restore order of {n.ast.value.id}',
                                 f'`{stmt_text(n.ast)[:70]}` unpacks the saved focus in a '
                                 f'different order than it was saved '
                                 f'({", ".join(saves_t[n.ast.value.id])}): attributes are '
                                 f'restored with each other\'s values'))
    return written


def r01_1(ctx, counts: dict[str, int]) -> RuleResult:
    model = ctx.model
    res = RuleResult(
        'R01.1', 'FOCUS-FRAME',
        'Instances: generator methods of XPathContext and its subclasses that assign a focus '
        'attribute (self.item/axis/position/size), and every select_with_focus method '
        '(assigning through its context parameter). For each focus attribute A written in the '
        'function: (i) every write of A is dominated by a statement that reads A into a local '
        '(save), or is itself such a statement (swap idiom); (ii) every path from a write of A '
        'to the normal exit passes an assignment of A from a saved local (restore). Exits by '
        'exception or GeneratorExit are out of scope.')
    xc = model.find_class('XPathContext')
    n_iter = n_swf = 0
    for cls in model.subclasses_of(xc):
        for name, m in cls.methods.items():
            if not m.is_generator():
                continue
            if focus_frame(m, 'self', res):
                n_iter += 1
    tok = model.find_class('Token')
    for cls in model.subclasses_of(tok):
        m = cls.methods.get('select_with_focus')
        if m is None:
            continue
        params = m.params()
        if len(params) < 2:
            raise AnalysisError(f'{m.key}: unexpected signature')
        if not focus_frame(m, params[1], res):
            res.fail(finding('R01.1', m, m.node, 'no focus written',
                             'select_with_focus no longer sets an inner focus'))
        n_swf += 1
    counts['context_iterators'] = n_iter
    counts['select_with_focus'] = n_swf
    return res


def _iter_calls(f: FuncInfo) -> list[ast.Call]:
    return [n for n in walk_local(f.node) if isinstance(n, ast.Call)
            and isinstance(n.func, ast.Attribute) and n.func.attr.startswith('iter_')
            and dotted(n.func.value) == 'context']


def numbering(f: FuncInfo, stmts: list[ast.stmt], recv: str) -> tuple[str, str, Optional[ast.AST]]:
    """
    Classify how a statement list numbers the focus: returns (direction, size, node) with
    direction in asc1 / desc / unknown:<why> / wrong:<why>, size in ok / missing / unknown.
    """
    pos, size, item = f'{recv}.position', f'{recv}.size', f'{recv}.item'
    size_src: Optional[str] = None
    pos_init: Optional[str] = None
    loops = [s for s in stmts if isinstance(s, ast.For)]
    if len(loops) != 1:
        return f'unknown:{len(loops)} loops', 'unknown', None
    loop = loops[0]
    for s in stmts:
        if s is loop:
            break
        if isinstance(s, ast.Assign):
            tg = [dotted(t) for t in s.targets]
            if size in tg:
                size_src = stmt_text(s.value)
            if pos in tg:
                pos_init = stmt_text(s.value)
    iter_txt = stmt_text(loop.iter)
    targets = [dotted(t) for t in (loop.target.elts if isinstance(loop.target, ast.Tuple)
                                   else [loop.target])]
    seq: Optional[str] = None
    direction = 'unknown:loop shape'
    if isinstance(loop.iter, ast.Call) and dotted(loop.iter.func) == 'enumerate' \
            and targets == [pos, item]:
        seq = stmt_text(loop.iter.args[0])
        start = None
        if len(loop.iter.args) > 1:
            start = loop.iter.args[1]
        for k in loop.iter.keywords:
            if k.arg == 'start':
                start = k.value
        if isinstance(start, ast.Constant) and start.value == 1:
            direction = 'asc1'
        else:
            direction = f'wrong:enumerate starts at {stmt_text(start) if start else 0}'
    elif isinstance(loop.iter, ast.Call) and dotted(loop.iter.func) == 'zip' \
            and targets == [pos, item] and len(loop.iter.args) == 2:
        r, seq_e = loop.iter.args
        seq = stmt_text(seq_e)
        rt = stmt_text(r)
        if rt == f'range(len({seq}), 0, -1)':
            direction = 'desc'
        elif rt in (f'range(1, len({seq}) + 1)',):
            direction = 'asc1'
        else:
            direction = f'unknown:zip with {rt}'
    elif targets == [item]:
        seq = iter_txt
        # countdown / countup after the yield
        last = loop.body[-1] if loop.body else None
        yield_first = bool(loop.body) and isinstance(loop.body[0], ast.Expr) and \
            isinstance(loop.body[0].value, ast.Yield)
        if isinstance(last, ast.AugAssign) and dotted(last.target) == pos and yield_first \
                and isinstance(last.value, ast.Constant) and last.value.value == 1:
            if isinstance(last.op, ast.Sub):
                direction = 'desc' if pos_init == f'len({seq})' else \
                    f'wrong:countdown starts at {pos_init}'
            elif isinstance(last.op, ast.Add):
                direction = 'asc1' if pos_init == '1' else f'wrong:countup starts at {pos_init}'
        else:
            direction = 'wrong:position is not advanced in the loop'
    if seq is None:
        return direction, 'unknown', loop
    if size_src is None:
        return direction, 'missing', loop
    return direction, ('ok' if size_src == f'len({seq})' else f'wrong:{size_src}'), loop


def r01_2(ctx, counts: dict[str, int]) -> RuleResult:
    model = ctx.model
    reg: RegModel = ctx.reg
    spec = json.load(open(SPEC))
    res = RuleResult(
        'R01.2', 'AXIS-TABLE',
        '(a) the 13 axis names are registered as XPathAxis tokens in 1.0 and survive in '
        '2.0/3.0/3.1 (attribute as the multi-role kind-test/axis token); (b) reverse_axis is '
        'True exactly for ancestor, ancestor-or-self, parent, preceding, preceding-sibling; '
        '(c) each axis select iterates the context iterator the table prescribes, passing '
        'self.symbol where one iterator serves two axes, and each iterator sets a non-None '
        'context.axis (exactly "attribute" for iter_attributes); (d) XPathAxis.'
        'select_with_focus numbers the reverse branch n..1 and the forward branch 1..n with '
        'size=n over the materialised list, the base select_with_focus 1..n, size=n.')
    axis_cls = model.find_class('XPathAxis')
    axes = spec['axes']
    n_axes = 0
    for parser in reg.PARSERS:
        table = reg.tables[parser]
        ver = reg.VERSIONS[parser]
        for name, row in axes.items():
            rec = table.get(name)
            if rec is None:
                res.fail(Finding('R01.2', 'elementpath', '', f'{ver}:{name} missing',
                                 f'XPath {ver}: axis {name!r} is not registered'))
                continue
            n_axes += 1
            is_axis = rec.is_subclass_of(axis_cls)
            multi = 'axis' in rec.label_values
            res.instances.append(f'{ver}:{name} axis_class={is_axis} multirole={multi} '
                                 f'reverse={rec.get(model, "reverse_axis")}')
            if not (is_axis or multi):
                res.fail(Finding('R01.2', rec.decl_sites[0][0], '', f'{ver}:{name} not an axis',
                                 f'XPath {ver}: {name!r} is registered but is neither an '
                                 f'XPathAxis nor a multi-role axis token', rec.decl_sites[0][1]))
                continue
            # (b)
            rev = rec.get(model, 'reverse_axis') if is_axis else False
            if bool(rev) == row['reverse']:
                res.ok()
            else:
                sel0 = rec.method('select')
                res.fail(finding('R01.2', sel0.func if sel0 else None, None,
                                 f'{name} reverse_axis',
                                 f'axis {name!r}: reverse_axis={rev} but the specification says '
                                 f'{"reverse" if row["reverse"] else "forward"}: positional '
                                 f'predicates count from the wrong end',
                                 module=model.modules[rec.module]) if sel0 else
                         Finding('R01.2', rec.decl_sites[0][0], '', f'{name} reverse_axis',
                                 f'axis {name!r}: reverse_axis={rev}', rec.decl_sites[0][1]))
            # (c)
            sel = rec.method('select')
            if sel is None or sel.func.qualname.endswith('Token.select'):
                res.fail(Finding('R01.2', rec.decl_sites[0][0], '', f'{name} select',
                                 f'axis {name!r} has no select implementation',
                                 rec.decl_sites[0][1]))
                continue
            calls = _iter_calls(sel.func)
            if row['iterator'] is None:
                uses_ns = any(isinstance(n, ast.Attribute) and n.attr == 'namespace_nodes'
                              for n in walk_local(sel.func.node))
                if uses_ns:
                    res.ok()
                else:
                    res.fail(finding('R01.2', sel.func, None, f'{name} iterator',
                                     f'namespace axis does not iterate namespace_nodes'))
                continue
            names = {c.func.attr for c in calls}              # type: ignore[attr-defined]
            if multi and not is_axis:
                # multi-role attribute token: the axis branch must use iter_attributes
                ok = row['iterator'] in names
            else:
                ok = names == {row['iterator']}
            if not ok:
                res.fail(finding('R01.2', sel.func, calls[0] if calls else None,
                                 f'{name} iterator',
                                 f'axis {name!r} must be driven by context.{row["iterator"]}() '
                                 f'but its select iterates {sorted(names)}'))
            else:
                res.ok()
            if row['passes_axis']:
                good = all(any(k.arg == 'axis' and stmt_text(k.value) == 'self.symbol'
                               for k in c.keywords) or
                           (c.args and stmt_text(c.args[0]) == 'self.symbol')
                           for c in calls if c.func.attr == row['iterator'])  # type: ignore
                if good:
                    res.ok()
                else:
                    res.fail(finding('R01.2', sel.func, calls[0] if calls else None,
                                     f'{name} passes axis',
                                     f'axis {name!r} shares {row["iterator"]} with a sibling '
                                     f'axis and must pass axis=self.symbol'))
    counts['axis_rows'] = n_axes
    # iterators set the axis
    xc = model.find_class('XPathContext')
    for it_name, expect in spec['axis_value_set_by_iterator'].items():
        m = xc.methods.get(it_name)
        if m is None:
            raise AnalysisError(f'XPathContext.{it_name} vanished')
        vals = []
        for n in walk_local(m.node):
            if isinstance(n, ast.Assign):
                for t in n.targets:
                    elts = t.elts if isinstance(t, ast.Tuple) else [t]
                    vs = n.value.elts if isinstance(t, ast.Tuple) and \
                        isinstance(n.value, ast.Tuple) and len(n.value.elts) == len(elts) \
                        else [n.value] * len(elts)
                    for e, v in zip(elts, vs):
                        if dotted(e) == 'self.axis':
                            vals.append(v)
        news = [v for v in vals if not (isinstance(v, ast.Name) and v.id in ('status', '_status'))
                and not isinstance(v, ast.Subscript) and stmt_text(v) not in ('status', '_status')]
        texts = {stmt_text(v) for v in news}
        res.instances.append(f'XPathContext.{it_name} sets axis to {sorted(texts)}')
        if expect.startswith('param-or:'):
            want = {f"axis or '{expect.split(':', 1)[1]}'"}
            good = want <= texts
        elif expect == 'param':
            good = 'axis' in texts
        else:
            good = repr(expect) in texts
        if good:
            res.ok()
        else:
            res.fail(finding('R01.2', m, m.node, 'axis value',
                             f'{it_name} must set context.axis to '
                             f'{expect!r} (name tests use it to pick the principal node kind) '
                             f'but assigns {sorted(texts)}'))
    # (d) numbering
    swf_axis = axis_cls.methods.get('select_with_focus')
    base = model.find_class('XPathToken').methods.get('select_with_focus')
    if swf_axis is None or base is None:
        raise AnalysisError('select_with_focus vanished')
    recv = swf_axis.params()[1]
    branch = [n for n in swf_axis.node.body if isinstance(n, ast.If)
              and stmt_text(n.test) == 'self.reverse_axis']
    if len(branch) != 1:
        raise AnalysisError('XPathAxis.select_with_focus: the reverse_axis branch was not found')
    for label, stmts, want in (('reverse', branch[0].body, 'desc'),
                               ('forward', branch[0].orelse, 'asc1')):
        d, s, node = numbering(swf_axis, stmts, recv)
        res.instances.append(f'XPathAxis.select_with_focus[{label}]: numbering={d} size={s}')
        res.samples.append({'rule': 'R01.2', 'branch': label, 'numbering': d, 'size': s})
        if d.startswith('unknown'):
            raise AnalysisError(f'XPathAxis.select_with_focus[{label}]: numbering idiom not '
                                f'recognised ({d})')
        if d == want:
            res.ok()
        else:
            res.fail(finding('R01.2', swf_axis, node, f'{label} numbering',
                             f'{label} axes must be numbered '
                             f'{"n..1 (reverse document order)" if want == "desc" else "1..n"} '
                             f'but the branch numbers {d}'))
        if s == 'ok':
            res.ok()
        else:
            res.fail(finding('R01.2', swf_axis, node, f'{label} size',
                             f'context.size in the {label} branch is {s}, not the length of the '
                             f'materialised result list: last() is wrong'))
    d, s, node = numbering(base, base.node.body, base.params()[1])
    res.instances.append(f'XPathToken.select_with_focus: numbering={d} size={s}')
    if d.startswith('unknown'):
        raise AnalysisError(f'XPathToken.select_with_focus: numbering idiom not recognised ({d})')
    if d == 'asc1':
        res.ok()
    else:
        res.fail(finding('R01.2', base, node, 'base numbering',
                         f'the inner focus must be numbered 1..n but is {d}'))
    if s == 'ok':
        res.ok()
    else:
        res.fail(finding('R01.2', base, node, 'base size',
                         f'context.size is {s}, not the length of the materialised list'))
    # materialisation: results list built before the focus loop
    for m in (swf_axis, base):
        lists = [n for n in m.node.body if isinstance(n, ast.Assign)
                 and isinstance(n.value, (ast.ListComp, ast.Call))
                 and 'self.select' in stmt_text(n.value)
                 and (isinstance(n.value, ast.ListComp)
                      or dotted(n.value.func) in ('list', 'xlist'))]
        if lists:
            res.ok()
        else:
            res.fail(finding('R01.2', m, m.node, 'materialise',
                             'select_with_focus no longer materialises the operand before '
                             'numbering it: last() cannot be known'))
    return res


def r01_3(ctx, counts: dict[str, int]) -> RuleResult:
    """Each node once: the identity set of the path operators."""
    from ..engine.dataflow import branch_facts
    model = ctx.model
    reg: RegModel = ctx.reg
    res = RuleResult(
        'R01.3', 'DEDUP-SCOPE',
        'In the select functions bound to "/" and "//": (a) every local set used to remember '
        'the nodes already returned (a name tested with `result in <set>` and extended with '
        '`<set>.add(result)`) is created outside every loop, so that it spans all context items '
        'of the left operand; (b) every `yield result` that can yield a node is dominated by '
        'the failed membership test `result in <set>`; (c) the result is added to the set on '
        'the same path.')
    funcs = {}
    for sym in ('/', '//'):
        rec = reg.tables['XPath1Parser'].get(sym)
        if rec is None or rec.method('select') is None:
            raise AnalysisError(f'select of {sym!r} not found')
        funcs[rec.method('select').func] = sym           # type: ignore[union-attr]
    n = 0
    for f, sym in funcs.items():
        sets = set()
        for x in walk_local(f.node):
            if isinstance(x, ast.Call) and isinstance(x.func, ast.Attribute) \
                    and x.func.attr == 'add' and isinstance(x.func.value, ast.Name):
                sets.add(x.func.value.id)
        if not sets:
            res.fail(finding('R01.3', f, f.node, 'no identity set',
                             f'select of {sym!r} keeps no set of already returned nodes: nodes '
                             f'reached from two context items are returned twice'))
            continue
        # (a) creation sites
        def creations(body: list, in_loop: bool, out: list) -> None:
            for st in body:
                if isinstance(st, (ast.Assign, ast.AnnAssign)):
                    tg = st.targets[0] if isinstance(st, ast.Assign) else st.target
                    if isinstance(tg, ast.Name) and tg.id in sets and st.value is not None:
                        out.append((st, in_loop))
                loop = isinstance(st, (ast.For, ast.While))
                for fld in ('body', 'orelse', 'finalbody'):
                    sub = getattr(st, fld, None)
                    if isinstance(sub, list) and sub and isinstance(sub[0], ast.stmt):
                        creations(sub, in_loop or (loop and fld == 'body'), out)
                if isinstance(st, ast.Try):
                    for h in st.handlers:
                        creations(h.body, in_loop, out)
        cr: list = []
        creations(f.node.body, False, cr)
        for st, in_loop in cr:
            n += 1
            res.instances.append(f'{f.key}: identity set created at L{st.lineno} '
                                 f'in_loop={in_loop}')
            if in_loop:
                res.fail(finding('R01.3', f, st, 'identity set inside loop',
                                 f'select of {sym!r}: the set of already returned nodes is '
                                 f're-created inside the loop over the context items, so a '
                                 f'node reachable from two of them (nested same-name elements, '
                                 f'reverse axes) is returned more than once'))
            else:
                res.ok()
        # (b) yields dominated by the membership test
        cfg = CFG(f.node)
        facts = branch_facts(cfg)
        for nd in cfg.nodes:
            if nd.kind != 'stmt' or not isinstance(nd.ast, ast.Expr) \
                    or not isinstance(nd.ast.value, ast.Yield):
                continue
            v = nd.ast.value.value
            if not isinstance(v, ast.Name):
                continue
            fs = facts[nd.id]
            name = v.id
            if f'-isinstance({name}, XPathNode)' in fs:
                continue                    # atomic values are not de-duplicated
            n += 1
            tested = any(fact == f'-{name} in {s_}' for fact in fs for s_ in sets)
            res.instances.append(f'{f.key}: yield {name} at L{nd.lineno} after membership '
                                 f'test={tested}')
            if tested:
                res.ok()
            else:
                res.fail(finding('R01.3', f, nd.ast, f'yield {name} unchecked',
                                 f'select of {sym!r} yields `{name}` on a path on which it was '
                                 f'not tested against the set of already returned nodes'))
    counts['dedup_obligations'] = n
    return res


def run(ctx) -> dict:
    counts: dict[str, int] = {}
    results = [r01_1(ctx, counts), r01_2(ctx, counts), r01_3(ctx, counts)]
    # document order of '|' and of the leading '//' (accumulated results are yielded sorted)
    from .c02_trees import r02_3
    results.append(r02_3(ctx, counts))
    # predicates are evaluated for every item of the step
    from .c08_sequences import r08_5
    results.append(r08_5(ctx, counts))
    return {
        'results': results, 'counts': counts,
        'explanation':
            'Decided statically: (1) focus restoration — on the CFG of every context axis '
            'iterator and select_with_focus, each focus attribute that is written is saved '
            'before and restored on every path to the normal exit; (2) the axis table — the 13 '
            'axes are registered in every parser version with the direction of the '
            'specification, each is wired to the matching context iterator, iterators set '
            'context.axis, and reverse axes are numbered from the far end with size = length '
            'of the materialised list.',
        'not_decided':
            'That composed paths are duplicate-free and in document order, equality with '
            'libxml2 and across parser versions, predicate semantics: these depend on the data '
            'flowing through the generators.',
        'assumptions': ['sa/specs/axes.json transcribes the axis directions of the '
                        'specification', 'exits by exception or GeneratorExit are out of scope'],
    }
