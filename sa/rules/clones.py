"""
Shared rule CLONE-CONSISTENCY (copy-paste consistency, after CP-Miner / Engler's "deviant
behaviour"): two sibling blocks of one function that have the same syntactic shape up to
identifier names are clones of one another under a renaming (major_* -> minor_*, value1 ->
value2 …). The renaming must be a function and injective on the identifiers that are renamed
at all: if `major_next_cp -> minor_next_cp` in three places and, in a fourth, the first block
uses `minor_next_cp` where the second block also has `minor_next_cp`, one occurrence was left
behind when the block was copied.
"""
from __future__ import annotations

import ast
import collections

from ..engine.srcmodel import walk_local, stmt_text
from ..engine.report import RuleResult
from .common import finding

SKIP_FIELDS = ('ctx', 'lineno', 'col_offset', 'end_lineno', 'end_col_offset', 'type_comment')


def shape(n):
    if isinstance(n, ast.Name):
        return 'N'
    if isinstance(n, ast.Attribute):
        return ('A', shape(n.value), n.attr if isinstance(n.value, ast.Name) and
                n.value.id == 'self' else 'a')
    if isinstance(n, ast.Constant):
        return ('C', repr(n.value))
    if isinstance(n, ast.AST):
        return (type(n).__name__,) + tuple(shape(getattr(n, f)) for f in n._fields
                                           if f not in SKIP_FIELDS)
    if isinstance(n, list):
        return tuple(shape(x) for x in n)
    return n


def idents(n, out: list) -> None:
    if isinstance(n, ast.Name):
        out.append((n.id, n))
        return
    if isinstance(n, ast.Attribute):
        idents(n.value, out)
        if not (isinstance(n.value, ast.Name) and n.value.id == 'self'):
            out.append(('.' + n.attr, n))
        return
    if isinstance(n, ast.AST):
        for f in n._fields:
            if f not in SKIP_FIELDS:
                idents(getattr(n, f), out)
    elif isinstance(n, list):
        for x in n:
            idents(x, out)


def clone_rule(ctx, rule_id: str, in_scope, counts: dict[str, int], min_nodes: int = 12) -> RuleResult:
    model = ctx.model
    res = RuleResult(
        rule_id, 'CLONE-CONSISTENCY',
        'For every pair of sibling blocks of one function (two statements of the same block at '
        'distance <= 2, or the bodies of two such compound statements) that have the same '
        'syntactic shape up to identifier names and differ in at least two identifiers: the '
        'positional identifier mapping from the first block to the second is a function and is '
        'injective on the renamed identifiers. A violation is an identifier left behind by copy '
        'and paste (the major-category run closed on the minor-category counter).')
    pairs = 0
    for f in sorted(model.all_functions(), key=lambda q: q.key):
        if not in_scope(f):
            continue
        seen: set[tuple[int, int]] = set()
        for blk in ast.walk(f.node):
            for field in ('body', 'orelse', 'finalbody'):
                stmts = getattr(blk, field, None)
                if not isinstance(stmts, list):
                    continue
                for i in range(len(stmts)):
                    for j in range(i + 1, min(i + 3, len(stmts))):
                        a, b = stmts[i], stmts[j]
                        cands = [(a, b)]
                        if isinstance(a, (ast.If, ast.For, ast.While, ast.With, ast.Try)) and \
                                type(a) is type(b):
                            cands.append((a.body, b.body))
                            if getattr(a, 'orelse', None) and getattr(b, 'orelse', None):
                                cands.append((a.orelse, b.orelse))
                            if len(a.body) == len(b.body):
                                cands.extend(zip(a.body, b.body))   # statement by statement
                        for x, y in cands:
                            size = sum(1 for _ in (ast.walk(x) if isinstance(x, ast.AST) else
                                                   (n for s in x for n in ast.walk(s))))
                            if size < min_nodes or shape(x) != shape(y):
                                continue
                            ia: list = []
                            ib: list = []
                            idents(x, ia)
                            idents(y, ib)
                            if [n for n, _ in ia] == [n for n, _ in ib]:
                                continue
                            key = (id(ia[0][1]) if ia else 0, id(ib[0][1]) if ib else 0)
                            if key in seen:
                                continue
                            seen.add(key)
                            fwd = collections.defaultdict(collections.Counter)
                            for (p, pn), (q, qn) in zip(ia, ib):
                                fwd[p][q] += 1
                            renamed = {p: next(iter(cn)) for p, cn in fwd.items()
                                       if len(cn) == 1 and next(iter(cn)) != p}
                            if len(renamed) < 2:
                                continue            # not a systematic renaming
                            pairs += 1
                            line_a = x.lineno if isinstance(x, ast.AST) else x[0].lineno
                            line_b = y.lineno if isinstance(y, ast.AST) else y[0].lineno
                            problems = []
                            for p, cn in fwd.items():
                                if len(cn) > 1:
                                    problems.append((p, dict(cn)))
                            back = collections.defaultdict(set)
                            for p, cn in fwd.items():
                                for q in cn:
                                    back[q].add(p)
                            for q, ps in back.items():
                                if len(ps) > 1 and any(renamed.get(p) == q for p in ps):
                                    problems.append((q, sorted(ps)))
                            # systematic stem renaming (major -> minor): an identifier of the
                            # target family that is shared unchanged by both blocks was left
                            # behind when the first block was derived from the second (or v.v.)
                            stems = set()
                            for p_, q_ in renamed.items():
                                ta, tb = p_.split('_'), q_.split('_')
                                diff = [(x_, y_) for x_, y_ in zip(ta, tb) if x_ != y_]
                                if len(ta) == len(tb) and len(diff) == 1 and len(ta) > 1:
                                    stems.add(diff[0])
                                    continue
                                i0 = 0
                                while i0 < min(len(p_), len(q_)) and p_[i0] == q_[i0]:
                                    i0 += 1
                                j0 = 0
                                while j0 < min(len(p_), len(q_)) - i0 and p_[-1 - j0] == q_[-1 - j0]:
                                    j0 += 1
                                stems.add((p_[i0:len(p_) - j0], q_[i0:len(q_) - j0]))
                            if len(stems) == 1:
                                (s_from, s_to), = stems
                                if len(s_from) >= 2 and len(s_to) >= 2:
                                    for p_, cn in fwd.items():
                                        if list(cn) == [p_] and (
                                                (s_to in p_ and s_from not in p_) or
                                                (s_from in p_ and s_to not in p_)):
                                            problems.append((p_, f'unchanged in both blocks although '
                                                             f'{s_from!r} -> {s_to!r} elsewhere'))
                            res.instances.append(
                                f'{f.key}: clones at L{line_a}/L{line_b} under '
                                f'{dict(sorted(renamed.items()))}: consistent={not problems}')
                            if not problems:
                                res.ok()
                            else:
                                node = x if isinstance(x, ast.AST) else x[0]
                                res.fail(finding(
                                    rule_id, f, node, f'clone L{line_a}/L{line_b} {problems[0][0]}',
                                    f'the blocks at lines {line_a} and {line_b} are clones under the '
                                    f'renaming {dict(sorted(renamed.items()))}, but the mapping is '
                                    f'inconsistent at {problems[:2]}: an identifier of the other '
                                    f'block was left behind by copy and paste'))
    counts[f'{rule_id}.clone_pairs'] = pairs
    return res
