"""Helpers shared by rule modules."""
from __future__ import annotations

import ast
from typing import Iterator, Optional

from ..engine.srcmodel import FuncInfo, Model, Module, dotted, stmt_text, walk_local
from ..engine.report import Finding


def finding(rule: str, f: Optional[FuncInfo], node: Optional[ast.AST], construct: str,
            message: str, path: Optional[list[str]] = None,
            module: Optional[Module] = None) -> Finding:
    mod = f.module if f is not None else module
    assert mod is not None
    return Finding(rule=rule, module=mod.relpath, function=f.qualname if f else '',
                   construct=construct, message=message,
                   line=getattr(node, 'lineno', f.node.lineno if f else 0),
                   path=path or [])


def calls_in(node: ast.AST, local: bool = True) -> Iterator[ast.Call]:
    it = walk_local(node) if local else ast.walk(node)
    for n in it:
        if isinstance(n, ast.Call):
            yield n


def enclosing_map(func: ast.AST) -> dict[int, list[ast.AST]]:
    """id(node) -> chain of enclosing statements (outermost first), within one function."""
    out: dict[int, list[ast.AST]] = {}

    def visit(n: ast.AST, chain: list[ast.AST]) -> None:
        out[id(n)] = chain
        if isinstance(n, (ast.FunctionDef, ast.AsyncFunctionDef, ast.Lambda, ast.ClassDef)) \
                and n is not func:
            return
        sub = chain + [n] if isinstance(n, ast.stmt) or isinstance(n, ast.ExceptHandler) \
            else chain
        for c in ast.iter_child_nodes(n):
            visit(c, sub)
    visit(func, [])
    return out


def try_context(func: ast.AST) -> dict[int, list[tuple[ast.Try, str]]]:
    """id(node) -> list of (Try, part) enclosing it, part in body/handler/orelse/finalbody."""
    out: dict[int, list[tuple[ast.Try, str]]] = {}

    def visit(n: ast.AST, chain: list[tuple[ast.Try, str]]) -> None:
        out[id(n)] = chain
        if isinstance(n, (ast.FunctionDef, ast.AsyncFunctionDef, ast.Lambda, ast.ClassDef)) \
                and n is not func:
            return
        if isinstance(n, ast.Try):
            for s in n.body:
                visit(s, chain + [(n, 'body')])
            for h in n.handlers:
                out[id(h)] = chain
                if h.type is not None:
                    visit(h.type, chain)
                for s in h.body:
                    visit(s, chain + [(n, 'handler')])
            for s in n.orelse:
                visit(s, chain + [(n, 'orelse')])
            for s in n.finalbody:
                visit(s, chain + [(n, 'finalbody')])
            return
        for c in ast.iter_child_nodes(n):
            visit(c, chain)
    visit(func, [])
    return out


def handler_names(model: Model, mod: Module, h: ast.ExceptHandler) -> list[str]:
    """Exception class names (last dotted component kept with its module prefix) of a handler."""
    if h.type is None:
        return ['BaseException']
    elts = h.type.elts if isinstance(h.type, ast.Tuple) else [h.type]
    out = []
    for e in elts:
        if isinstance(e, (ast.Name, ast.Attribute)):
            kind, val = model.resolve_expr(mod, e)
            if kind == 'const':
                # alias to a tuple of exception classes
                m2, e2 = val
                if isinstance(e2, ast.Tuple):
                    for x in e2.elts:
                        out.append(dotted(x).split('.')[-1])
                    continue
            out.append(dotted(e))
        else:
            out.append(stmt_text(e))
    return out


def is_name(e: ast.AST, name: str) -> bool:
    return isinstance(e, ast.Name) and e.id == name


def func_by_qualname(model: Model, module: str, qualname: str) -> FuncInfo:
    from ..engine.srcmodel import AnalysisError
    m = model.module(module)
    f = m.functions.get(qualname)
    if f is None:
        raise AnalysisError(f'anchor function {module}:{qualname} vanished')
    return f


def operand_helper_calls(model, f, operands: set[str]):
    """
    One level of helper extraction: calls in `f` to a package function (module-level, resolved
    through the imports) that receive an evaluated operand as a positional argument. Yields
    (call, helper FuncInfo, {helper parameter -> operand name}).
    """
    for n in walk_local(f.node):
        if not isinstance(n, ast.Call) or not isinstance(n.func, (ast.Name, ast.Attribute)):
            continue
        kind, h = model.resolve_expr(f.module, n.func)
        if kind != 'func' or h is f or h.cls is not None:
            continue
        params = h.params()
        binding = {}
        for i, a in enumerate(n.args):
            if isinstance(a, ast.Name) and a.id in operands and i < len(params):
                binding[params[i]] = a.id
        if binding:
            yield n, h, binding


def bool_temporaries(f) -> dict[str, ast.expr]:
    """Names of `f` assigned exactly once from a boolean-valued expression (named
    sub-conditions): name -> defining expression."""
    defs: dict[str, list[ast.expr]] = {}
    for st in walk_local(f.node):
        if isinstance(st, ast.Assign) and len(st.targets) == 1 and isinstance(st.targets[0], ast.Name):
            defs.setdefault(st.targets[0].id, []).append(st.value)
        elif isinstance(st, (ast.AnnAssign, ast.AugAssign)) and isinstance(st.target, ast.Name):
            defs.setdefault(st.target.id, []).append(getattr(st, 'value', None))
    out = {}
    for name, vals in defs.items():
        if len(vals) == 1 and isinstance(vals[0], (ast.BoolOp, ast.Compare, ast.UnaryOp, ast.Call)):
            v = vals[0]
            if isinstance(v, ast.Call) and dotted(v.func) not in ('isinstance', 'callable', 'hasattr',
                                                                  'any', 'all', 'bool'):
                continue
            out[name] = v
    return out


def expand_bool_temporaries(f, expr: ast.expr, depth: int = 0) -> list[ast.AST]:
    """All nodes of `expr` plus, for every Name that is a named sub-condition of `f`, the nodes
    of its definition (transitively)."""
    temps = bool_temporaries(f)
    out: list[ast.AST] = []
    seen: set[str] = set()

    def visit(e: ast.AST, d: int) -> None:
        for x in ast.walk(e):
            out.append(x)
            if isinstance(x, ast.Name) and x.id in temps and x.id not in seen and d < 4:
                seen.add(x.id)
                visit(temps[x.id], d + 1)
    visit(expr, depth)
    return out


def established_class(func_node: ast.AST, node: ast.AST, name: str, class_suffix: str) -> bool:
    """`node` lies in a region where `name` is established to be an instance of a class whose
    dotted name ends with `class_suffix`: the body of `if isinstance(name, C)` or of
    `match name: case C():`."""
    for st in ast.walk(func_node):
        if isinstance(st, ast.If):
            if any(y is node for b in st.body for y in ast.walk(b)) and any(
                    isinstance(t, ast.Call) and dotted(t.func) == 'isinstance' and len(t.args) == 2
                    and isinstance(t.args[0], ast.Name) and t.args[0].id == name
                    and any(dotted(e).split('.')[-1] == class_suffix for e in (
                        t.args[1].elts if isinstance(t.args[1], ast.Tuple) else [t.args[1]]))
                    for t in ast.walk(st.test)):
                return True
        elif isinstance(st, ast.Match) and isinstance(st.subject, ast.Name) and st.subject.id == name:
            for case in st.cases:
                if any(y is node for b in case.body for y in ast.walk(b)):
                    pats = case.pattern.patterns if isinstance(case.pattern, ast.MatchOr) \
                        else [case.pattern]
                    if pats and all(isinstance(p, ast.MatchClass)
                                    and dotted(p.cls).split('.')[-1] == class_suffix for p in pats):
                        return True
    return False
