"""
C05 — evaluation is pure; variable bindings are lexically scoped (effect discipline).

R05.1 TREE-IMMUTABLE     dynamic-phase code does not store into token (syntax tree) state
R05.2 VARIABLE-SCOPE     writes to <ctx>.variables are dominated by a copy of the dict
R05.3 OPERAND-IMMUTABLE  no store/mutation on values obtained from operands
R05.4 INPUT-TREE         no mutation of the input XML tree
"""
from __future__ import annotations

import ast
from typing import Optional

from ..engine.srcmodel import AnalysisError, ClassInfo, FuncInfo, Model, dotted, stmt_text, \
    walk_local
from ..engine.cfg import CFG, Node, calls_may_raise, node_writes
from ..engine.taint import Taint, State
from ..engine.dataflow import branch_facts, feasible_edges
from ..engine.callgraph import CallGraph
from ..engine.report import RuleResult
from .common import finding

LIST_MUTATORS = {'append', 'extend', 'insert', 'pop', 'remove', 'clear', 'sort', 'reverse',
                 'update', 'setdefault', 'popitem', 'add', 'discard'}
ETREE_MUTATORS = {'set', 'append', 'remove', 'insert', 'clear', 'extend', 'addnext',
                  'addprevious', 'replace'}
OPERAND_SOURCES = {'get_argument', 'get_operands', 'get_atomized_operand', 'atomization',
                   'evaluate', 'data_value'}


def phases(ctx):
    cg: CallGraph = ctx.memo('callgraph', lambda: CallGraph(ctx.model, ctx.reg))
    dyn, par = ctx.memo('phases', lambda: cg.phases())
    return cg, dyn, par


def token_self(model: Model, cg: CallGraph, f: FuncInfo) -> Optional[str]:
    """Name of the parameter that denotes the token the function runs on, if any."""
    tok = cg.tdop_token
    top = f
    while top.parent is not None:
        top = top.parent
    params = top.params()
    if not params:
        return None
    if top in cg.bound:
        return params[0]
    if top.cls is not None and top.cls.is_subclass_of(tok) and params[0] == 'self':
        return 'self'
    return None


def fresh_names(f: FuncInfo, model: Model) -> dict[str, str]:
    """local name -> 'fresh' (constructed here) | 'shallow' (copy(x))."""
    out: dict[str, str] = {}
    for n in walk_local(f.node):
        if isinstance(n, (ast.Assign, ast.AnnAssign)) and isinstance(n.value, ast.Call):
            tg = n.targets[0] if isinstance(n, ast.Assign) else n.target
            if not isinstance(tg, ast.Name):
                continue
            fn = dotted(n.value.func)
            if fn in ('copy', 'copy.copy'):
                out[tg.id] = 'shallow'
            elif isinstance(n.value.func, (ast.Name, ast.Attribute)):
                kind, val = model.resolve_expr(f.module, n.value.func)
                if kind == 'class':
                    out[tg.id] = 'fresh'
                elif fn.endswith('token_class') or fn.endswith('_class') or fn == 'cls':
                    out[tg.id] = 'fresh'
                elif isinstance(n.value.func, ast.Subscript):
                    out[tg.id] = 'fresh'
        if isinstance(n, (ast.Assign, ast.AnnAssign)) and isinstance(n.value, ast.Call) \
                and isinstance(n.value.func, ast.Subscript) \
                and 'symbol_table' in stmt_text(n.value.func):
            tg = n.targets[0] if isinstance(n, ast.Assign) else n.target
            if isinstance(tg, ast.Name):
                out[tg.id] = 'fresh'
    return out


def r05_1(ctx, counts, only: Optional[set[str]] = None, rule: str = 'R05.1') -> RuleResult:
    model: Model = ctx.model
    cg, dyn, par = phases(ctx)
    res = RuleResult(
        rule, 'TREE-IMMUTABLE',
        'In every dynamic-phase function (reachable from evaluate/select/cast/__call__ of a '
        'token; parse-phase nud/led and __init__ excluded) a store whose target is token state '
        'is a violation: `self.X = …`, `self[i] = …`/slice, `del self[…]`, '
        '`self._items.<mutator>()`, `self.clear()/append()/…`, `setattr(self, …)`, and the same '
        'on a child or argument token (`self[k].X = …`, `tk.value = …` for tk iterating self). '
        'Objects constructed in the function are fresh and may be written; `copy(x)` is a '
        'shallow copy: rebinding its attributes is allowed, mutating its inherited item list '
        '(`c[:] = …`, `c.clear()`) is not. Named caches are listed in sa/allow.json.')
    nfun = nsites = 0
    slot_roots = cg.slot_funcs['nud'] | cg.slot_funcs['led']
    for f in sorted(dyn, key=lambda q: q.key):
        if f in slot_roots or f.name in ('__init__', '__new__', 'nud', 'led'):
            continue
        if f in par and f not in cg.reachable(cg.dynamic_roots() - slot_roots):
            continue
        me = token_self(model, cg, f)
        if me is None:
            continue
        if only is not None and not any(f.key.endswith(x) or x in f.key for x in only):
            continue
        nfun += 1
        fresh = fresh_names(f, model)
        child_vars: set[str] = set()
        def children_expr(e: ast.AST) -> bool:
            """e denotes the token's own operands: self, self[a:b], self._items, or a
            zip/filter/enumerate/reversed over those."""
            t = stmt_text(e)
            if t in (me, f'{me}._items'):
                return True
            if isinstance(e, ast.Subscript) and stmt_text(e.value) in (me, f'{me}._items') \
                    and isinstance(e.slice, ast.Slice):
                return True
            if isinstance(e, ast.Call) and dotted(e.func) in ('zip', 'filter', 'enumerate',
                                                              'reversed', 'iter'):
                return any(children_expr(a) for a in e.args)
            return False
        for n in walk_local(f.node):
            if isinstance(n, (ast.For, ast.comprehension)):
                if children_expr(n.iter):
                    for x in ast.walk(n.target):
                        if isinstance(x, ast.Name):
                            child_vars.add(x.id)

        def is_token_expr(e: ast.AST) -> Optional[str]:
            """'self' | 'child' if e denotes this token or one of its child tokens."""
            t = stmt_text(e)
            if t == me:
                return 'self'
            if isinstance(e, ast.Subscript) and stmt_text(e.value) in (me, f'{me}._items'):
                return 'child'
            if isinstance(e, ast.Name) and e.id in child_vars:
                return 'child'
            return None

        found = []
        for n in walk_local(f.node):
            # attribute stores
            tgts: list[ast.AST] = []
            if isinstance(n, ast.Assign):
                for t in n.targets:
                    tgts.extend(t.elts if isinstance(t, (ast.Tuple, ast.List)) else [t])
            elif isinstance(n, (ast.AugAssign, ast.AnnAssign)):
                if not (isinstance(n, ast.AnnAssign) and n.value is None):
                    tgts = [n.target]
            elif isinstance(n, ast.Delete):
                tgts = list(n.targets)
            elif isinstance(n, ast.For):
                tgts = [x for x in ast.walk(n.target) if isinstance(x, (ast.Attribute,
                                                                        ast.Subscript))]
            for t in tgts:
                if isinstance(t, ast.Attribute):
                    who = is_token_expr(t.value)
                    if who:
                        found.append((n, f'{who}.{t.attr} store',
                                      f'`{stmt_text(t)} = …` writes attribute `{t.attr}` of '
                                      f'{"the token" if who == "self" else "a child token"}'))
                    elif isinstance(t.value, ast.Attribute) and t.value.attr == '_items' \
                            and is_token_expr(t.value.value):
                        pass
                elif isinstance(t, ast.Subscript) and (
                        (isinstance(t.value, ast.Attribute) and t.value.attr == '__dict__'
                         and is_token_expr(t.value.value)) or
                        (isinstance(t.value, ast.Call) and dotted(t.value.func) == 'vars'
                         and t.value.args and is_token_expr(t.value.args[0]))):
                    key = stmt_text(t.slice).strip('\'"')
                    found.append((n, f'self.{key} store',
                                  f'`{stmt_text(t)} = …` writes attribute `{key}` of the token '
                                  f'through its __dict__'))
                elif isinstance(t, ast.Subscript):
                    base = t.value
                    who = is_token_expr(base)
                    if who == 'self' or (isinstance(base, ast.Attribute) and base.attr == '_items'
                                         and is_token_expr(base.value)):
                        found.append((n, 'items store',
                                      f'`{stmt_text(t)}` replaces operands of the token'))
                    elif isinstance(base, ast.Name) and fresh.get(base.id) == 'shallow':
                        found.append((n, f'{base.id}[] store on shallow copy',
                                      f'`{stmt_text(t)} = …`: {base.id} is a shallow copy, its '
                                      f'item list is shared with the original token'))
            if isinstance(n, ast.Call) and isinstance(n.func, ast.Attribute):
                recv = n.func.value
                if n.func.attr in LIST_MUTATORS:
                    who = is_token_expr(recv)
                    if who:
                        found.append((n, f'{who}.{n.func.attr}()',
                                      f'`{stmt_text(n)[:50]}` mutates the operand list of '
                                      f'{"the token" if who == "self" else "a child token"}'))
                    elif isinstance(recv, ast.Attribute) and recv.attr in ('_items', '_values') \
                            and is_token_expr(recv.value):
                        found.append((n, f'_items.{n.func.attr}()',
                                      f'`{stmt_text(n)[:50]}` mutates the operand list of the '
                                      f'token'))
                    elif isinstance(recv, ast.Name) and fresh.get(recv.id) == 'shallow' \
                            and n.func.attr in ('clear', 'append', 'extend', 'insert', 'pop',
                                                'remove'):
                        found.append((n, f'{recv.id}.{n.func.attr}() on shallow copy',
                                      f'`{stmt_text(n)[:50]}`: {recv.id} is a shallow copy; its '
                                      f'item list is shared with the original token'))
            if isinstance(n, ast.Call) and isinstance(n.func, ast.Attribute) and \
                    n.func.attr in ('update', 'setdefault', 'pop', 'clear') and \
                    isinstance(n.func.value, ast.Attribute) and n.func.value.attr == '__dict__' \
                    and is_token_expr(n.func.value.value):
                found.append((n, f'__dict__.{n.func.attr}()',
                              f'`{stmt_text(n)[:50]}` rewrites attributes of the token through '
                              f'its __dict__'))
            if isinstance(n, ast.Call) and dotted(n.func) in ('setattr', 'object.__setattr__') \
                    and n.args and is_token_expr(n.args[0]):
                nm = stmt_text(n.args[1]) if len(n.args) > 1 else '?'
                found.append((n, f'setattr {nm}',
                              f'`{stmt_text(n)[:50]}` rebinds {nm} on the token instance'))
        nsites += len(found)
        res.instances.append(f'{f.key}: token={me}, {len(found)} store(s) into token state')
        if not found:
            res.ok()
        for node, construct, msg in found:
            res.fail(finding(rule, f, node, construct,
                             msg + ': evaluation changes the syntax tree, so a second '
                                   'evaluation (or another holder of the same token) observes '
                                   'state of the first'))
        if found and len(res.samples) < 10:
            res.samples.append({'rule': rule, 'function': f.key,
                                'stores': [c for _, c, _ in found]})
    counts[f'{rule}_functions'] = nfun
    counts[f'{rule}_store_sites'] = nsites
    return res


def r05_2(ctx, counts) -> RuleResult:
    model: Model = ctx.model
    cg, dyn, par = phases(ctx)
    res = RuleResult(
        'R05.2', 'VARIABLE-SCOPE',
        'Every write to <ctx>.variables in a dynamic-phase function (`<ctx>.variables[k] = …`, '
        '.update(), .pop(), del, or passing varnames to iter_product, which stores into '
        'self.variables) is dominated in the same function by `<ctx>.variables = '
        '<…>.variables.copy()` (or dict(…)) on the same context name. copy(context) does not '
        'count: XPathContext.__copy__ is re-read on every run and shares the variables dict.')
    xc = model.find_class('XPathContext')
    cp = xc.methods.get('__copy__')
    if cp is None:
        raise AnalysisError('XPathContext.__copy__ vanished')
    shares = any(isinstance(n, ast.Assign) and stmt_text(n) == 'obj.variables = self.variables'
                 for n in walk_local(cp.node))
    copies = any(isinstance(n, ast.Assign) and 'variables' in stmt_text(n.targets[0])
                 and ('.copy()' in stmt_text(n.value) or 'dict(' in stmt_text(n.value))
                 for n in walk_local(cp.node) if isinstance(n, ast.Assign))
    res.notes.append(f'XPathContext.__copy__ shares variables={shares} copies={copies}')
    if not shares and not copies:
        raise AnalysisError('XPathContext.__copy__: handling of `variables` not recognised')
    n = 0
    for f in sorted(dyn, key=lambda q: q.key):
        if f.cls is xc and f.name in ('__init__', '__copy__'):
            continue
        writes = []
        aliases: dict[str, str] = {}       # local name -> context expression it aliases
        for x in walk_local(f.node):
            if isinstance(x, (ast.Assign, ast.AnnAssign)) and isinstance(x.value, ast.Attribute) \
                    and x.value.attr == 'variables':
                tg = x.targets[0] if isinstance(x, ast.Assign) else x.target
                if isinstance(tg, ast.Name):
                    aliases[tg.id] = dotted(x.value.value)
        for x in walk_local(f.node):
            if isinstance(x, (ast.Assign, ast.AugAssign, ast.Delete)):
                tg_ = x.targets if isinstance(x, (ast.Assign, ast.Delete)) else [x.target]
                for t in tg_:
                    if isinstance(t, ast.Subscript) and isinstance(t.value, ast.Name) \
                            and t.value.id in aliases:
                        writes.append((x, aliases[t.value.id]))
            if isinstance(x, ast.Call) and isinstance(x.func, ast.Attribute) \
                    and x.func.attr in ('update', 'pop', 'setdefault', 'clear', 'popitem') \
                    and isinstance(x.func.value, ast.Name) and x.func.value.id in aliases:
                writes.append((x, aliases[x.func.value.id]))
        for x in walk_local(f.node):
            if isinstance(x, (ast.Assign, ast.AugAssign, ast.Delete)):
                tg = x.targets if isinstance(x, (ast.Assign, ast.Delete)) else [x.target]
                for t in tg:
                    if isinstance(t, ast.Subscript) and isinstance(t.value, ast.Attribute) \
                            and t.value.attr == 'variables':
                        writes.append((x, dotted(t.value.value)))
            if isinstance(x, ast.Call) and isinstance(x.func, ast.Attribute) \
                    and x.func.attr in ('update', 'pop', 'setdefault', 'clear', 'popitem') \
                    and isinstance(x.func.value, ast.Attribute) \
                    and x.func.value.attr == 'variables':
                writes.append((x, dotted(x.func.value.value)))
            if isinstance(x, ast.Call) and isinstance(x.func, ast.Attribute) \
                    and x.func.attr == 'iter_product' and len(x.args) + len(x.keywords) >= 2:
                recv = x.func.value
                name = dotted(recv.args[0]) if isinstance(recv, ast.Call) and \
                    dotted(recv.func) == 'copy' and recv.args else dotted(recv)
                writes.append((x, name))
        if not writes:
            continue
        if copies and not shares:
            for w, name in writes:
                n += 1
                res.ok()
            continue
        cfg = CFG(f.node, calls_may_raise)
        facts = branch_facts(cfg)
        for w, name in writes:
            n += 1
            holder = [c for c in cfg.nodes if any(y is w for y in c.walk()) or c.ast is w]
            if not holder:
                raise AnalysisError(f'{f.key}: variables write not located in the CFG')

            def is_copy(c: Node, name=name) -> bool:
                for tgt, val in node_writes(c):
                    if tgt == f'{name}.variables' and isinstance(val, ast.AST):
                        t = stmt_text(val)
                        if t.endswith('.variables.copy()') or t.startswith('dict(') \
                                or isinstance(val, ast.Dict) or t.startswith('{**'):
                            return True
                return False
            own = name == 'self' and f.cls is not None and f.cls.is_subclass_of(xc)
            ok = cfg.dominated_by(holder[0], is_copy,
                                  edge_ok=feasible_edges(cfg, holder[0], facts))
            res.instances.append(f'{f.key}: write to {name}.variables at L{w.lineno} '
                                 f'copy-dominated={ok}')
            if not ok and f.parent is not None and name.split('.')[0] not in f.params():
                # a nested function writing through a context captured from the enclosing
                # function: the copy must dominate the nested definition there
                outer = f.parent
                ocfg = CFG(outer.node, calls_may_raise)
                dn = [c for c in ocfg.nodes if c.ast is f.node]
                if dn:
                    ofacts = branch_facts(ocfg)
                    ok = ocfg.dominated_by(dn[0], is_copy,
                                           edge_ok=feasible_edges(ocfg, dn[0], ofacts))
                    if ok:
                        res.instances[-1] += f' [copy in the enclosing {outer.name}]'
            if ok:
                res.ok()
            elif own:
                # a context method writing its own dict: the obligation moves to its callers
                res.instances[-1] += ' [context method: checked at call sites]'
                res.ok()
            else:
                res.fail(finding('R05.2', f, w, f'{name}.variables write',
                                 f'`{stmt_text(w)[:60]}` binds a variable in a dictionary that '
                                 f'was not copied first: copy(context) shares `variables`, so '
                                 f'the binding leaks into the caller\'s scope and outlives the '
                                 f'expression'))
    counts['variables_writes'] = n
    return res


def r05_3(ctx, counts) -> RuleResult:
    model: Model = ctx.model
    cg, dyn, par = phases(ctx)
    res = RuleResult(
        'R05.3', 'OPERAND-IMMUTABLE',
        'In dynamic-phase functions, a value that flows (local def-use, tuple unpacking '
        'included) from get_argument/get_operands/get_atomized_operand/atomization/data_value, '
        'from the evaluate() of an operand token (a variable reference may hand out the bound '
        'value itself), from context.item or from context.variables[…] is not mutated: no attribute store, no '
        'subscript store, no list/dict mutator call on it. Values rebound to a converted copy '
        '(op = f(op)) lose the taint.')
    n = 0
    for f in sorted(dyn, key=lambda q: q.key):
        srcs = [x for x in walk_local(f.node) if isinstance(x, ast.Call)
                and dotted(x.func).split('.')[-1] in OPERAND_SOURCES]
        if not srcs:
            continue
        cfg = CFG(f.node, calls_may_raise)

        def expr_taint(e: ast.AST, st: State, nd: Node) -> set[str]:
            if isinstance(e, ast.Call) and dotted(e.func).split('.')[-1] in OPERAND_SOURCES:
                return {'operand'}
            if isinstance(e, ast.Attribute) and dotted(e).endswith('context.item'):
                return {'operand'}
            if isinstance(e, ast.Subscript) and isinstance(e.value, ast.Attribute) \
                    and e.value.attr == 'variables':
                return {'operand'}
            return set()

        def iter_taint(e: ast.AST, st: State, nd: Node) -> set[str]:
            out = set(expr_taint(e, st, nd))
            if isinstance(e, ast.Name) and 'operand' in st.get(e.id, ()):
                out.add('operand')
            if isinstance(e, (ast.Tuple, ast.List)):
                # `for op in (op1, op2)`: the loop variable is each of the operand values
                for el in e.elts:
                    out |= iter_taint(el, st, nd)
            return out

        T = Taint.__new__(Taint)
        T.cfg, T.expr_taint, T.iter_taint, T.state_in = cfg, expr_taint, iter_taint, {}
        T._run()
        n += 1
        bad = []
        for nd in cfg.nodes:
            st = T.at(nd)
            a = nd.ast
            if nd.kind == 'stmt' and isinstance(a, (ast.Assign, ast.AugAssign)):
                tg = a.targets if isinstance(a, ast.Assign) else [a.target]
                for t in tg:
                    for x in (t.elts if isinstance(t, (ast.Tuple, ast.List)) else [t]):
                        if isinstance(x, (ast.Attribute, ast.Subscript)) \
                                and isinstance(x.value, ast.Name) \
                                and 'operand' in st.get(x.value.id, ()):
                            bad.append((a, f'{stmt_text(x)[:30]} store'))
            for x in nd.walk():
                if isinstance(x, ast.Call) and isinstance(x.func, ast.Attribute) \
                        and x.func.attr in LIST_MUTATORS and isinstance(x.func.value, ast.Name) \
                        and 'operand' in st.get(x.func.value.id, ()):
                    bad.append((x, f'{x.func.value.id}.{x.func.attr}()'))
        res.instances.append(f'{f.key}: {len(srcs)} operand source(s), {len(bad)} mutation(s)')
        if not bad:
            res.ok()
        for node, c in bad:
            res.fail(finding('R05.3', f, node, c,
                             f'`{stmt_text(node)[:60]}` mutates a value obtained from an '
                             f'operand/argument: the caller\'s value (a variable, a node\'s typed '
                             f'value, a literal kept in the token tree) changes'))
    counts['operand_functions'] = n
    return res


def r05_4(ctx, counts) -> RuleResult:
    model: Model = ctx.model
    cg, dyn, par = phases(ctx)
    res = RuleResult(
        'R05.4', 'INPUT-TREE',
        'No dynamic-phase function calls an ElementTree mutator (set/append/remove/insert/'
        'clear/extend/…) or stores text/tail/attrib on the element wrapped by a node '
        '(`<node>.value`, `<node>.elem`, context.root.value, …), and no function of '
        'xpath_nodes.py / tree_builders.py stores into the wrapped element. Elements built by '
        'the function itself (etree.XML/Element/SubElement results) are exempt.')
    n = hits = 0
    scope = [f for f in model.all_functions()
             if f in dyn or f.module.name in ('elementpath.xpath_nodes',
                                              'elementpath.tree_builders')]
    for f in scope:
        n += 1
        built = set()
        for x in walk_local(f.node):
            if isinstance(x, (ast.Assign, ast.AnnAssign)) and isinstance(x.value, ast.Call):
                fn = dotted(x.value.func)
                if fn.split('.')[-1] in ('XML', 'Element', 'SubElement', 'fromstring',
                                         'ElementTree', 'Comment', 'ProcessingInstruction',
                                         'makeelement', 'deepcopy'):
                    tg = x.targets[0] if isinstance(x, ast.Assign) else x.target
                    if isinstance(tg, ast.Name):
                        built.add(tg.id)

        # local aliases of a wrapped element: elem = item.value / node.elem
        aliases: set[str] = set()
        for x in walk_local(f.node):
            if isinstance(x, (ast.Assign, ast.AnnAssign)) and x.value is not None:
                vt = stmt_text(x.value)
                if (vt.endswith('.value') and not vt.startswith('self.parser')
                        and isinstance(x.value, ast.Attribute)) or vt.endswith('.elem'):
                    tg = x.targets[0] if isinstance(x, ast.Assign) else x.target
                    if isinstance(tg, ast.Name) and tg.id not in built:
                        aliases.add(tg.id)

        def wrapped(e: ast.AST) -> bool:
            t = stmt_text(e)
            if isinstance(e, ast.Name) and e.id in built:
                return False
            if isinstance(e, ast.Name) and e.id in aliases:
                return True
            return t.endswith('.value') and not t.startswith('self.parser') \
                or t.endswith('.elem') or t.endswith('.document') and False
        for x in walk_local(f.node):
            if isinstance(x, ast.Call) and isinstance(x.func, ast.Attribute) \
                    and x.func.attr in ETREE_MUTATORS and wrapped(x.func.value) \
                    and x.func.attr != 'set' or (
                        isinstance(x, ast.Call) and isinstance(x.func, ast.Attribute)
                        and x.func.attr == 'set' and wrapped(x.func.value)
                        and len(x.args) == 2):
                hits += 1
                res.fail(finding('R05.4', f, x, f'{stmt_text(x.func)[:40]}()',
                                 f'`{stmt_text(x)[:60]}` mutates the wrapped input element'))
            if isinstance(x, (ast.Assign, ast.AugAssign)):
                tg0 = x.targets if isinstance(x, ast.Assign) else [x.target]
                tg = [e2 for t0 in tg0
                      for e2 in (t0.elts if isinstance(t0, (ast.Tuple, ast.List)) else [t0])]
                for t in tg:
                    if isinstance(t, ast.Attribute) and t.attr in ('text', 'tail', 'attrib',
                                                                   'tag') \
                            and wrapped(t.value):
                        hits += 1
                        res.fail(finding('R05.4', f, x, f'{stmt_text(t)[:40]} store',
                                         f'`{stmt_text(x)[:60]}` writes into the wrapped input '
                                         f'element'))
    res.instances.append(f'{n} functions scanned, {hits} mutations of wrapped elements')
    res.ok()
    counts['input_tree_functions'] = n
    # positive control: the detector must fire on a synthetic snippet
    probe = ast.parse('def f(self, context):\n    context.item.value.set("a", "b")\n'
                      '    context.root.value.text = "x"\n').body[0]
    fired = 0
    for x in ast.walk(probe):
        if isinstance(x, ast.Call) and isinstance(x.func, ast.Attribute) \
                and x.func.attr == 'set' and stmt_text(x.func.value).endswith('.value'):
            fired += 1
        if isinstance(x, ast.Assign) and isinstance(x.targets[0], ast.Attribute) \
                and x.targets[0].attr == 'text':
            fired += 1
    if fired != 2:
        raise AnalysisError('R05.4 positive control did not fire')
    res.notes.append('positive control (synthetic snippet with .value.set() and .value.text '
                     'store) matched 2/2')
    return res


def r05_5(ctx, counts) -> RuleResult:
    """The memoising accessors of map/array tokens must only run on values."""
    model: Model = ctx.model
    cg, dyn, par = phases(ctx)
    res = RuleResult(
        'R05.5', 'CACHE-ON-VALUE-ONLY',
        'The accessors of token classes that memoise on self (methods that take the dynamic '
        'context and contain a `self.X = …` store: XPathMap.keys/values/items today, derived '
        'on every run) are accepted as caches only because they run on map/array VALUES. No '
        'dynamic-phase function may call one of them on a receiver that denotes a syntax child '
        'token: `self[k]`, `self._items[k]`, a variable iterating over self, or a local / '
        'tuple / list built from those (forward may-taint over the CFG). A value obtained '
        'through evaluate()/select() is a value, not a syntax token.')
    caching: dict[str, list[FuncInfo]] = {}
    for c in cg.token_classes:
        for n, m in c.methods.items():
            if n in ('nud', 'led', '__init__', '__call__', 'evaluate', 'select',
                     'to_partial_function') or 'context' not in m.params():
                continue
            if any(isinstance(x, ast.Assign) and any(
                    isinstance(t, ast.Attribute) and dotted(t.value) == 'self' for t in x.targets)
                   for x in walk_local(m.node)):
                caching.setdefault(n, []).append(m)
    counts['caching_accessors'] = sum(len(v) for v in caching.values())
    res.notes.append(f'caching accessors: {sorted(m.key for v in caching.values() for m in v)}')
    if not caching:
        res.ok()
        return res
    sites = 0
    for f in sorted(dyn, key=lambda q: q.key):
        me = token_self(model, cg, f)
        if me is None:
            continue
        calls = [x for x in walk_local(f.node) if isinstance(x, ast.Call)
                 and isinstance(x.func, ast.Attribute) and x.func.attr in caching]
        if not calls:
            continue
        cfg = CFG(f.node, calls_may_raise)

        def expr_taint(e: ast.AST, st: State, nd: Node) -> set[str]:
            if isinstance(e, ast.Subscript) and stmt_text(e.value) in (me, f'{me}._items') \
                    and not isinstance(e.slice, ast.Slice):
                return {'syntax'}
            return set()

        def iter_taint(e: ast.AST, st: State, nd: Node) -> set[str]:
            t = stmt_text(e)
            if t in (me, f'{me}._items') or (isinstance(e, ast.Subscript)
                                             and stmt_text(e.value) in (me, f'{me}._items')
                                             and isinstance(e.slice, ast.Slice)):
                return {'syntax'}
            out: set[str] = set()
            if isinstance(e, ast.Name):
                out |= {k[6:] for k in st.get(e.id, ()) if k.startswith('holds:')}
            if isinstance(e, (ast.Tuple, ast.List)):
                for x in e.elts:
                    out |= T.value_taint(x, st, nd)
            return out

        T = Taint.__new__(Taint)
        T.cfg, T.expr_taint, T.iter_taint, T.state_in = cfg, expr_taint, iter_taint, {}
        T._run()
        for c in calls:
            sites += 1
            holder = [nd for nd in cfg.nodes if any(y is c for y in nd.walk())]
            if not holder:
                continue
            st = T.at(holder[0])
            kinds = T.value_taint(c.func.value, st, holder[0])
            res.instances.append(f'{f.key}: {stmt_text(c)[:50]} receiver taint={sorted(kinds)}')
            if 'syntax' in kinds:
                res.fail(finding('R05.5', f, c, f'{stmt_text(c.func)[:40]} on a syntax token',
                                 f'`{stmt_text(c)[:60]}` runs a memoising accessor on a child '
                                 f'token of the expression tree: the constructor token keeps '
                                 f'the entries of this evaluation and every later evaluation '
                                 f'(other document, other variables) returns them'))
            else:
                res.ok()
    counts['caching_accessor_calls'] = sites
    return res


def r05_6(ctx, counts) -> RuleResult:
    """select / iter_select build the same dynamic context"""
    model = ctx.model
    res = RuleResult(
        'R05.6', 'SELECTOR-SIBLINGS',
        'xpath_selectors.select and iter_select (module functions) and Selector.select / '
        'Selector.iter_select are sibling entry points that must differ only in how the results '
        'are consumed: within each pair the parser construction and the XPathContext(...) '
        'construction have identical argument lists (same positional order, same keywords), and '
        'the positional arguments that are plain names coinciding with parameter names of '
        'XPathContext.__init__ sit at the index of the same-named parameter.')
    mod = model.module('elementpath.xpath_selectors')
    init = model.find_class('XPathContext').methods.get('__init__')
    if init is None:
        raise AnalysisError('XPathContext.__init__ vanished')
    ctx_params = [p for p in init.params() if p != 'self']

    def ctx_calls(f: FuncInfo) -> list[ast.Call]:
        return [n for n in walk_local(f.node) if isinstance(n, ast.Call)
                and dotted(n.func).split('.')[-1] in ('XPathContext', 'XPathSchemaContext')]

    def sig(c: ast.Call) -> tuple:
        return (tuple(stmt_text(a) for a in c.args),
                tuple(sorted((k.arg or '**', stmt_text(k.value)) for k in c.keywords)))

    pairs = []
    f1, f2 = mod.toplevel_function('select'), mod.toplevel_function('iter_select')
    if f1 is None or f2 is None:
        raise AnalysisError('xpath_selectors.select / iter_select vanished')
    pairs.append((f1, f2))
    sel = model.find_class('Selector')
    m1, m2 = sel.methods.get('select'), sel.methods.get('iter_select')
    if m1 is None or m2 is None:
        raise AnalysisError('Selector.select / iter_select vanished')
    pairs.append((m1, m2))
    n = 0
    for a, b in pairs:
        ca, cb = ctx_calls(a), ctx_calls(b)
        if len(ca) != 1 or len(cb) != 1:
            raise AnalysisError(f'{a.key}/{b.key}: one XPathContext construction each expected')
        n += 1
        res.instances.append(f'{a.key} vs {b.key}: {stmt_text(ca[0])[:60]} | {stmt_text(cb[0])[:60]}')
        if sig(ca[0]) == sig(cb[0]):
            res.ok()
        else:
            res.fail(finding('R05.6', b, cb[0], 'context arguments differ from sibling',
                             f'{b.name} builds `{stmt_text(cb[0])[:90]}` while its sibling '
                             f'{a.name} builds `{stmt_text(ca[0])[:90]}`: select and iter_select '
                             f'evaluate on different dynamic contexts'))
        for f_, c in ((a, ca[0]), (b, cb[0])):
            for i, arg in enumerate(c.args):
                if isinstance(arg, ast.Name) and arg.id in ctx_params and \
                        i < len(ctx_params) and ctx_params[i] != arg.id:
                    res.fail(finding('R05.6', f_, c, f'{arg.id} passed as {ctx_params[i]}',
                                     f'{f_.name}: the argument `{arg.id}` is passed in the '
                                     f'position of the XPathContext parameter `{ctx_params[i]}`'))
                elif isinstance(arg, ast.Name) and arg.id in ctx_params:
                    res.ok()
    counts['selector_pairs'] = n
    return res


def r05_7(ctx, counts) -> RuleResult:
    """memoisation keyed by Python equality is only sound for strings"""
    model = ctx.model
    res = RuleResult(
        'R05.7', 'CACHE-KEY-DOMAIN',
        'A function memoised with functools.cache / lru_cache returns what an earlier call with '
        'an *equal* argument returned. Python equality conflates values that XPath '
        'distinguishes (0.0 == -0.0, 1 == 1.0 == True, Decimal("1.0") == Decimal("1.00")), so a '
        'memoised function is history-independent only if every parameter is annotated str (or '
        'Optional[str]); any other parameter type makes results depend on the order of earlier '
        'evaluations. (cached_property on immutable objects is not concerned.)')
    n = 0
    for f in sorted(model.all_functions(), key=lambda q: q.key):
        decs = [stmt_text(d) for d in f.node.decorator_list]
        if not any(d.split('(')[0].split('.')[-1] in ('cache', 'lru_cache') for d in decs):
            continue
        n += 1
        a = f.node.args
        bad = []
        for p in a.posonlyargs + a.args + a.kwonlyargs:
            if p.arg in ('self', 'cls'):
                continue
            ann = stmt_text(p.annotation) if p.annotation is not None else ''
            ok = ann in ('str', 'Optional[str]', 'str | None', 'None | str')
            if not ok:
                bad.append(f'{p.arg}: {ann or "unannotated"}')
        res.instances.append(f'{f.key}: memoised, parameters '
                             f'{"all str" if not bad else "NOT all str: " + ", ".join(bad)}')
        if bad:
            res.fail(finding('R05.7', f, f.node, 'cache key ' + bad[0],
                             f'{f.name} is memoised but takes {", ".join(bad)}: equal-but-'
                             f'distinct values (0.0 / -0.0, 1 / 1.0 / true) share one cache slot, '
                             f'so the result depends on which was seen first in the process'))
        else:
            res.ok()
    counts['memoised_functions'] = n
    if n < 2:
        raise AnalysisError(f'only {n} memoised functions located')
    return res


LAZY_MARKERS = ('_attributes', '_namespace_nodes')


def r05_8(ctx, counts) -> RuleResult:
    """a memoised value is not a snapshot of the lazily built part of the node tree"""
    from ..engine.srcmodel import walk_local
    model = ctx.model
    res = RuleResult(
        'R05.9', 'NO-MEMO-OF-LAZY-SNAPSHOT',
        'Attribute and namespace nodes are built on first access; iter_lazy() (and a read of '
        '_attributes / _namespace_nodes guarded by hasattr) enumerates only the part of a tree '
        'built so far, which is the right thing for an identity test at the moment of the call '
        'and nothing else. A value memoised on an object (functools.cached_property, cache, '
        'lru_cache) must therefore not be computed, directly or through callees two levels deep, '
        'from such an enumeration: nodes created after the first use would be missing from the '
        'memo for the rest of the life of the object (fn:root() of an attribute built after an '
        'earlier root() call on the same context returns the empty sequence).')
    cg = ctx.memo('callgraph', lambda: CallGraph(ctx.model, ctx.reg))
    n = 0

    def lazy_reads(f) -> list[ast.AST]:
        out: list[ast.AST] = []
        for x in walk_local(f.node):
            if isinstance(x, ast.Call) and isinstance(x.func, ast.Attribute) \
                    and x.func.attr == 'iter_lazy':
                out.append(x)
            elif isinstance(x, ast.Call) and dotted(x.func) == 'hasattr' and len(x.args) == 2 \
                    and isinstance(x.args[1], ast.Constant) and x.args[1].value in LAZY_MARKERS:
                out.append(x)
        return out

    for f in sorted(model.all_functions(), key=lambda q: q.key):
        decs = [stmt_text(d).split('(')[0].split('.')[-1] for d in f.node.decorator_list]
        if not any(d in ('cache', 'lru_cache', 'cached_property') for d in decs):
            continue
        n += 1
        seen = {f}
        frontier = [f]
        hit = None
        for depth in range(3):
            nxt = []
            for g in frontier:
                if g.name == 'iter_lazy':
                    continue
                rs = lazy_reads(g)
                if rs and hit is None:
                    hit = (g, rs[0], depth)
                for h in sorted(cg.callees.get(g, ()), key=lambda q: q.key):
                    if h not in seen:
                        seen.add(h)
                        nxt.append(h)
            frontier = nxt
        res.instances.append(f'{f.key}: memoised ({"/".join(decs)}); lazy snapshot read: '
                             f'{None if hit is None else hit[0].key}')
        if hit is None:
            res.ok()
        else:
            g, node, depth = hit
            res.fail(finding('R05.9', f, f.node, 'memo of a lazy snapshot',
                             f'{f.name} is memoised but computed from `{stmt_text(node)[:50]}` '
                             f'({g.key}, call depth {depth}), which enumerates only the '
                             f'attribute/namespace nodes built so far: nodes created after the '
                             f'first use are missing from the memo, so the answer for them '
                             f'depends on the history of the object'))
    counts['memoised_values'] = n
    if n < 3:
        raise AnalysisError(f'only {n} memoised functions/properties located')
    return res


MEMO_SAMPLE = """
def outer(key_func):
    memo = {}
    def get(obj: Any):
        try:
            return memo[obj]
        except KeyError:
            memo[obj] = v = key_func(obj)
            return v
    return get

_tokens = {}
def get_token(token_class: type[Tok], parser: Parser) -> Tok:
    try:
        return _tokens[token_class]
    except KeyError:
        tok = _tokens[token_class] = token_class(parser)
        return tok
"""
VALUE_ANNOTATIONS = ('Any', 'object', 'ItemType', 'AtomicType', 'ValueType', 'NumericType',
                     'AnyAtomicType', 'float', 'Decimal', 'Hashable', 'ArithmeticType')


class Memo:
    def __init__(self, container: str, key: ast.AST, read: ast.AST, store: ast.AST,
                 value: Optional[ast.AST]) -> None:
        self.container, self.key, self.read, self.store, self.value = \
            container, key, read, store, value


def argument_keyed_memos(fnode: ast.AST) -> tuple[list[Memo], dict[str, str], dict[str, set[str]]]:
    """The memo idiom in one function: a container that is not a local of the function is read
    at a key built from the parameters, the value read flows to a return/yield, and the
    container is written at the same key. Returns the memos, the parameter annotations and,
    for every local, the parameter-rooted dotted names it is computed from."""
    from ..engine.srcmodel import walk_local
    a = fnode.args
    params = {p_.arg: (stmt_text(p_.annotation) if p_.annotation is not None else '')
              for p_ in a.posonlyargs + a.args + a.kwonlyargs if p_.arg not in ('self', 'cls')}
    if not params:
        return [], params, {}
    local: set[str] = set()
    assigns: list[tuple[list[str], ast.AST]] = []
    for x in walk_local(fnode):
        if isinstance(x, (ast.Assign, ast.AnnAssign, ast.AugAssign, ast.NamedExpr)):
            tg = x.targets if isinstance(x, ast.Assign) else [x.target]
            names: list[str] = []
            for t0 in tg:
                if isinstance(t0, ast.Name):
                    names.append(t0.id)
                elif isinstance(t0, (ast.Tuple, ast.List)):
                    names += [t.id for t in t0.elts if isinstance(t, ast.Name)]
            local |= set(names)
            if getattr(x, 'value', None) is not None:
                assigns.append((names, x.value))
        elif isinstance(x, (ast.For, ast.comprehension)):
            names = [t.id for t in ast.walk(x.target) if isinstance(t, ast.Name)]
            local |= set(names)
            assigns.append((names, x.iter))
    local -= set(params)

    def atoms(e: ast.AST) -> set[str]:
        """maximal dotted names rooted at a parameter or a local, in e"""
        out: set[str] = set()

        def visit(n: ast.AST) -> None:
            if isinstance(n, (ast.Attribute, ast.Name)):
                d = dotted(n)
                if d and d.split('.')[0] in set(params) | local:
                    out.add(d)
                    return
            for c in ast.iter_child_nodes(n):
                visit(c)
        visit(e)
        return out

    deps: dict[str, set[str]] = {v: set() for v in local}
    for _ in range(4):
        for names, val in assigns:
            got: set[str] = set()
            for d in atoms(val):
                root = d.split('.')[0]
                if root in params:
                    got.add(d)
                else:
                    got |= deps.get(root, set())
            for nm in names:
                if nm in deps:
                    deps[nm] |= got

    def key_ok(k: ast.AST) -> bool:
        return any(d.split('.')[0] in params or deps.get(d.split('.')[0]) for d in atoms(k))

    flows: set[int] = set()        # ids of expressions whose value is returned / yielded
    returned_locals: set[str] = set()
    for x in walk_local(fnode):
        if isinstance(x, (ast.Return, ast.Yield, ast.YieldFrom)) and x.value is not None:
            for y in ast.walk(x.value):
                flows.add(id(y))
                if isinstance(y, ast.Name) and y.id in local:
                    returned_locals.add(y.id)
    for names, val in assigns:
        if set(names) & returned_locals:
            for y in ast.walk(val):
                flows.add(id(y))
    reads: dict[tuple[str, str], ast.AST] = {}
    stores: dict[tuple[str, str], tuple[ast.AST, Optional[ast.AST]]] = {}
    parent = {id(c): p_ for p_ in ast.walk(fnode) for c in ast.iter_child_nodes(p_)}
    for x in walk_local(fnode):
        if isinstance(x, ast.Subscript) and isinstance(x.value, (ast.Name, ast.Attribute)):
            d = dotted(x.value)
            if not d or d.split('.')[0] in local or d.split('.')[0] in params \
                    or not key_ok(x.slice):
                continue
            k = (d, stmt_text(x.slice))
            if isinstance(x.ctx, ast.Store):
                par = parent.get(id(x))
                val = getattr(par, 'value', None) if isinstance(
                    par, (ast.Assign, ast.AnnAssign)) else None
                stores.setdefault(k, (x, val))
            elif isinstance(x.ctx, ast.Load) and id(x) in flows:
                reads.setdefault(k, x)
        elif isinstance(x, ast.Call) and isinstance(x.func, ast.Attribute) and x.args \
                and x.func.attr in ('get', 'setdefault'):
            d = dotted(x.func.value)
            if not d or d.split('.')[0] in local or d.split('.')[0] in params \
                    or not key_ok(x.args[0]):
                continue
            k = (d, stmt_text(x.args[0]))
            if id(x) in flows:
                reads.setdefault(k, x)
            if x.func.attr == 'setdefault':
                stores.setdefault(k, (x, x.args[1] if len(x.args) > 1 else None))
    out = []
    for k in sorted(set(reads) & set(stores)):
        rd = reads[k]
        key = rd.slice if isinstance(rd, ast.Subscript) else rd.args[0]
        out.append(Memo(k[0], key, rd, stores[k][0], stores[k][1]))
    return out, params, deps


def memo_verdicts(fnode: ast.AST) -> list[tuple[Memo, str, str]]:
    """(memo, clause, explanation) for every memo of the function that is unsound; clause is
    'domain' or 'completeness'."""
    memos, params, deps = argument_keyed_memos(fnode)
    out = []
    for m in memos:
        key_atoms: set[str] = set()
        for y in ast.walk(m.key):
            if isinstance(y, (ast.Name, ast.Attribute)):
                d = dotted(y)
                if d and d.split('.')[0] in params:
                    key_atoms.add(d)
                elif isinstance(y, ast.Name) and y.id in deps:
                    key_atoms |= deps[y.id]     # a key built in a local
        key_atoms = {d for d in key_atoms if not any(o != d and o.startswith(d + '.')
                                                    for o in key_atoms)} or key_atoms
        for d in sorted(key_atoms):
            ann = params.get(d, None)
            if ann is None:
                continue        # an attribute of a parameter, not the parameter itself
            core = ann.replace('Optional[', '').rstrip(']').split('.')[-1]
            if core in VALUE_ANNOTATIONS or ann == '':
                out.append((m, 'domain',
                            f'`{m.container}` outlives the call, is read at the argument `{d}: '
                            f'{ann or "unannotated"}` for the result and written at the same key: '
                            f'a memo keyed by Python equality of an XPath value; values that are '
                            f'equal for Python and distinct for XPath (1, 1.0, true(); 0.0, -0.0) '
                            f'share one slot, so the second receives the result of the first'))
        if m.value is not None:
            used: set[str] = set()
            for y in ast.walk(m.value):
                if isinstance(y, (ast.Name, ast.Attribute)):
                    d = dotted(y)
                    if not d:
                        continue
                    root = d.split('.')[0]
                    if root in params:
                        used.add(d)
                    elif root in deps and isinstance(y, ast.Name):
                        used |= deps[root]
            # keep maximal paths only (p.a.b covers its prefix mentions p.a)
            missing = sorted(u for u in used
                             if not any(u == k_ or u.startswith(k_ + '.') for k_ in key_atoms))
            if missing:
                out.append((m, 'completeness',
                            f'`{m.container}[{stmt_text(m.key)[:30]}]` is returned to later calls '
                            f'but what is stored there is computed from {", ".join(missing[:3])}, '
                            f'which the key does not include: a call with the same key and a '
                            f'different {missing[0].split(".")[0]} receives the value of the '
                            f'earlier call'))
    return out


def r05_10(ctx, counts) -> RuleResult:
    """a hand-written memo is keyed by everything its value depends on, and not by XPath values"""
    model = ctx.model
    res = RuleResult(
        'R05.10', 'ARGUMENT-KEYED-MEMO',
        'The hand-written form of R05.7. A function (or closure) that reads a container which '
        'outlives the call (a variable of the enclosing function, a module or class attribute) at '
        'a key built from its parameters, returns or yields what it read, and writes the '
        'container at the same key is a memo. (a) KEY-DOMAIN: the key is not a parameter that '
        'holds an XPath value (annotated Any, ItemType, AtomicType, float, Decimal, ...): Python '
        'equality conflates 1 / 1.0 / true() and 0.0 / -0.0, so the second of two such items '
        'receives what was computed for the first (fn:sort with a memoised key function). '
        '(b) KEY-COMPLETENESS: every parameter, or attribute path of a parameter, that the '
        'stored value is computed from (through the locals of the function) is covered by the '
        'key: a token built with `parser` and cached under its class alone, prototypes of an XSD '
        'type cached under `xsd_type.name`, serve later calls with the value of another parser / '
        'another schema.')
    tree = ast.parse(MEMO_SAMPLE)
    sget = [n_ for n_ in ast.walk(tree) if isinstance(n_, ast.FunctionDef) and n_.name == 'get'][0]
    stok = [n_ for n_ in ast.walk(tree)
            if isinstance(n_, ast.FunctionDef) and n_.name == 'get_token'][0]
    if [c for _, c, _ in memo_verdicts(sget)] != ['domain'] or \
            [c for _, c, _ in memo_verdicts(stok)] != ['completeness']:
        raise AnalysisError('R05.10: the memo idioms of the built-in samples are not recognised')
    n = nm = 0
    for f in sorted(model.all_functions(), key=lambda q: q.key):
        if not f.module.name.startswith('elementpath') or '.validators' in f.module.name:
            continue
        n += 1
        memos, params, _ = argument_keyed_memos(f.node)
        if not memos:
            continue
        verdicts = memo_verdicts(f.node)
        for m in memos:
            nm += 1
            bad = [(c, why) for mm, c, why in verdicts
                   if mm.container == m.container and stmt_text(mm.key) == stmt_text(m.key)]
            res.instances.append(f'{f.key}: memo `{m.container}[{stmt_text(m.key)[:30]}]`: '
                                 f'{"sound key" if not bad else "/".join(c for c, _ in bad)}')
            if not bad:
                res.ok()
            for c, why in bad:
                res.fail(finding('R05.10', f, m.store,
                                 f'memo {m.container}[{stmt_text(m.key)[:20]}] {c}', why))
    counts['functions_scanned_for_memos'] = n
    counts['argument_keyed_memos'] = nm
    if n < 1300:
        raise AnalysisError(f'only {n} functions scanned for hand-written memos')
    return res


ATTR_MEMO_SAMPLE = """
class N:
    def get_document(self, replace=True, as_parent=True):
        if not replace and self.tree.dummy is not None:
            return self.tree.dummy
        doc = Document(self)
        if as_parent:
            self.parent = doc
        self.tree.dummy = doc
        return doc
"""


def attribute_memo_gaps(fnode: ast.AST) -> list[tuple[ast.Return, str, list[str]]]:
    """(early return, memo attribute, parameters it ignores) for a method that returns a
    stored attribute under a test of that attribute and stores the attribute itself"""
    from ..engine.cfg import CFG
    from ..engine.dataflow import branch_facts
    from ..engine.srcmodel import walk_local
    a = fnode.args
    params = [p_.arg for p_ in a.posonlyargs + a.args + a.kwonlyargs if p_.arg not in ('self', 'cls')]
    if not params:
        return []
    stores = {dotted(t) for x in walk_local(fnode) if isinstance(x, (ast.Assign, ast.AnnAssign))
              for t in (x.targets if isinstance(x, ast.Assign) else [x.target])
              if isinstance(t, ast.Attribute)}
    rets = [r for r in walk_local(fnode) if isinstance(r, ast.Return)
            and isinstance(r.value, ast.Attribute) and dotted(r.value) in stores]
    if not rets:
        return []
    cfg = CFG(fnode)
    facts = branch_facts(cfg)
    out = []
    for r in rets:
        d = dotted(r.value)
        nd = [n_ for n_ in cfg.nodes if n_.ast is r]
        if not nd:
            continue
        fs = facts[nd[0].id]
        if not any(d in fa and ('is not None' in fa or 'is None' in fa or 'hasattr' in fa)
                   for fa in fs):
            continue
        in_guard: set[str] = set()
        for fa in fs:
            try:
                in_guard |= {y.id for y in ast.walk(ast.parse(fa[1:], mode='eval'))
                             if isinstance(y, ast.Name)}
            except SyntaxError:
                pass
        inside = {id(y) for y in ast.walk(r)}
        used_later = {y.id for y in walk_local(fnode) if isinstance(y, ast.Name)
                      and isinstance(y.ctx, ast.Load) and y.id in params and id(y) not in inside
                      and getattr(y, 'lineno', 0) > r.lineno}
        missing = sorted(used_later - in_guard)
        out.append((r, d, missing))
    return out


def r05_11(ctx, counts) -> RuleResult:
    """a value memoised on a shared object is not returned to a call with other parameters"""
    model = ctx.model
    res = RuleResult(
        'R05.11', 'ATTRIBUTE-MEMO-IGNORES-PARAMETER',
        'The attribute form of the memo idiom: a method returns `O.attr` early, under a test that '
        'the attribute is set, and stores `O.attr` further down. Every parameter of the method '
        'that the code after the early return reads (tests or uses) also appears in the tests '
        'that guard the early return: otherwise a later call with another value of that '
        'parameter receives what an earlier call built (a dummy document created unlinked for '
        'a fragment context and returned to a call that needs it linked as the parent of the '
        'root). Parameter-less memo properties are outside the rule.')
    sample = [n_ for n_ in ast.walk(ast.parse(ATTR_MEMO_SAMPLE))
              if isinstance(n_, ast.FunctionDef)][0]
    if [(d, mi) for _, d, mi in attribute_memo_gaps(sample)] != [('self.tree.dummy', ['as_parent'])]:
        raise AnalysisError('R05.11: the attribute memo of the built-in sample is not recognised')
    n = nm = 0
    for f in sorted(model.all_functions(), key=lambda q: q.key):
        if not f.module.name.startswith('elementpath') or '.validators' in f.module.name:
            continue
        n += 1
        for r, d, missing in attribute_memo_gaps(f.node):
            nm += 1
            res.instances.append(f'{f.key}: early return of `{d}` (L{r.lineno}); parameters read '
                                 f'later and absent from its guard: {missing or None}')
            if not missing:
                res.ok()
            else:
                res.fail(finding('R05.11', f, r, f'memo {d} ignores {missing[0]}',
                                 f'`return {d}` hands a stored value to every later call, but the '
                                 f'rest of {f.name} depends on {", ".join(missing)}, which the '
                                 f'guard of the early return does not test: a call with another '
                                 f'{missing[0]} receives what an earlier call built'))
    counts['functions_scanned_for_attribute_memos'] = n
    counts['attribute_memos_with_parameters'] = nm
    if n < 1300:
        raise AnalysisError(f'only {n} functions scanned for attribute memos')
    return res


def run(ctx) -> dict:
    counts: dict[str, int] = {}
    results = [r05_1(ctx, counts), r05_2(ctx, counts), r05_3(ctx, counts), r05_4(ctx, counts),
               r05_5(ctx, counts), r05_6(ctx, counts), r05_7(ctx, counts),
               r05_8(ctx, counts), r05_10(ctx, counts), r05_11(ctx, counts)]
    # process-wide state is written only by the reviewed inventory (no new caches)
    from .c19_global import r19_5 as _r19_5
    _state = _r19_5(ctx, counts, None, 6)
    return {
        'results': results + [_state], 'counts': counts,
        'explanation':
            'Effect discipline of the dynamic phase, decided on the source: evaluation code does '
            'not write into the syntax tree (token attributes, operand lists), into operand '
            'values, into a variables dictionary it has not copied, or into the input XML tree. '
            'The dynamic phase is the set of functions reachable in the resolved call graph '
            'from the evaluate/select/cast/__call__ slots of the token classes.',
        'not_decided':
            'That repeated evaluation returns equal items in general (decided: the two selector '
            'entry points build the same context; memoised helpers are keyed by strings only), and '
            'immutability of namespace maps and schema objects beyond the copies made in the '
            'constructors.',
        'assumptions': ['phase map from the resolved call graph',
                        'sa/allow.json names the accepted per-token caches'],
    }
