"""
C07 — comparisons, EBV and logic: dispatch-order soundness.

R07.1 DISPATCH-SHADOW  in isinstance/match dispatch chains no type case is shadowed by an
                       earlier case for one of its supertypes
"""
from __future__ import annotations

import ast
from typing import Optional

from ..engine.srcmodel import AnalysisError, ClassInfo, FuncInfo, Model, dotted, stmt_text, \
    walk_local
from ..engine.report import RuleResult
from .common import finding

BUILTIN_BASES = {'bool': ['int'], 'int': ['object'], 'float': ['object'], 'str': ['object'],
                 'Decimal': ['object'], 'decimal.Decimal': ['object'], 'list': ['object'],
                 'tuple': ['object'], 'dict': ['object'], 'bytes': ['object'],
                 'type': ['object']}
ALIASES = {'decimal.Decimal': 'Decimal'}


class TypeSet:
    """A set of runtime classes: union of generator classes minus excluded classes."""

    def __init__(self, incl: list, excl: Optional[list] = None) -> None:
        self.incl = incl
        self.excl = excl or []

    def __repr__(self) -> str:
        n = lambda c: c.name if isinstance(c, ClassInfo) else c  # noqa: E731
        s = '|'.join(n(c) for c in self.incl)
        if self.excl:
            s += ' \\ ' + '|'.join(n(c) for c in self.excl)
        return s


class Lattice:
    def __init__(self, model: Model) -> None:
        self.model = model
        self.virtual: dict[str, TypeSet] = {}
        self._derive_hooks()

    # nominal -----------------------------------------------------------
    def nominal_sub(self, a, b) -> bool:
        """a is a (nominal) subclass of b."""
        a = ALIASES.get(a, a) if isinstance(a, str) else a
        b = ALIASES.get(b, b) if isinstance(b, str) else b
        if a is b or a == b or b == 'object':
            return True
        if isinstance(a, ClassInfo):
            if isinstance(b, ClassInfo):
                return a.is_subclass_of(b)
            ext = {ALIASES.get(x, x).split('.')[-1] for x in a.external_bases()}
            if b in ext:
                return True
            return any(self.nominal_sub(x, b) for x in ext if x in BUILTIN_BASES)
        if isinstance(a, str) and a in BUILTIN_BASES:
            return any(self.nominal_sub(x, b) for x in BUILTIN_BASES[a])
        return False

    def disjoint(self, a, b) -> bool:
        return not (self.nominal_sub(a, b) or self.nominal_sub(b, a))

    # virtual -----------------------------------------------------------
    def _classes_of(self, mod, e: ast.expr) -> list:
        elts = e.elts if isinstance(e, ast.Tuple) else [e]
        out = []
        for x in elts:
            kind, val = self.model.resolve_expr(mod, x) if isinstance(x, (ast.Name, ast.Attribute)) \
                else ('', None)
            if kind == 'class':
                out.append(val)
            elif kind == 'const' and isinstance(val[1], ast.Tuple):
                out.extend(self._classes_of(val[0], val[1]))
            else:
                out.append(ALIASES.get(dotted(x), dotted(x)).split('.')[-1])
        return out

    def _derive_hooks(self) -> None:
        """TypeSets of classes with __subclasshook__ / metaclass __instancecheck__."""
        for c in self.model.all_classes():
            m = c.methods.get('__subclasshook__')
            if m is None:
                continue
            ts = self._hook_typeset(m, 'issubclass')
            if ts is None:
                raise AnalysisError(f'{m.key}: __subclasshook__ shape not recognised')
            self.virtual[c.name] = ts
        for c in self.model.all_classes():
            m = c.methods.get('__instancecheck__')
            if m is None:
                continue
            ts = self._hook_typeset(m, 'isinstance')
            if ts is None:
                raise AnalysisError(f'{m.key}: __instancecheck__ shape not recognised')
            # applies to classes using c as metaclass
            for k in self.model.all_classes():
                for kw in k.node.keywords:
                    if kw.arg == 'metaclass' and dotted(kw.value) == c.name:
                        self.virtual[k.name] = ts

    def _hook_typeset(self, m: FuncInfo, fn: str) -> Optional[TypeSet]:
        incl: list = []
        excl: list = []
        rets = [r for r in walk_local(m.node) if isinstance(r, ast.Return) and r.value is not None]
        guards_excl: list = []
        # `if issubclass(subclass, bool): return False` prefix
        for s in m.node.body:
            if isinstance(s, ast.If) and isinstance(s.test, ast.Call) and dotted(s.test.func) == fn \
                    and len(s.body) == 1 and isinstance(s.body[0], ast.Return) \
                    and isinstance(s.body[0].value, ast.Constant) and s.body[0].value.value is False:
                guards_excl.extend(self._classes_of(m.module, s.test.args[1]))

        def walk_bool(e: ast.expr, positive: bool) -> bool:
            if isinstance(e, ast.BoolOp) and isinstance(e.op, ast.And) and positive:
                return all(walk_bool(v, True) for v in e.values)
            if isinstance(e, ast.BoolOp) and isinstance(e.op, ast.Or) and positive:
                return all(walk_bool(v, True) for v in e.values)
            if isinstance(e, ast.UnaryOp) and isinstance(e.op, ast.Not):
                return walk_bool(e.operand, not positive)
            if isinstance(e, ast.Call) and dotted(e.func) == fn and len(e.args) == 2:
                (incl if positive else excl).extend(self._classes_of(m.module, e.args[1]))
                return True
            if isinstance(e, ast.Compare) and len(e.ops) == 1 and isinstance(e.ops[0], ast.Is):
                # `subclass is X`
                (incl if positive else excl).extend(self._classes_of(m.module, e.comparators[0]))
                return True
            return False
        found = False
        for r in rets:
            v = r.value
            if isinstance(v, ast.Constant) and v.value is False:
                continue
            if stmt_text(v) == 'NotImplemented':
                continue
            if not walk_bool(v, True):
                return None
            found = True
        if not found:
            return None
        return TypeSet(incl, excl + guards_excl)

    # queries -----------------------------------------------------------
    def typeset(self, c) -> TypeSet:
        name = c.name if isinstance(c, ClassInfo) else ALIASES.get(c, c)
        if name in self.virtual:
            v = self.virtual[name]
            return TypeSet([c] + v.incl, v.excl)
        return TypeSet([c])

    def cls_subset(self, c2, c1) -> bool:
        """every instance of class c2 is an instance of class c1 (isinstance semantics)."""
        t1 = self.typeset(c1)
        # c2 must be below a generator of c1 …
        if not any(self.nominal_sub(c2, g) for g in t1.incl):
            # or c2's own virtual definition is entirely inside c1
            n2 = c2.name if isinstance(c2, ClassInfo) else c2
            if n2 in self.virtual and not self.nominal_sub(c2, c1):
                t2 = self.virtual[n2]
                if all(any(self.nominal_sub(g2, g) for g in t1.incl) for g2 in t2.incl) and \
                        all(not self._meets(e, t2) for e in t1.excl):
                    return True
            return False
        if any(self.nominal_sub(c2, c1g) for c1g in [c1]):
            return True            # nominal subclass: the hook is not consulted
        # … and must not meet any exclusion of c1
        return all(self.disjoint(c2, e) for e in t1.excl)

    def _meets(self, e, ts: TypeSet) -> bool:
        return any(not self.disjoint(e, g) for g in ts.incl) and \
            not any(self.nominal_sub(e, x) for x in ts.excl)

    def covers(self, earlier: list, later: list) -> bool:
        return bool(later) and all(any(self.cls_subset(c2, c1) for c1 in earlier) for c2 in later)


def isinstance_test(model: Model, lat: Lattice, f: FuncInfo, e: ast.expr):
    """(subject text, classes, unconditional) for tests made of isinstance on one subject."""
    if isinstance(e, ast.Call) and dotted(e.func) == 'isinstance' and len(e.args) == 2:
        return stmt_text(e.args[0]), lat._classes_of(f.module, e.args[1]), True
    # all(isinstance(x, T) for x in L) / any(isinstance(x, T) for x in L)
    if isinstance(e, ast.Call) and dotted(e.func) in ('all', 'any') and len(e.args) == 1 \
            and isinstance(e.args[0], ast.GeneratorExp) and len(e.args[0].generators) == 1:
        g = e.args[0].generators[0]
        inner = e.args[0].elt
        if isinstance(inner, ast.Call) and dotted(inner.func) == 'isinstance' \
                and len(inner.args) == 2 and isinstance(g.target, ast.Name) \
                and stmt_text(inner.args[0]) == g.target.id and not g.ifs:
            return f'{dotted(e.func)}:{stmt_text(g.iter)}', \
                lat._classes_of(f.module, inner.args[1]), True
    if isinstance(e, ast.BoolOp) and isinstance(e.op, ast.Or):
        parts = [isinstance_test(model, lat, f, v) for v in e.values]
        if all(p is not None for p in parts) and len({p[0] for p in parts}) == 1 \
                and all(p[2] for p in parts):
            return parts[0][0], [c for p in parts for c in p[1]], True
        return None
    if isinstance(e, ast.BoolOp) and isinstance(e.op, ast.And):
        for v in e.values:
            p = isinstance_test(model, lat, f, v)
            if p is not None and p[2]:
                return p[0], p[1], False       # conditional: cannot shadow, can be shadowed
        return None
    return None


def always_exits(body: list[ast.stmt]) -> bool:
    if not body:
        return False
    last = body[-1]
    if isinstance(last, (ast.Return, ast.Raise, ast.Continue, ast.Break)):
        return True
    if isinstance(last, ast.If) and last.orelse:
        return always_exits(last.body) and always_exits(last.orelse)
    return False


def chains_of(f: FuncInfo) -> list[list[tuple[ast.expr, ast.AST]]]:
    """Dispatch chains: if/elif ladders, and consecutive ifs whose bodies always exit."""
    out = []
    seen: set[int] = set()
    for n in walk_local(f.node):
        if isinstance(n, ast.If) and id(n) not in seen:
            chain = []
            cur: Optional[ast.If] = n
            while cur is not None:
                seen.add(id(cur))
                chain.append((cur.test, cur))
                nxt = cur.orelse[0] if len(cur.orelse) == 1 and isinstance(cur.orelse[0], ast.If) \
                    else None
                cur = nxt
            if len(chain) > 1:
                out.append(chain)
    # consecutive early-exit ifs in one block
    def blocks(node: ast.AST):
        for fld in ('body', 'orelse', 'finalbody'):
            sub = getattr(node, fld, None)
            if isinstance(sub, list) and sub and isinstance(sub[0], ast.stmt):
                yield sub
                for s in sub:
                    if not isinstance(s, (ast.FunctionDef, ast.ClassDef)):
                        yield from blocks(s)
        if isinstance(node, ast.Try):
            for h in node.handlers:
                yield h.body
                for s in h.body:
                    yield from blocks(s)
    for blk in blocks(f.node):
        run: list = []
        for s in blk:
            if isinstance(s, ast.If) and not s.orelse and always_exits(s.body):
                run.append((s.test, s))
            else:
                if len(run) > 1:
                    out.append(run)
                run = []
        if len(run) > 1:
            out.append(run)
    return out


def r07_2(ctx, counts) -> RuleResult:
    """EBV: the node shortcut applies to the FIRST item only"""
    from ..engine.cfg import CFG
    from ..engine.dataflow import branch_facts
    model: Model = ctx.model
    res = RuleResult(
        'R07.2', 'EBV-FIRST-ITEM',
        'In XPathToken.boolean_value (fn:boolean) the `return True` taken because an item is an '
        'XPathNode is reached only for the first item of the operand: for a list the tested '
        'expression is obj[0]; inside the loop over an iterator the dominating facts include '
        'that the item counter is still zero (the false edge of `if k`). F&O 2.4.3: a sequence '
        'whose first item is a node is true; any other sequence of two or more items is '
        'FORG0006, even when a later item is a node.')
    tok = model.find_class('XPathToken')
    f = tok.find_method('boolean_value')
    if f is None:
        raise AnalysisError('XPathToken.boolean_value vanished')
    cfg = CFG(f.node)
    facts = branch_facts(cfg)
    xnode = model.find_class('XPathNode')
    sites = 0
    for nd in cfg.nodes:
        if nd.kind != 'stmt' or not isinstance(nd.ast, ast.Return):
            continue
        v = nd.ast.value
        if not (isinstance(v, ast.Constant) and v.value is True):
            continue
        node_facts = [fa for fa in facts[nd.id]
                      if fa.startswith('+isinstance(') and 'XPathNode' in fa]
        if not node_facts:
            continue
        sites += 1
        subj = node_facts[0][len('+isinstance('):].split(',')[0]
        first = False
        why = ''
        if subj.endswith('[0]'):
            first, why = True, f'subject {subj} is the first element'
        else:
            # loop item: some counter fact `-k` / `+k == 0` / `-k > 0` must dominate
            enclosing_for = [n for n in walk_local(f.node) if isinstance(n, ast.For)
                             and any(x is nd.ast for b in n.body for x in ast.walk(b))]
            counters = set()
            for loop in enclosing_for:
                for x in ast.walk(loop):
                    if isinstance(x, ast.AugAssign) and isinstance(x.target, ast.Name) \
                            and isinstance(x.op, ast.Add):
                        counters.add(x.target.id)
            for c in counters:
                if f'-{c}' in facts[nd.id] or f'+{c} == 0' in facts[nd.id] or \
                        f'-{c} > 0' in facts[nd.id] or f'+not {c}' in facts[nd.id]:
                    first, why = True, f'counter {c} is known to be zero'
            if not enclosing_for:
                first, why = True, 'single item (not in a loop)'
        res.instances.append(f'{f.key}: return True on isinstance({subj}, XPathNode): {why or "NOT first-item"}')
        if first:
            res.ok()
        else:
            res.fail(finding('R07.2', f, nd.ast, f'node shortcut on {subj} not first-only',
                             f'`return True` for isinstance({subj}, XPathNode) is reachable for '
                             f'an item that is not the first of the sequence (no dominating '
                             f'zero-counter fact): (1, <node>) would be true instead of FORG0006'))
    counts['ebv_node_shortcuts'] = sites
    if sites < 2:
        raise AnalysisError(f'boolean_value: only {sites} node shortcuts located (expected the '
                            f'list form and the iterator form)')
    return res


def class_dispatch(loop: ast.For) -> Optional[tuple[ast.stmt, ast.Match]]:
    """The class dispatch on the first loop target inside a loop body, as (statement, Match):
    a `match op1:` of class patterns, or the equivalent if/elif chain of
    `isinstance(op1, C)` tests, which is rebuilt as a synthetic Match (same case bodies)."""
    if not isinstance(loop.target, ast.Tuple) or not loop.target.elts \
            or not isinstance(loop.target.elts[0], ast.Name):
        return None
    subj = loop.target.elts[0].id
    for st in loop.body:
        if isinstance(st, ast.Match) and stmt_text(st.subject) == subj:
            return st, st
        if isinstance(st, ast.If):
            cases = []
            cur: Optional[ast.stmt] = st
            ok = True
            while isinstance(cur, ast.If):
                t = cur.test
                if not (isinstance(t, ast.Call) and dotted(t.func) == 'isinstance'
                        and len(t.args) == 2 and stmt_text(t.args[0]) == subj):
                    ok = False
                    break
                k = t.args[1]
                pats = [ast.MatchClass(cls=e, patterns=[], kwd_attrs=[], kwd_patterns=[])
                        for e in (k.elts if isinstance(k, ast.Tuple) else [k])]
                pat = pats[0] if len(pats) == 1 else ast.MatchOr(patterns=pats)
                cases.append(ast.match_case(pattern=pat, guard=None, body=cur.body))
                if len(cur.orelse) == 1 and isinstance(cur.orelse[0], ast.If):
                    cur = cur.orelse[0]
                else:
                    if cur.orelse:
                        cases.append(ast.match_case(pattern=ast.MatchAs(pattern=None, name=None),
                                                    guard=None, body=cur.orelse))
                    cur = None
            if ok and len(cases) >= 3:
                m = ast.Match(subject=ast.Name(id=subj, ctx=ast.Load()), cases=cases)
                ast.copy_location(m, st)
                ast.fix_missing_locations(m)
                return st, m
    return None



def r07_3(ctx, counts) -> RuleResult:
    """general comparison: every yielded operand pair passed the type dispatch"""
    from ..engine.cfg import CFG
    model: Model = ctx.model
    res = RuleResult(
        'R07.3', 'COMPARISON-TYPE-CHECK-MUST-PASS',
        'In the operand-pair generator of general comparisons (the XPathToken method whose loop '
        'over product(left, right) contains the `match op1` type dispatch), every path from the '
        'loop header to a yield inside the loop passes through the match statement: no operand '
        'pair is handed to the comparison without the XPTY0004 compatibility check of its own '
        'two values.')
    tok = model.find_class('XPathToken')
    found = 0
    for f in tok.methods.values():
        for loop in [n for n in walk_local(f.node) if isinstance(n, ast.For)]:
            disp = class_dispatch(loop)
            if disp is None or 'product' not in stmt_text(loop.iter):
                continue
            matches = [disp[0]]
            found += 1
            cfg = CFG(f.node)
            head = [nd for nd in cfg.nodes if nd.ast is loop and nd.kind == 'for']
            mnodes = [nd for nd in cfg.nodes if nd.ast in matches or any(
                isinstance(m_, ast.If) and nd.ast is m_.test for m_ in matches)]
            if not head or not mnodes:
                raise AnalysisError(f'{f.key}: loop/match not located in the CFG')
            ys = [nd for nd in cfg.nodes if nd.ast is not None and nd.kind == 'stmt' and any(
                isinstance(x, (ast.Yield, ast.YieldFrom)) for x in ast.walk(nd.ast))
                and any(x is nd.ast for b in loop.body for x in ast.walk(b))]
            for y in ys:
                path = cfg.path_avoiding(head, lambda q, y=y: q is y, lambda q: q in mnodes)
                res.instances.append(f'{f.key}: {stmt_text(y.ast)[:40]} after the type dispatch: '
                                     f'{path is None}')
                if path is None:
                    res.ok()
                else:
                    res.fail(finding('R07.3', f, y.ast, f'{stmt_text(y.ast)[:40]} bypasses match',
                                     f'`{stmt_text(y.ast)[:50]}` can be reached from the loop '
                                     f'header without passing the `match` type dispatch '
                                     f'({cfg.fmt_path(path)[:160]}): operand pairs of incomparable '
                                     f'types are compared instead of raising XPTY0004'))
    counts['comparison_generators'] = found
    if found < 1:
        raise AnalysisError('operand-pair generator with a match dispatch not located')
    return res


def r07_4(ctx, counts) -> RuleResult:
    """the type-compatibility relation of general comparisons is symmetric"""
    model: Model = ctx.model
    lat = Lattice(model)
    res = RuleResult(
        'R07.4', 'COMPATIBILITY-SYMMETRY',
        'The `match op1` dispatch of the operand-pair generator decides, from the classes of the '
        'two operands, whether a general comparison raises XPTY0004. The dispatch is interpreted '
        'abstractly over the concrete classes it mentions (case selection and isinstance tests '
        'decided in the class lattice, including the virtual-subclass hooks): for every ordered '
        'pair of classes (a, b), "raises for (a, b)" must equal "raises for (b, a)" — `A = B` and '
        '`B = A` are the same comparison. An asymmetric pair means one operand order silently '
        'compares values of incomparable types.')
    tok = model.find_class('XPathToken')
    target = None
    for f in tok.methods.values():
        for loop in [n for n in walk_local(f.node) if isinstance(n, ast.For)]:
            disp = class_dispatch(loop)
            if disp is not None and 'product' in stmt_text(loop.iter):
                target = (f, loop, disp[1])
    if target is None:
        raise AnalysisError('operand-pair generator with a match dispatch not located')
    f, loop, m = target
    a_name, b_name = [t.id for t in loop.target.elts]                      # type: ignore[attr-defined]
    if stmt_text(m.subject) != a_name:
        raise AnalysisError('match subject is not the first loop target')
    mod = f.module
    universe: list = []

    def add_classes(e: ast.expr) -> list:
        cs = lat._classes_of(mod, e)
        for c in cs:
            if not any(c is u or c == u for u in universe):
                universe.append(c)
        return cs
    cases = []
    for case in m.cases:
        pats = case.pattern.patterns if isinstance(case.pattern, ast.MatchOr) else [case.pattern]
        cls = []
        for p_ in pats:
            if isinstance(p_, ast.MatchClass) and not p_.patterns and not p_.kwd_patterns:
                cls.extend(add_classes(p_.cls))
            elif isinstance(p_, ast.MatchAs) and p_.pattern is None:
                cls.append('object')
            else:
                raise AnalysisError(f'{f.key}: case pattern `{stmt_text(p_)}` not modelled')
        cases.append((cls, case))
    for x in ast.walk(m):
        if isinstance(x, ast.Call) and dotted(x.func) == 'isinstance' and len(x.args) == 2:
            add_classes(x.args[1])

    def is_inst(c, classes: list) -> bool:
        return any(lat.cls_subset(c, k) for k in classes)

    def outcome(stmts: list[ast.stmt], b) -> str:
        """'raise' | 'ok' for an operand of class b"""
        for st in stmts:
            if isinstance(st, ast.Raise):
                return 'raise'
            if isinstance(st, (ast.Continue, ast.Break, ast.Return)):
                return 'ok'
            if isinstance(st, ast.If):
                t = st.test
                neg = False
                if isinstance(t, ast.UnaryOp) and isinstance(t.op, ast.Not):
                    t, neg = t.operand, True
                if not (isinstance(t, ast.Call) and dotted(t.func) == 'isinstance'
                        and len(t.args) == 2 and stmt_text(t.args[0]) == b_name):
                    raise AnalysisError(f'{f.key}: test `{stmt_text(st.test)[:50]}` in the type '
                                        f'dispatch is not an isinstance test on {b_name}')
                val = is_inst(b, lat._classes_of(mod, t.args[1])) != neg
                r = outcome(st.body if val else st.orelse, b)
                if r == 'raise' or (val and st.body and isinstance(
                        st.body[-1], (ast.Continue, ast.Break, ast.Return))) or \
                        (not val and st.orelse and isinstance(
                            st.orelse[-1], (ast.Continue, ast.Break, ast.Return))):
                    return r
                if r == 'raise':
                    return r
        return 'ok'

    def raises(a, b) -> bool:
        for cls, case in cases:
            if 'object' in cls or is_inst(a, cls):
                return outcome(case.body, b) == 'raise'
        return False

    # concrete representatives only: a class that has a strict subclass in the universe stands
    # for "an instance of it that is not an instance of the subclass" and is skipped when it
    # is abstract/virtual (proxies); builtins and datatype classes are kept
    nm = lambda c: c.name if isinstance(c, ClassInfo) else c  # noqa: E731
    n_pairs = 0
    bad = []
    for a in universe:
        for b in universe:
            n_pairs += 1
            if raises(a, b) != raises(b, a):
                if (nm(b), nm(a)) not in [(x, y) for x, y, _ in bad]:
                    bad.append((nm(a), nm(b), raises(a, b)))
    res.instances.append(f'{f.key}: {len(universe)} classes {sorted(nm(c) for c in universe)}, '
                         f'{n_pairs} ordered pairs')
    for a, b, r in bad:
        res.fail(finding('R07.4', f, m, f'asymmetric {a}/{b}',
                         f'comparing a {a} with a {b} {"raises" if r else "does not raise"} '
                         f'XPTY0004 but comparing a {b} with a {a} '
                         f'{"does not" if r else "does"}: the two operand orders of one general '
                         f'comparison disagree'))
    res.ok(n_pairs - 2 * len(bad))
    counts['compat_pairs'] = n_pairs
    return res


def _shared(ctx, counts) -> list:
    """rules of other modules that are necessary conditions of C07 too: the condition of `if`
    is isolated like its sibling (R08.4); duration/time ordering scales microseconds by 10^6
    (R11.2)"""
    from .c08_sequences import r08_4
    from .c11_datetime import r11_2
    from .c11_datetime import r11_8
    # the operands of a comparison are promoted to xs:double with get_double / cast_to_double:
    # what those build is a plain float, or two "doubles" compare with the xs:float tolerance
    from .c18_seqtypes import r18_9
    r9 = r18_9(ctx, counts)
    r9.title = 'XS-DOUBLE-IS-PLAIN-FLOAT (R07.7 = R18.9: promoted operands compare exactly)'
    from .c10_datatypes import r10_14
    r10 = r10_14(ctx, counts)
    r10.title = 'BINARY-COMPARES-OCTETS (R07.8 = R10.14: lt/le/gt/ge on binary values)'
    return [r08_4(ctx, counts), r11_2(ctx, counts), r11_8(ctx, counts), r9, r10]


def r07_5(ctx, counts) -> RuleResult:
    """value comparisons are exact: a tolerance only between two xs:float values"""
    from ..engine.cfg import CFG
    from ..engine.dataflow import branch_facts
    model: Model = ctx.model
    res = RuleResult(
        'R07.5', 'NO-TOLERANCE-ON-DOUBLES',
        'eq/ne/lt/le/gt/ge order the value space exactly; math.isclose is not an equivalence '
        '(not transitive) and declares 1.00000001e0 and 1.00000002e0 equal. The package stores '
        'xs:float values with double precision and compares two of them with a relative '
        'tolerance; that emulation must not reach xs:double, xs:decimal or xs:integer operands: '
        'in the evaluate functions bound to the comparison operators every call of math.isclose, '
        'or of a helper whose body calls it (numeric_equal, numeric_not_equal), is dominated by a '
        'branch fact that all operands are instances of the xs:float class (Float), not of '
        'float / DoubleProxy (which every xs:double satisfies).')
    tolerant = {f.name for f in model.all_functions()
                if f.cls is None and any(isinstance(c, ast.Call) and dotted(c.func) == 'math.isclose'
                                         for c in walk_local(f.node))}
    funcs: dict[FuncInfo, set[str]] = {}
    for rec in ctx.reg.all_records():
        if rec.symbol in ('eq', 'ne', 'lt', 'le', 'gt', 'ge', '=', '!=', '<', '<=', '>', '>='):
            ref = rec.method('evaluate')
            if ref is not None and ref.func is not None and ref.origin != 'class':
                funcs.setdefault(ref.func, set()).add(rec.symbol)
    if len(funcs) < 2:
        raise AnalysisError(f'comparison operator functions located: {len(funcs)} < 2')
    n = 0
    for f, syms in sorted(funcs.items(), key=lambda kv: kv[0].key):
        cfg = CFG(f.node)
        facts = branch_facts(cfg)
        calls = [c for c in walk_local(f.node) if isinstance(c, ast.Call) and (
            dotted(c.func) == 'math.isclose' or dotted(c.func).split('.')[-1] in tolerant)]
        res.instances.append(f'{f.key} [{"/".join(sorted(syms))}]: {len(calls)} tolerance '
                             f'comparison(s)')
        if not calls:
            res.ok()
        for c in calls:
            n += 1
            holder = None
            for nd in cfg.nodes:
                if nd.ast is not None and nd.kind in ('stmt', 'test') and any(
                        x is c for x in ast.walk(nd.ast.test if isinstance(
                            nd.ast, (ast.If, ast.While)) else nd.ast)):
                    holder = nd
                    break
            fs = facts[holder.id] if holder is not None else frozenset()
            only_float = any(fa.startswith('+') and 'isinstance(' in fa and
                             'Float' in fa and 'DoubleProxy' not in fa and ', float)' not in fa
                             and not fa.startswith('+any(')      # one xs:float is not enough
                             for fa in fs)
            if only_float:
                res.ok()
            else:
                res.fail(finding('R07.5', f, c, f'{stmt_text(c)[:30]} on doubles',
                                 f'`{stmt_text(c)[:60]}` compares with a relative tolerance '
                                 f'operands that are only known to be floats (facts: '
                                 f'{sorted(fs)[:2]}): 1.00000001e0 eq 1.00000002e0 and '
                                 f'0.1e0 + 0.2e0 eq 0.3e0 are true for xs:double'))
    counts['tolerance_comparisons'] = n
    return res

_ABSENCE_SELFTEST = """
def ebv(obj):
    items = iter(obj)
    first = next(items, None)
    if not first:
        return False
    return True
"""


def _absence_sites(fnode: ast.AST) -> list[tuple[ast.AST, str]]:
    """bare truthiness tests of a name bound from next(<iterator>, None)"""
    bound = set()
    for x in ast.walk(fnode):
        if isinstance(x, ast.Assign) and isinstance(x.value, ast.Call) \
                and dotted(x.value.func) == 'next' and len(x.value.args) == 2 \
                and isinstance(x.value.args[1], ast.Constant) and x.value.args[1].value is None:
            for t in x.targets:
                if isinstance(t, ast.Name):
                    bound.add(t.id)
    out: list[tuple[ast.AST, str]] = []
    if not bound:
        return out

    def truth_operands(e: ast.expr) -> list[ast.expr]:
        if isinstance(e, ast.BoolOp):
            return [y for v in e.values for y in truth_operands(v)]
        if isinstance(e, ast.UnaryOp) and isinstance(e.op, ast.Not):
            return truth_operands(e.operand)
        return [e]
    for x in ast.walk(fnode):
        tests = []
        if isinstance(x, (ast.If, ast.While, ast.IfExp)):
            tests = [x.test]
        elif isinstance(x, ast.Assert):
            tests = [x.test]
        for t in tests:
            for e in truth_operands(t):
                if isinstance(e, ast.Name) and e.id in bound:
                    out.append((x, e.id))
    return out


def r07_9(ctx, counts) -> RuleResult:
    """absence of an item is `is None`, never the truthiness of the item"""
    model: Model = ctx.model
    res = RuleResult(
        'R07.9', 'ITEM-TRUTHINESS-IS-NOT-ABSENCE',
        'The items of a sequence include 0, 0.0, "", false() and NaN, whose Python truth value '
        'is false. A name bound from next(<iterator>, None) — "the first item, or None when '
        'there is none" — is therefore tested for absence with `is None` / `is not None`, never '
        'with its bare truthiness (`if not first`, `first and …`): the effective boolean value '
        'of (0, 1) is an error (FORG0006), not false, and `(0, 1) and true()` must raise. '
        'Checked in every function of the package; the detector is exercised on every run on a '
        'built-in positive example, because the expected number of sites on a correct tree is 0.')
    probe = _absence_sites(ast.parse(_ABSENCE_SELFTEST))
    if len(probe) != 1:
        raise AnalysisError('R07.9 self-test: the built-in positive example was not matched')
    n = sites = 0
    for f in sorted(model.all_functions(), key=lambda q: q.key):
        if not f.module.name.startswith('elementpath'):
            continue
        has_next = any(isinstance(c, ast.Call) and dotted(c.func) == 'next' and len(c.args) == 2
                       for c in walk_local(f.node))
        if not has_next:
            continue
        n += 1
        bad = _absence_sites(f.node)
        res.instances.append(f'{f.key}: next(.., default) used; truthiness tests of the result: '
                             f'{len(bad)}')
        if not bad:
            res.ok()
        for x, name in bad:
            sites += 1
            res.fail(finding('R07.9', f, x, f'truthiness of {name} as absence',
                             f'`{stmt_text(x)[:50]}` tests the truth value of `{name}`, bound '
                             f'from next(.., None): the items 0, "", false() and NaN are taken '
                             f'for "no item" (boolean((0, 1)) is false instead of FORG0006)'))
    counts['next_default_functions'] = n
    if n < 1:
        raise AnalysisError('no function uses next(.., default): the scan lost its subjects')
    return res


def r07_6(ctx, counts) -> RuleResult:
    """general comparison: both integer and decimal operands are promoted against a double"""
    model: Model = ctx.model
    res = RuleResult(
        'R07.6', 'NUMERIC-PROMOTION-SIBLINGS',
        'In a general comparison a numeric operand is promoted to xs:double when the other one '
        'is an xs:double/xs:float (XPath 3.1 B.1); Python compares an int with a float exactly. '
        'In the class dispatch of XPathToken.iter_comparison_data the float case converts both '
        'its Decimal and its Integer partner (a yield of a converted pair under '
        '`isinstance(op2, decimal.Decimal)` and under `isinstance(op2, Integer | int)`), and the '
        'Integer and Decimal cases each convert themselves under `isinstance(op2, float)`. The '
        'decimal pair was there, the integer pair was not: 9007199254740993 = '
        '9007199254740992e0 was false while `eq` (which promotes) was true.')
    f = model.find_class('XPathToken').methods.get('iter_comparison_data')
    if f is None:
        raise AnalysisError('XPathToken.iter_comparison_data vanished')
    matches = [d[1] for lp in walk_local(f.node) if isinstance(lp, ast.For)
               for d in [class_dispatch(lp)] if d is not None]
    if len(matches) != 1:
        raise AnalysisError(f'iter_comparison_data: {len(matches)} class dispatches on the first '
                            f'operand (the dispatch idiom changed)')
    cases: dict[str, ast.match_case] = {}
    for c in matches[0].cases:
        pats = c.pattern.patterns if isinstance(c.pattern, ast.MatchOr) else [c.pattern]
        for p_ in pats:
            if isinstance(p_, ast.MatchClass):
                cases[dotted(p_.cls).split('.')[-1]] = c

    def promoted_partners(case: ast.match_case) -> set[str]:
        """classes K such that under isinstance(op2, K) the case yields a converted pair"""
        out: set[str] = set()
        for st in ast.walk(case):
            if not isinstance(st, ast.If):
                continue
            chain = [st]
            for test_owner in chain:
                t = test_owner.test
                if isinstance(t, ast.Call) and dotted(t.func) == 'isinstance' and len(t.args) == 2:
                    ys = [y for b in test_owner.body for y in ast.walk(b)
                          if isinstance(y, ast.Yield) and isinstance(y.value, ast.Tuple)
                          and any(isinstance(e, ast.Call) for e in y.value.elts)]
                    if ys:
                        k = t.args[1]
                        for e in (k.elts if isinstance(k, ast.Tuple) else [k]):
                            out.add(dotted(e).split('.')[-1])
        return out
    n = 0
    need = {'float': {'Decimal', ('Integer', 'int')}, 'Integer': {'float'}, 'Decimal': {'float'}}
    for cname, partners in need.items():
        case = cases.get(cname)
        if case is None:
            if cname == 'Integer' and 'int' in cases:
                case = cases['int']
            else:
                raise AnalysisError(f'iter_comparison_data: no case for {cname}')
        have = promoted_partners(case)
        for p_ in partners:
            n += 1
            alts = p_ if isinstance(p_, tuple) else (p_,)
            ok = any(a in have for a in alts)
            res.instances.append(f'case {cname}(): partner {"/".join(alts)} promoted: {ok}')
            if ok:
                res.ok()
            else:
                res.fail(finding('R07.6', f, case.pattern, f'{cname} vs {alts[0]} not promoted',
                                 f'the `case {cname}()` of the general-comparison dispatch yields '
                                 f'no converted pair under isinstance(op2, {alts[0]}): the two '
                                 f'values are compared as they are (an int and a float exactly), '
                                 f'unlike the value comparison and unlike its sibling cases'))
    counts['promotion_pairs'] = n
    return res


def run(ctx) -> dict:
    model: Model = ctx.model
    lat = Lattice(model)
    res = RuleResult(
        'R07.1', 'DISPATCH-SHADOW',
        'Instances: every if/elif ladder, every run of consecutive early-exit ifs and every '
        'match statement with class patterns, in the whole package, whose tests are isinstance '
        'tests on one subject. A branch testing the class set S2 is unreachable (shadowed) if an '
        'earlier branch of the same chain tests — unconditionally — a class set S1 such that '
        'every instance of every class of S2 is an instance of some class of S1. The instance '
        'relation is the nominal hierarchy (bool < int included) plus the virtual relations '
        'defined by the __subclasshook__ / metaclass __instancecheck__ bodies, which are '
        're-derived from those bodies on every run (with their exclusions: bool is not an '
        'Integer, a Float is not a DoubleProxy …).')
    counts: dict[str, int] = {}
    res.notes.append('virtual relations derived: ' +
                     '; '.join(f'{k} ⊇ {v!r}' for k, v in sorted(lat.virtual.items())))
    n_chains = n_branches = 0
    for f in sorted(model.all_functions(), key=lambda q: q.key):
        for chain in chains_of(f):
            tests = [(isinstance_test(model, lat, f, t), node) for t, node in chain]
            if sum(1 for p, _ in tests if p is not None) < 2:
                continue
            n_chains += 1
            earlier: dict[str, list[tuple[list, ast.AST]]] = {}
            for p, node in tests:
                if p is None:
                    continue
                subj, classes, uncond = p
                n_branches += 1
                shadow = None
                partial = False
                for prev_classes, prev_node in earlier.get(subj, []):
                    if lat.covers(prev_classes, classes):
                        shadow = (prev_classes, prev_node)
                        break
                if shadow is None and subj.startswith(('any:', 'all:')):
                    # quantified tests over one operand list: an earlier any(S1) takes every
                    # tuple with an S2 member when S2 ⊆ S1 (full shadow of any(S2)/all(S2));
                    # an earlier all(S1) takes every all-S2 tuple when S2 ⊆ S1 (the S2 rule
                    # never sees homogeneous tuples: partial shadow)
                    lst = subj.split(':', 1)[1]
                    for prev_classes, prev_node in earlier.get('any:' + lst, []):
                        if lat.covers(prev_classes, classes):
                            shadow = (prev_classes, prev_node)
                    if shadow is None:
                        for prev_classes, prev_node in earlier.get('all:' + lst, []):
                            if lat.covers(prev_classes, classes) and prev_node is not node \
                                    and not lat.covers(classes, prev_classes):
                                shadow = (prev_classes, prev_node)
                                partial = True
                if shadow is not None:
                    nm = lambda c: c.name if isinstance(c, ClassInfo) else c  # noqa: E731
                    res.fail(finding('R07.1', f, node,
                                     f'{subj}: {"|".join(nm(c) for c in classes)} after '
                                     f'{"|".join(nm(c) for c in shadow[0])}',
                                     f'the branch `isinstance({subj}, '
                                     f'{"/".join(nm(c) for c in classes)})` '
                                     f'{"never sees operand lists made only of such values" if partial else "can never be taken"}: '
                                     f'the earlier branch at line {shadow[1].lineno} tests '
                                     f'{"/".join(nm(c) for c in shadow[0])}, which every such '
                                     f'value already satisfies; the rule written for the more '
                                     f'specific type is dead'))
                else:
                    res.ok()
                if uncond:
                    earlier.setdefault(subj, []).append((classes, node))
            if len(res.samples) < 12:
                res.samples.append({'rule': 'R07.1', 'function': f.key,
                                    'chain': [stmt_text(t)[:60] for t, _ in chain][:8]})
            res.instances.append(f'{f.key}: chain of {len(chain)} tests at L{chain[0][1].lineno}')
        # match statements
        for n in walk_local(f.node):
            if not isinstance(n, ast.Match):
                continue
            subj = stmt_text(n.subject)
            earlier_m: list[tuple[list, ast.AST]] = []
            hit = False
            for case in n.cases:
                pats = case.pattern.patterns if isinstance(case.pattern, ast.MatchOr) \
                    else [case.pattern]
                classes = []
                pure = True
                for p in pats:
                    if isinstance(p, ast.MatchClass) and not p.patterns and not p.kwd_patterns:
                        classes.extend(lat._classes_of(f.module, p.cls))
                    else:
                        pure = False
                if not classes:
                    continue
                hit = True
                n_branches += 1
                sh = next((pc for pc, _ in earlier_m if lat.covers(pc, classes)), None)
                if sh is not None:
                    nm = lambda c: c.name if isinstance(c, ClassInfo) else c  # noqa: E731
                    res.fail(finding('R07.1', f, case.pattern,
                                     f'match {subj}: {"|".join(nm(c) for c in classes)}',
                                     f'`case {"|".join(nm(c) for c in classes)}()` is shadowed by '
                                     f'an earlier case {"|".join(nm(c) for c in sh)}'))
                else:
                    res.ok()
                if pure and case.guard is None:
                    earlier_m.append((classes, case))
            if hit:
                n_chains += 1
                res.instances.append(f'{f.key}: match {subj} at L{n.lineno}')
    counts['dispatch_chains'] = n_chains
    counts['dispatch_branches'] = n_branches
    counts['virtual_relations'] = len(lat.virtual)
    return {
        'results': [res, r07_2(ctx, counts), r07_3(ctx, counts), r07_4(ctx, counts),
                    r07_5(ctx, counts), r07_6(ctx, counts), r07_9(ctx, counts)] + _shared(ctx, counts),
        'counts': counts,
        'explanation':
            'Dispatch-order soundness, decided over the class lattice of the source model: in '
            'every isinstance/match dispatch chain of the package (the comparison, EBV, '
            'promotion and casting rules are written as such chains) no branch is shadowed by an '
            'earlier unconditional branch for a supertype, where "supertype" includes the '
            'virtual subclass relations that the proxy classes define through '
            '__subclasshook__/__instancecheck__ (re-derived from their bodies each run).',
        'not_decided':
            'The truth tables themselves (which result each type pair gives), existential '
            'semantics of general comparisons over sequences, NaN handling, use of the implicit '
            'timezone: statements over values. (The tolerance helper is decided in one respect: it '
            'is reached for two xs:float operands only.)',
        'assumptions': ['single-inheritance approximation for disjointness of unrelated classes',
                        'isinstance semantics of ABC hooks: nominal subclass first, then hook'],
    }
