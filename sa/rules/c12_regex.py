"""
C12 — regular expressions: error conversion and XML sink escaping.

R12.1 REGEX-ERROR-SIBLINGS  every dynamic-phase caller of translate_pattern converts every
                            failure class that any sibling converts into FORX0002
R12.2 XML-SINK-ESCAPE       argument text interpolated into markup that is then parsed as XML
                            passes an escaping function
"""
from __future__ import annotations

import ast
from typing import Optional

from ..engine.srcmodel import AnalysisError, FuncInfo, Model, dotted, stmt_text, walk_local
from ..engine.cfg import CFG, Node, calls_may_raise
from ..engine.taint import Taint, State
from ..engine.report import RuleResult
from .common import finding, try_context, handler_names
from .c19_global import XML_SINK_ATTRS

ESCAPERS = {'escape', 'quoteattr', 'xml_escape', 'escape_xml'}
REGEX_COMPILERS = {'compile', 'search', 'match', 'fullmatch', 'split', 'sub', 'findall',
                   'finditer'}


def _norm(name: str) -> str:
    return {'error': 're.error', 're.error': 're.error', 'sre_constants.error': 're.error',
            're.PatternError': 're.error'}.get(name, name.split('.')[-1])


def _is_translate(n: ast.AST) -> bool:
    return isinstance(n, ast.Call) and dotted(n.func).split('.')[-1] == 'translate_pattern'


def translate_helpers(model: Model) -> dict[str, FuncInfo]:
    """Methods/functions outside elementpath/regex that wrap translate_pattern and are themselves
    called (by simple name or as self.<name>) from at least two other functions: the regex
    functions then reach the translator through the wrapper, and the wrapper's call sites are
    the translation sites of its callers."""
    cands: dict[str, FuncInfo] = {}
    for f in model.all_functions():
        if f.module.name.startswith('elementpath.regex'):
            continue
        if any(_is_translate(n) for n in walk_local(f.node)):
            cands[f.name] = f
    out: dict[str, FuncInfo] = {}
    for name, h in cands.items():
        users = 0
        for f in model.all_functions():
            if f is h or f.module.name.startswith('elementpath.regex'):
                continue
            if any(isinstance(n, ast.Call) and dotted(n.func).split('.')[-1] == name
                   for n in walk_local(f.node)):
                users += 1
        if users >= 2:
            out[name] = h
    return out


def _is_site(n: ast.AST, helpers: dict[str, FuncInfo]) -> bool:
    return isinstance(n, ast.Call) and (
        _is_translate(n) or dotted(n.func).split('.')[-1] in helpers)


def r12_1(ctx, counts: dict[str, int]) -> RuleResult:
    model: Model = ctx.model
    helpers = translate_helpers(model)
    res = RuleResult(
        'R12.1', 'REGEX-ERROR-SIBLINGS',
        'Instances: functions (outside elementpath/regex) that call translate_pattern at run '
        'time. In each, translate_pattern(…) and every re.compile/search/… of the translated '
        'pattern lie in the body of a try whose handlers cover the union of the exception '
        'classes that the sibling functions convert (re.error, RegexError, OverflowError today) '
        'and every such handler ends by raising self.error(\'FORX0002\', …) (a return is '
        'accepted only under an isinstance(context, XPathSchemaContext) test).')
    callers: list[tuple[FuncInfo, list[ast.Call]]] = []
    for f in model.all_functions():
        if f.module.name.startswith('elementpath.regex'):
            continue
        if f in helpers.values():
            continue    # the wrapper's callers carry the conversion obligation
        calls = [n for n in walk_local(f.node) if _is_site(n, helpers)]
        if calls:
            callers.append((f, calls))
    counts['translate_pattern_callers'] = len(callers)
    if helpers:
        res.notes.append('translate_pattern is reached through the wrapper(s) '
                         f'{sorted(h.key for h in helpers.values())}; their call sites are the '
                         'translation sites')
    per_func: dict[FuncInfo, set[str]] = {}
    info: dict[FuncInfo, tuple] = {}
    for f, calls in callers:
        tc = try_context(f.node)
        covered: Optional[set[str]] = None
        handlers_ok = True
        bad_handler: Optional[ast.ExceptHandler] = None
        sites: list[ast.Call] = list(calls)
        # calls compiling the translated pattern: re.X(python_pattern…) where the first arg is
        # a name assigned from translate_pattern
        pat_names = {t.id for n in walk_local(f.node) if isinstance(n, ast.Assign)
                     and _is_translate(n.value)
                     for t in n.targets if isinstance(t, ast.Name)}
        for n in walk_local(f.node):
            if isinstance(n, ast.Call) and isinstance(n.func, ast.Attribute) \
                    and dotted(n.func.value) == 're' and n.func.attr in REGEX_COMPILERS \
                    and n.args and isinstance(n.args[0], ast.Name) and n.args[0].id in pat_names:
                sites.append(n)
        for c in sites:
            names: set[str] = set()
            for tr, part in tc.get(id(c), []):
                if part != 'body':
                    continue
                for h in tr.handlers:
                    hn = {_norm(x) for x in handler_names(model, f.module, h)}
                    names |= hn
                    if hn & {'re.error', 'RegexError', 'OverflowError', 'Exception'}:
                        raises = [x for s in h.body for x in ast.walk(s)
                                  if isinstance(x, ast.Raise)]
                        good = any(isinstance(r.exc, ast.Call)
                                   and dotted(r.exc.func).endswith('.error')
                                   and r.exc.args and isinstance(r.exc.args[0], ast.Constant)
                                   and r.exc.args[0].value == 'FORX0002' for r in raises)
                        last = h.body[-1] if h.body else None
                        ends_raise = isinstance(last, ast.Raise)
                        if not (good and ends_raise):
                            handlers_ok = False
                            bad_handler = h
            covered = names if covered is None else covered & names
        per_func[f] = covered or set()
        info[f] = (sites, handlers_ok, bad_handler)
        res.instances.append(f'{f.key}: {len(sites)} regex site(s), handlers cover '
                             f'{sorted(per_func[f])}')
    required = set()
    for s in per_func.values():
        required |= s & {'re.error', 'RegexError', 'OverflowError', 'RecursionError',
                         'ValueError', 'TypeError', 'MemoryError'}
    res.notes.append(f'required handler set (union over siblings): {sorted(required)}')
    for f, _ in callers:
        sites, handlers_ok, bad_handler = info[f]
        have = per_func[f] | ({'re.error', 'RegexError', 'OverflowError'}
                              if 'Exception' in per_func[f] else set())
        missing = sorted(required - have)
        res.samples.append({'rule': 'R12.1', 'function': f.key, 'covers': sorted(per_func[f]),
                            'missing': missing})
        if missing:
            res.fail(finding('R12.1', f, sites[0], 'missing ' + ' '.join(missing),
                             f'{f.name} does not convert {missing} raised by pattern '
                             f'translation/compilation into FORX0002 although its sibling regex '
                             f'functions do: the bare exception escapes'))
        else:
            res.ok()
        if handlers_ok:
            res.ok()
        else:
            res.fail(finding('R12.1', f, bad_handler, 'handler does not raise FORX0002',
                             f'a regex error handler in {f.name} does not end by raising '
                             f'self.error(\'FORX0002\', …)'))
    return res


def r12_2(ctx, counts: dict[str, int]) -> RuleResult:
    model: Model = ctx.model
    res = RuleResult(
        'R12.2', 'XML-SINK-ESCAPE',
        'Taint: a value obtained from get_argument(…) (or a slice of it) is raw text. A string '
        'built from raw text by str.format / f-string / % / + / join is interpolated markup. '
        'Interpolated markup must not reach an XML text-parsing call (etree.XML/fromstring/…; '
        'defuse_xml(x) is transparent) unless the raw part went through an escaping function '
        f'({sorted(ESCAPERS)}). Raw text passed whole to the parser is XML by contract '
        '(fn:parse-xml) and is not a finding.')
    sinks = 0
    for f in model.all_functions():
        sink_calls = [n for n in walk_local(f.node) if isinstance(n, ast.Call)
                      and isinstance(n.func, ast.Attribute) and n.func.attr in XML_SINK_ATTRS
                      and 'etree' in dotted(n.func.value).split('.')[-1].lower()]
        if not sink_calls:
            continue
        cfg = CFG(f.node, calls_may_raise)
        # names of f bound to raw argument text: free variables of the local helpers
        raw_names = {t.id for x in walk_local(f.node)
                     if isinstance(x, (ast.Assign, ast.AnnAssign)) and x.value is not None
                     and isinstance(x.value, ast.Call)
                     and dotted(x.value.func).split('.')[-1] == 'get_argument'
                     for t in (x.targets if isinstance(x, ast.Assign) else [x.target])
                     if isinstance(t, ast.Name)}
        helper_ret: dict[str, set[str]] = {}

        def make_taint(cfg_, free_raw: set[str]):
            holder_T: list = []

            def expr_taint(e: ast.AST, st: State, n: Node) -> set[str]:
                T_ = holder_T[0]

                def sub(x: ast.AST) -> set[str]:
                    return T_.value_taint(x, st, n)
                if isinstance(e, ast.Name) and e.id in free_raw and e.id not in st:
                    return {'raw'}
                if isinstance(e, ast.Call):
                    fn = dotted(e.func)
                    last = fn.split('.')[-1]
                    if last in ESCAPERS:
                        return set()
                    if last == 'get_argument':
                        return {'raw'}
                    if last in helper_ret and isinstance(e.func, ast.Name):
                        return set(helper_ret[last])
                    if last == 'defuse_xml' and e.args:
                        return sub(e.args[0])
                    if last in ('encode', 'decode', 'strip', 'lstrip', 'rstrip', 'lower', 'upper') \
                            and isinstance(e.func, ast.Attribute):
                        return sub(e.func.value)
                    if last == 'format' and isinstance(e.func, ast.Attribute):
                        ks: set[str] = set()
                        for a_ in list(e.args) + [k.value for k in e.keywords]:
                            ks |= sub(a_)
                        return {'fmt'} if ks & {'raw', 'fmt'} else set()
                    if last == 'join' and isinstance(e.func, ast.Attribute) and e.args:
                        a_ = e.args[0]
                        ks = set()
                        if isinstance(a_, ast.Name):
                            ks |= {k[6:] for k in st.get(a_.id, ()) if k.startswith('holds:')}
                        ks |= sub(a_)
                        return {'fmt'} if ks & {'raw', 'fmt'} else set()
                    return set()
                if isinstance(e, ast.Subscript):
                    return sub(e.value) & {'raw', 'fmt'}
                if isinstance(e, ast.JoinedStr):
                    ks = set()
                    for v in e.values:
                        if isinstance(v, ast.FormattedValue):
                            ks |= sub(v.value)
                    return {'fmt'} if ks & {'raw', 'fmt'} else set()
                if isinstance(e, ast.BinOp) and isinstance(e.op, (ast.Add, ast.Mod)):
                    ks = sub(e.left) | sub(e.right)
                    if isinstance(e.op, ast.Mod) and isinstance(e.right, ast.Tuple):
                        for x in e.right.elts:
                            ks |= sub(x)
                    return {'fmt'} if ks & {'raw', 'fmt'} else set()
                return set()

            def iter_taint(e: ast.AST, st: State, n: Node) -> set[str]:
                return set()

            T_new = Taint.__new__(Taint)
            T_new.cfg = cfg_
            T_new.expr_taint = expr_taint
            T_new.iter_taint = iter_taint
            T_new.state_in = {}
            holder_T.append(T_new)
            T_new._run()
            return T_new

        # summaries of the local helpers: what their return value carries when the raw
        # names of the enclosing function are raw (two rounds for self-recursive helpers)
        helpers = [g for g in f.module.functions.values() if g.parent is f]
        for _round in range(2):
            for g in helpers:
                gcfg = CFG(g.node, calls_may_raise)
                Tg = make_taint(gcfg, set(raw_names))
                out: set[str] = set()
                for nd in gcfg.nodes:
                    if nd.kind == 'stmt' and isinstance(nd.ast, ast.Return) \
                            and nd.ast.value is not None:
                        out |= Tg.value_taint(nd.ast.value, Tg.at(nd), nd) & {'raw', 'fmt'}
                helper_ret[g.name] = {'fmt'} if out else set()
        T = make_taint(cfg, set())
        for c in sink_calls:
            sinks += 1
            holder = [n for n in cfg.nodes if any(x is c for x in n.walk())]
            if not holder:
                raise AnalysisError(f'{f.key}: XML sink not located in the CFG')
            st = T.at(holder[0])
            arg = c.args[0] if c.args else None
            kinds = T.value_taint(arg, st, holder[0]) if arg is not None else set()
            res.instances.append(f'{f.key}: {stmt_text(c)[:60]} argument taint={sorted(kinds)}')
            res.samples.append({'rule': 'R12.2', 'function': f.key, 'sink': stmt_text(c)[:70],
                                'taint': sorted(kinds)})
            if 'fmt' in kinds:
                res.fail(finding('R12.2', f, c, f'{dotted(c.func)}({stmt_text(arg)[:40]})',
                                 'text taken from a function argument is interpolated into '
                                 'markup without escaping and the result is parsed as XML: '
                                 '`<`, `&` in the input break the result or inject markup'))
            else:
                res.ok()
    counts['xml_sinks'] = sinks
    return res


def r12_4(ctx, counts: dict[str, int]) -> RuleResult:
    model: Model = ctx.model
    res = RuleResult(
        'R12.4', 'TRANSLATE-ARGUMENT-SIBLINGS',
        'The XPath regex functions (dynamic-phase callers of translate_pattern) are siblings: '
        'each passes the pattern, the flags and the XSD version of its parser '
        '(self.parser.xsd_version), so that matches, replace, tokenize and analyze-string accept '
        'the same regular expressions under the same parser. A caller that omits an argument '
        'its siblings pass is the violation (the required argument list is the longest one used).')
    calls = []
    for f in model.all_functions():
        if f.module.name.startswith('elementpath.regex') or f.cls is None and f.parent is None \
                and not f.node.args.args:
            continue
        for n in walk_local(f.node):
            if isinstance(n, ast.Call) and dotted(n.func).split('.')[-1] == 'translate_pattern' \
                    and any(p == 'self' for p in f.params()):
                calls.append((f, n))
    helpers = translate_helpers(model)
    via = 0
    for f in model.all_functions():
        if f.module.name.startswith('elementpath.regex') or f in helpers.values():
            continue
        for n in walk_local(f.node):
            if isinstance(n, ast.Call) and dotted(n.func).split('.')[-1] in helpers:
                via += 1
                res.instances.append(f'{f.key}: {stmt_text(n)[:60]} -> through the wrapper')
                res.ok()
    if helpers:
        res.notes.append(f'{via} regex function call site(s) reach translate_pattern through '
                         f'{sorted(h.key for h in helpers.values())}')
    if len(calls) + via < 3:
        raise AnalysisError(f'only {len(calls) + via} run-time callers of translate_pattern '
                            f'located')

    def shape(c: ast.Call) -> tuple:
        named = {k.arg: stmt_text(k.value) for k in c.keywords if k.arg}
        return (len(c.args) + len(named),
                any('xsd_version' in stmt_text(a) for a in list(c.args) + [k.value for k in c.keywords]))
    want = max(shape(c) for _, c in calls)
    for f, c in sorted(calls, key=lambda t: t[0].key):
        sh = shape(c)
        res.instances.append(f'{f.key}: {stmt_text(c)[:70]} -> {sh}')
        if sh == want:
            res.ok()
        else:
            res.fail(finding('R12.4', f, c, 'translate_pattern arguments',
                             f'`{stmt_text(c)[:70]}` passes {sh[0]} argument(s)'
                             f'{"" if sh[1] else " without the XSD version"} while its sibling regex '
                             f'functions pass {want[0]} including self.parser.xsd_version: under an '
                             f'XSD 1.1 parser this function rejects patterns its siblings accept'))
    counts['translate_calls'] = len(calls) + via
    return res


def r12_5(ctx, counts: dict[str, int]) -> RuleResult:
    model: Model = ctx.model
    res = RuleResult(
        'R12.5', 'TOKENIZE-NO-GROUP-LEAK',
        'fn:tokenize returns the substrings between the matches. Python\'s Pattern.split / '
        're.split interleave the captured groups of the pattern with the tokens, and XPath '
        'patterns may contain groups: in the function bound to fn:tokenize the tokens of the '
        'translated pattern are produced from match positions (finditer/search), or from split() '
        'sliced with the stride `groups + 1` — never from a plain split() of the translated '
        'pattern (tokenize("xaby", "(a)b") would return ("x", "a", "y")).')
    funcs = set()
    for rec in ctx.reg.all_records():
        if rec.symbol == 'tokenize':
            ref = rec.method('evaluate') or rec.method('select')
            if ref is not None and ref.func is not None and ref.origin != 'class':
                funcs.add(ref.func)
    if not funcs:
        raise AnalysisError('function bound to fn:tokenize not located')
    n = 0
    helpers = translate_helpers(model)
    for f in sorted(funcs, key=lambda q: q.key):
        via_helper = {t.id for st in walk_local(f.node) if isinstance(st, ast.Assign)
                      and isinstance(st.value, ast.Call)
                      and dotted(st.value.func).split('.')[-1] in helpers
                      for t in st.targets if isinstance(t, ast.Name)}
        translated = via_helper | {t.id for st in walk_local(f.node) if isinstance(st, ast.Assign)
                      and isinstance(st.value, ast.Call)
                      and dotted(st.value.func).split('.')[-1] == 'translate_pattern'
                      for t in st.targets if isinstance(t, ast.Name)}
        compiled = via_helper | {t.id for st in walk_local(f.node) if isinstance(st, ast.Assign)
                    and isinstance(st.value, ast.Call)
                    and dotted(st.value.func) in ('re.compile', 'compile')
                    and any(isinstance(a, ast.Name) and a.id in translated
                            or (isinstance(a, ast.Call) and
                                dotted(a.func).split('.')[-1] == 'translate_pattern')
                            for a in st.value.args)
                    for t in st.targets if isinstance(t, ast.Name)}
        parents: dict[int, ast.AST] = {}
        for a in ast.walk(f.node):
            for c in ast.iter_child_nodes(a):
                parents[id(c)] = a
        uses_positions = any(isinstance(c, ast.Call) and isinstance(c.func, ast.Attribute)
                             and c.func.attr in ('finditer', 'search', 'match', 'scanner')
                             and dotted(c.func.value) in compiled for c in walk_local(f.node))
        splits = [c for c in walk_local(f.node) if isinstance(c, ast.Call)
                  and ((isinstance(c.func, ast.Attribute) and c.func.attr == 'split'
                        and dotted(c.func.value) in compiled)
                       or (dotted(c.func) == 're.split' and c.args and
                           isinstance(c.args[0], ast.Name) and c.args[0].id in translated))]
        n += 1
        res.instances.append(f'{f.key}: split() of the translated pattern: {len(splits)}, '
                             f'uses match positions: {uses_positions}')
        bad = []
        for c in splits:
            par = parents.get(id(c))
            strided = isinstance(par, ast.Subscript) and isinstance(par.slice, ast.Slice) and \
                par.slice.step is not None and 'groups' in stmt_text(par.slice.step)
            if not strided:
                bad.append(c)
        if bad:
            res.fail(finding('R12.5', f, bad[0], 'split of a pattern with groups',
                             f'`{stmt_text(bad[0])[:50]}` splits on the translated XPath pattern: '
                             f're.split() inserts the captured groups among the tokens '
                             f'(tokenize("xaby", "(a)b") returns "x", "a", "y")'))
        elif not splits and not uses_positions:
            raise AnalysisError(f'{f.key}: neither split() nor a match-position loop located')
        else:
            res.ok()
    counts['tokenize_impls'] = n
    return res


def r12_6(ctx, counts: dict[str, int]) -> RuleResult:
    """the flags argument is a set of letters: order and repetition do not matter"""
    from ..engine.cfg import assigned_names
    model: Model = ctx.model
    res = RuleResult(
        'R12.6', 'FLAGS-ARE-A-SET',
        'The $flags argument of fn:matches / replace / tokenize / analyze-string is a set of '
        'letters (F&O 5.6.2): "qi" and "iq" mean the same, and so do "q" and "qq". In every loop '
        'over the characters of the flags string (a loop whose body dispatches on the character '
        'with `c in "smix"` / `c == "q"`) each branch therefore only accumulates: `v |= e`, or '
        '`v = <constant>`, or raises; no statement or test in the loop reads a variable that the '
        'loop writes (what has been seen so far depends on the order), and no `v = f(v)` update '
        'appears (it is applied once per repetition: re.escape() of an escaped pattern).')
    n = 0
    served = 0
    for f in sorted(model.all_functions(), key=lambda q: q.key):
        if not f.module.name.startswith('elementpath.xpath'):
            continue
        for lp in walk_local(f.node):
            if not isinstance(lp, ast.For) or not isinstance(lp.target, ast.Name):
                continue
            c = lp.target.id
            dispatch = [t for t in ast.walk(lp) if isinstance(t, ast.Compare)
                        and isinstance(t.left, ast.Name) and t.left.id == c and len(t.ops) == 1
                        and isinstance(t.comparators[0], ast.Constant)
                        and isinstance(t.comparators[0].value, str)
                        and set(t.comparators[0].value) <= set('smixq;j')
                        and t.comparators[0].value]
            if not dispatch or not any('flag' in stmt_text(x).lower() for x in ast.walk(lp)
                                       if isinstance(x, (ast.Constant, ast.Name))):
                continue
            n += 1
            # a loop in a shared helper serves every function that calls the helper
            callers = [x for g in model.all_functions() if g is not f
                       and g.module.name.startswith('elementpath.xpath')
                       for x in walk_local(g.node) if isinstance(x, ast.Call)
                       and dotted(x.func).split('.')[-1] == f.name]
            served += max(1, len(callers))
            written: set[str] = set()
            for st in ast.walk(lp):
                if isinstance(st, (ast.Assign, ast.AugAssign, ast.AnnAssign)):
                    for t in (st.targets if isinstance(st, ast.Assign) else [st.target]):
                        written |= set(assigned_names(t))
            written.discard(c)
            bad: list[tuple[ast.AST, str]] = []
            for st in [x for b in lp.body for x in ast.walk(b)]:
                if isinstance(st, ast.AugAssign):
                    if not isinstance(st.op, ast.BitOr):
                        bad.append((st, 'is not an accumulation with |='))
                    reads = {y.id for y in ast.walk(st.value) if isinstance(y, ast.Name)}
                    if reads & written:
                        bad.append((st, f'reads {sorted(reads & written)} written by the loop'))
                elif isinstance(st, (ast.Assign, ast.AnnAssign)) and st.value is not None:
                    reads = {y.id for y in ast.walk(st.value) if isinstance(y, ast.Name)}
                    if reads & written:
                        bad.append((st, f'is computed from {sorted(reads & written)}, which the '
                                        f'loop writes: applied once per repetition and dependent '
                                        f'on what was seen before'))
                elif isinstance(st, (ast.If, ast.IfExp, ast.While)):
                    reads = {y.id for y in ast.walk(st.test) if isinstance(y, ast.Name)}
                    if reads & written:
                        bad.append((st.test, f'tests {sorted(reads & written)}, which holds only '
                                             f'the flags seen so far'))
            res.instances.append(f'{f.key}: flags loop at L{lp.lineno} over `{c}`, writes '
                                 f'{sorted(written)}: order/repetition independent: {not bad}')
            if not bad:
                res.ok()
            for node, why in bad:
                res.fail(finding('R12.6', f, node, 'flags loop: ' + stmt_text(node)[:30],
                                 f'in the loop over the flags string `{stmt_text(node)[:60]}` '
                                 f'{why}; the flags are a set, so "qi" / "iq" and "q" / "qq" must '
                                 f'give the same result'))
    counts['flag_loops'] = n
    counts['flag_loops_served'] = served
    if served < 4:
        raise AnalysisError(f'flags loops located: {n} serving {served} functions < 4')
    return res


STR_REWRITES = {'replace', 'translate', 'strip', 'lstrip', 'rstrip', 'lower', 'upper', 'casefold',
                'expandtabs', 'encode', 'format', 'join', 'removeprefix', 'removesuffix', 'sub'}


def r12_7(ctx, counts: dict[str, int]) -> RuleResult:
    """fn:replace copies the unmatched text of the input verbatim"""
    res = RuleResult(
        'R12.7', 'COPIED-TEXT-NOT-REWRITTEN',
        'fn:replace returns the input with only the matches replaced ("$0" is the identity). In '
        'the function bound to `replace` the substitution is one call P.sub(repl, subject): the '
        'subject is the input argument as obtained from get_argument (never reassigned from a '
        'string rewrite of itself), and the value of the .sub() call is returned as it is: no '
        'str method (replace, translate, strip, ...) is applied to it, directly or through the '
        'variable it is stored in. A decoding pass over the whole result also decodes text that '
        'was copied from the input: replace("a\\$b", "a", "$0") lost the backslash and the q '
        'flag doubled and re-halved the backslashes of the input.')
    funcs = {}
    for rec in ctx.reg.all_records():
        if rec.symbol == 'replace' and rec.lookup_name.endswith('replace'):
            ref = rec.method('evaluate')
            if ref is not None and ref.func is not None and ref.origin != 'class':
                funcs[ref.func] = True
    if not funcs:
        raise AnalysisError('the function bound to fn:replace was not located')
    n = 0
    for f in sorted(funcs, key=lambda q: q.key):
        parent_of = {id(ch): par for par in ast.walk(f.node) for ch in ast.iter_child_nodes(par)}
        subs = [c for c in walk_local(f.node) if isinstance(c, ast.Call)
                and isinstance(c.func, ast.Attribute) and c.func.attr == 'sub'
                and dotted(c.func.value) not in ('re',) and len(c.args) == 2]
        for c in subs:
            n += 1
            problems = []
            parent = parent_of.get(id(c))
            if isinstance(parent, ast.Attribute) and parent.value is c:
                problems.append((parent, f'`.{parent.attr}(..)` is applied to the result of the '
                                         f'substitution'))
            elif isinstance(parent, ast.Assign) and len(parent.targets) == 1 \
                    and isinstance(parent.targets[0], ast.Name):
                v = parent.targets[0].id
                for x in walk_local(f.node):
                    if isinstance(x, ast.Call) and isinstance(x.func, ast.Attribute) \
                            and x.func.attr in STR_REWRITES and dotted(x.func.value) == v:
                        problems.append((x, f'`{stmt_text(x)[:40]}` rewrites the result of the '
                                            f'substitution'))
            subj = c.args[1]
            if isinstance(subj, ast.Name):
                for x in walk_local(f.node):
                    if isinstance(x, (ast.Assign, ast.AnnAssign, ast.AugAssign)):
                        tg = x.targets if isinstance(x, ast.Assign) else [x.target]
                        if any(dotted(t) == subj.id for t in tg) and x.value is not None and any(
                                isinstance(y, ast.Call) and isinstance(y.func, ast.Attribute)
                                and y.func.attr in STR_REWRITES
                                and any(isinstance(z, ast.Name) and z.id == subj.id
                                        for z in ast.walk(y))
                                for y in ast.walk(x.value)):
                            problems.append((x, f'the subject `{subj.id}` of the substitution is '
                                                f'rewritten first: `{stmt_text(x)[:50]}`'))
            elif not (isinstance(subj, ast.Call) and 'get_argument' in stmt_text(subj)):
                problems.append((subj, f'the subject `{stmt_text(subj)[:40]}` of the substitution '
                                       f'is not the input argument'))
            res.instances.append(f'{f.key}: L{c.lineno} `{stmt_text(c)[:50]}` copied text '
                                 f'untouched: {not problems}')
            if not problems:
                res.ok()
            for node, why in problems:
                res.fail(finding('R12.7', f, node, 'copied text rewritten',
                                 f'{why}: the text copied from the input is rewritten together '
                                 f'with the replacements, so replace(S, P, "$0") is not S for an '
                                 f'S that contains the rewritten sequence (e.g. "a\\$b")'))
    counts['replace_substitutions'] = n
    if n < 1:
        raise AnalysisError('fn:replace: no P.sub(repl, subject) call located')
    return res


def r12_8(ctx, counts: dict[str, int]) -> RuleResult:
    """the class tokeniser consumes an escaped backslash before any other escape"""
    import re._parser as sre_parse  # type: ignore[import-not-found]
    import re._constants as sre_c  # type: ignore[import-not-found]
    model: Model = ctx.model
    res = RuleResult(
        'R12.8', 'CLASS-TOKENISER-ESCAPED-BACKSLASH',
        'CharacterClass splits the text of a class with the regex _re_char_set into escapes and '
        'literal runs. The regex scans from the left, so in `\\\\d` (an escaped backslash '
        'followed by the letter d) it must consume the pair `\\\\` first; otherwise the second '
        'backslash is paired with the letter and [\\\\d] matches digits, [\\\\s] white space, '
        '[\\\\t] a TAB. Read from the regex AST (re._parser, data only): the alternation of '
        '_re_char_set has a branch that is exactly two literal backslashes, placed before every '
        'branch that starts with one backslash followed by a character set.')
    cls = model.find_class('CharacterClass')
    pat = None
    for st in cls.node.body:
        if isinstance(st, ast.Assign) and any(dotted(t) == '_re_char_set' for t in st.targets) \
                and isinstance(st.value, ast.Call) and st.value.args:
            try:
                pat = ast.literal_eval(st.value.args[0])
            except ValueError:
                raise AnalysisError('CharacterClass._re_char_set is not a literal pattern')
    if pat is None:
        raise AnalysisError('CharacterClass._re_char_set vanished')
    tree = sre_parse.parse(pat)
    branches = None
    prefixed = False       # sre factors a common leading backslash out of the alternation
    stack = [tree]
    while stack and branches is None:
        cur = stack.pop()
        items = list(cur)
        for k, (op, av) in enumerate(items):
            if op is sre_c.BRANCH:
                branches = av[1]
                prefixed = k > 0 and items[k - 1][0] is sre_c.LITERAL and items[k - 1][1] == 92
                break
            if op is sre_c.SUBPATTERN:
                stack.append(av[3])
    if branches is None:
        raise AnalysisError('_re_char_set: alternation not located')

    def is_bs(item) -> bool:
        return item[0] is sre_c.LITERAL and item[1] == 92
    if prefixed:
        pair = [i for i, b in enumerate(branches) if len(b) == 1 and is_bs(b[0])]
        single = [i for i, b in enumerate(branches) if len(b) >= 1 and not is_bs(b[0])]
    else:
        pair = [i for i, b in enumerate(branches) if len(b) == 2 and is_bs(b[0]) and is_bs(b[1])]
        single = [i for i, b in enumerate(branches)
                  if len(b) >= 2 and is_bs(b[0]) and not is_bs(b[1])]
    counts['class_tokeniser_branches'] = len(branches)
    ok = bool(pair) and all(pair[0] < i for i in single)
    res.instances.append(f'_re_char_set: {len(branches)} branches, escaped-backslash branch at '
                         f'{pair[:1] or None}, single-escape branches at {single}: {ok}')
    if ok:
        res.ok()
    else:
        res.fail(finding('R12.8', None, cls.node, 'escaped backslash not tokenised first',
                         f'CharacterClass._re_char_set {pat!r} has no branch for the pair of '
                         f'backslashes before its single-escape branches: in [\\\\d] the second '
                         f'backslash is paired with `d` and the class matches digits instead of '
                         f'a backslash and the letter d', module=cls.module))
    if not single:
        raise AnalysisError('_re_char_set: no single-escape branch located')
    return res


def r12_9(ctx, counts: dict[str, int]) -> RuleResult:
    """analyze-string: the cursor into the input never moves backwards"""
    from ..engine.dataflow import branch_facts
    res = RuleResult(
        'R12.9', 'ANALYZE-STRING-CURSOR-MONOTONE',
        'fn:analyze-string partitions its input: the text it emits is a sequence of slices '
        'S[c:x] of the input taken at a cursor c that is then moved to the end of what was '
        'emitted. In the function bound to analyze-string (and its local helpers) every '
        'assignment `c = e` to a cursor (a name used as the lower bound of a slice of the input) '
        'inside a loop moves it forward: e is the end of a span (lo, hi) unpacked from '
        '`.span(..)` with a branch fact that lo is not before c (`not lo < c`, `lo > c`, '
        '`lo >= c`, `lo == c`), or the span is the whole match of a search that started at c. A '
        'group captured in an earlier iteration of a repeated group lies before the cursor: '
        "analyze-string('ba', '((a)|(b))+') emitted 'b', 'b', 'a'.")
    funcs = {}
    for rec in ctx.reg.all_records():
        if rec.symbol == 'analyze-string':
            ref = rec.method('evaluate')
            if ref is not None and ref.func is not None and ref.origin != 'class':
                funcs[ref.func] = True
    if not funcs:
        raise AnalysisError('the function bound to fn:analyze-string was not located')
    n = 0
    for top in sorted(funcs, key=lambda q: q.key):
        scopes = [top] + [g for g in top.module.functions.values() if g.parent is top]
        for f in scopes:
            # the input: the name sliced with name bounds
            slices = [x for x in walk_local(f.node) if isinstance(x, ast.Subscript)
                      and isinstance(x.slice, ast.Slice) and isinstance(x.value, ast.Name)
                      and isinstance(x.slice.lower, ast.Name)]
            cursors = {x.slice.lower.id for x in slices}
            if not cursors:
                continue
            pairs: dict[str, tuple[str, ast.Call]] = {}     # hi -> (lo, span call)
            for x in walk_local(f.node):
                if isinstance(x, ast.Assign) and len(x.targets) == 1 \
                        and isinstance(x.targets[0], ast.Tuple) and len(x.targets[0].elts) == 2 \
                        and all(isinstance(e, ast.Name) for e in x.targets[0].elts) \
                        and isinstance(x.value, ast.Call) and isinstance(x.value.func, ast.Attribute) \
                        and x.value.func.attr == 'span':
                    lo, hi = (e.id for e in x.targets[0].elts)
                    pairs[hi] = (lo, x.value)
            searched: dict[str, str] = {}      # match variable -> start position name
            for x in walk_local(f.node):
                if isinstance(x, ast.Assign) and len(x.targets) == 1 \
                        and isinstance(x.targets[0], ast.Name) and isinstance(x.value, ast.Call) \
                        and isinstance(x.value.func, ast.Attribute) \
                        and x.value.func.attr in ('search', 'match') and len(x.value.args) == 2 \
                        and isinstance(x.value.args[1], ast.Name):
                    searched[x.targets[0].id] = x.value.args[1].id
            cfg = CFG(f.node)
            facts = branch_facts(cfg)
            loops = [lp for lp in walk_local(f.node) if isinstance(lp, (ast.For, ast.While))]
            for nd in cfg.nodes:
                a = nd.ast
                if nd.kind != 'stmt' or not isinstance(a, ast.Assign) or len(a.targets) != 1 \
                        or not isinstance(a.targets[0], ast.Name) or a.targets[0].id not in cursors:
                    continue
                if not any(y is a for lp in loops for y in ast.walk(lp)):
                    continue
                c = a.targets[0].id
                n += 1
                ok = False
                why = ''
                if isinstance(a.value, ast.Name) and a.value.id in pairs:
                    lo, call = pairs[a.value.id]
                    recv = dotted(call.func.value)
                    if not call.args and searched.get(recv) == c:
                        ok, why = True, f'end of the match of a search started at {c}'
                    else:
                        fs = facts[nd.id]
                        for fa in fs:
                            if fa in (f'-{lo} < {c}', f'+{lo} > {c}', f'+{lo} >= {c}',
                                      f'+{lo} == {c}', f'-{c} > {lo}', f'+{c} <= {lo}',
                                      f'+{c} < {lo}'):
                                ok, why = True, f'fact {fa}'
                if not ok and isinstance(a.value, ast.Name):
                    e = a.value.id
                    for fa in facts[nd.id]:
                        if fa in (f'+{e} > {c}', f'+{e} >= {c}', f'-{e} < {c}', f'+{c} < {e}',
                                  f'+{c} <= {e}', f'-{c} > {e}'):
                            ok, why = True, f'fact {fa}'
                res.instances.append(f'{f.key}: L{a.lineno} `{stmt_text(a)}` moves the cursor '
                                     f'forward: {ok} ({why or "no fact relates it to the cursor"})')
                if ok:
                    res.ok()
                else:
                    res.fail(finding('R12.9', f, a, f'cursor {c} may move backwards',
                                     f'`{stmt_text(a)}` moves the cursor `{c}` into the input to a '
                                     f'position that is not established to be at or after it '
                                     f'(a group captured in an earlier iteration of a repeated '
                                     f'group starts before the cursor): the emitted pieces are '
                                     f'then not a partition of the input'))
    counts['cursor_assignments'] = n
    if n < 2:
        raise AnalysisError(f'analyze-string: cursor assignments located: {n} < 2')
    return res


def r12_10(ctx, counts: dict[str, int]) -> RuleResult:
    """every letter after a backslash is translated, passed through soundly, or rejected"""
    import string
    model: Model = ctx.model
    res = RuleResult(
        'R12.10', 'ESCAPE-DISPATCH',
        'Outside brackets translate_pattern dispatches on the character after a backslash with an '
        'if/elif chain and ends in a pass-through `regex.append("\\%s" % pattern[pos])`. The '
        'chain is interpreted for each of the 52 ASCII letters: n r t (SingleCharEsc) and d D '
        '(Python\'s \\d on str is \\p{Nd}) may be passed through; i I c C p P are translated by '
        'their own branch; s S w W must be translated too, because Python\'s \\s (all Unicode '
        'white space) and \\w (alphanumerics and "_") are not XSD\'s [ \\t\\n\\r] and '
        '[^\\p{P}\\p{Z}\\p{C}] — the bracketed forms [\\s] [\\w] are translated by '
        'CharacterClass and disagree with the bare ones; every other letter is not an XSD escape '
        'and must reach a `raise RegexError` (Python gives \\a \\f \\v a meaning of its own).')
    mod = model.module('elementpath.regex.patterns')
    f = mod.toplevel_function('translate_pattern')
    if f is None:
        raise AnalysisError('regex.patterns.translate_pattern vanished')
    branch = None
    for st in ast.walk(f.node):
        if isinstance(st, ast.If) and isinstance(st.test, ast.Compare) \
                and stmt_text(st.test).replace('"', "'") == "ch == '\\\\'":
            branch = st
    if branch is None:
        raise AnalysisError('translate_pattern: the backslash branch was not located')
    def chain_tests(st: ast.stmt):
        while isinstance(st, ast.If):
            yield st.test
            st = st.orelse[0] if len(st.orelse) == 1 else None
    # the escape character itself, or a local it has been read into
    subj = {'pattern[pos]'} | {
        t.id for st in branch.body if isinstance(st, (ast.Assign, ast.AnnAssign))
        and st.value is not None and any(stmt_text(y) == 'pattern[pos]' for y in ast.walk(st.value))
        for t in (st.targets if isinstance(st, ast.Assign) else [st.target])
        if isinstance(t, ast.Name)}
    chain = [st for st in branch.body if isinstance(st, ast.If) and any(
        stmt_text(y) in subj for t in chain_tests(st) for y in ast.walk(t))
        and not any(isinstance(x, ast.While) for x in st.body)]
    if not chain:
        raise AnalysisError('translate_pattern: the escape dispatch chain was not located')
    consts = {'ascii_letters': string.ascii_letters, 'ascii_lowercase': string.ascii_lowercase,
              'ascii_uppercase': string.ascii_uppercase, 'digits': string.digits}
    for a_ in mod.tree.body:
        if isinstance(a_, ast.Assign) and len(a_.targets) == 1 and isinstance(a_.targets[0], ast.Name) \
                and isinstance(a_.value, ast.Constant) and isinstance(a_.value.value, str):
            consts[a_.targets[0].id] = a_.value.value

    def ev(e: ast.AST, c: str):
        if isinstance(e, ast.Constant):
            return e.value
        if isinstance(e, ast.Tuple):
            return tuple(ev(x, c) for x in e.elts)
        if stmt_text(e) in subj:
            return c
        if isinstance(e, ast.Name) and e.id in consts:
            return consts[e.id]
        if isinstance(e, ast.UnaryOp) and isinstance(e.op, ast.Not):
            return not ev(e.operand, c)
        if isinstance(e, ast.BoolOp):
            vs = [ev(v, c) for v in e.values]
            return all(vs) if isinstance(e.op, ast.And) else any(vs)
        if isinstance(e, ast.Compare) and len(e.ops) == 1:
            if stmt_text(e) in ('pos >= pattern_len', 'pos == pattern_len'):
                return False
            a, b = ev(e.left, c), ev(e.comparators[0], c)
            op = e.ops[0]
            if isinstance(op, ast.In):
                return a in b
            if isinstance(op, ast.NotIn):
                return a not in b
            if isinstance(op, ast.Eq):
                return a == b
            if isinstance(op, ast.NotEq):
                return a != b
        if isinstance(e, ast.Call) and isinstance(e.func, ast.Attribute) and not e.args \
                and e.func.attr in ('isdigit', 'isalpha', 'isalnum', 'isupper', 'islower'):
            return getattr(ev(e.func.value, c), e.func.attr)()
        raise AnalysisError(f'escape dispatch: `{stmt_text(e)[:50]}` not interpreted')

    def outcome(c: str) -> str:
        st: Optional[ast.stmt] = chain[-1]
        body: list[ast.stmt] = []
        while isinstance(st, ast.If):
            if ev(st.test, c):
                body = st.body
                break
            body = st.orelse
            st = st.orelse[0] if len(st.orelse) == 1 and isinstance(st.orelse[0], ast.If) else None
        if any(isinstance(x, ast.Raise) for b in body for x in ast.walk(b)) and not any(
                isinstance(x, ast.Try) for b in body for x in ast.walk(b)):
            return 'rejected'
        if any(isinstance(x, ast.BinOp) and isinstance(x.op, ast.Mod)
               and stmt_text(x.right) in subj for b in body for x in ast.walk(b)) \
                and len(body) == 1:
            return 'passed'
        return 'translated'
    n = 0
    for c in string.ascii_letters:
        n += 1
        out = outcome(c)
        if c in 'nrtdD':
            want = ('passed', 'translated')
        elif c in 'iIcCpPsSwW':
            want = ('translated',)
        else:
            want = ('rejected',)
        res.instances.append(f'\\{c}: {out} (required: {"/".join(want)})')
        if out in want:
            res.ok()
        elif c in 'sSwW':
            res.fail(finding('R12.10', f, chain[-1], f'\\{c} passed to Python',
                             f'the escape \\{c} outside brackets is emitted as Python\'s \\{c}, '
                             f'which is not the XSD class: \\s is [ \\t\\n\\r] (Python: all Unicode '
                             f'white space, e.g. U+00A0, U+000C) and \\w is [^\\p{{P}}\\p{{Z}}\\p{{C}}] '
                             f'(Python: alphanumerics and "_", not "+"); the bracketed form '
                             f'[\\{c}] is translated by CharacterClass and disagrees'))
        else:
            res.fail(finding('R12.10', f, chain[-1], f'\\{c} {out}',
                             f'\\{c} is {out} by the escape dispatch of translate_pattern but '
                             f'must be {"/".join(want)}: it is not an XSD escape (an invalid '
                             f'pattern must raise RegexError; Python gives \\a \\f \\v a meaning '
                             f'of its own)' if want == ('rejected',) else
                             f'\\{c} is {out} by the escape dispatch of translate_pattern but '
                             f'must be {"/".join(want)}'))
    counts['escape_letters'] = n
    return res

def r12_11(ctx, counts: dict[str, int]) -> RuleResult:
    """a back-reference \\n is defined iff n <= number of groups opened so far"""
    model: Model = ctx.model
    res = RuleResult(
        'R12.11', 'BACKREF-BOUND-INCLUSIVE',
        'In translate_pattern the counter of the capturing groups opened so far (the name '
        'incremented where a capturing `(` is translated) bounds the back-references: \\n is a '
        'reference iff n <= counter, and the digits that follow are part of it only while the '
        'longer number still satisfies that. Every comparison between the counter and a number '
        'read from the pattern therefore splits at n <= counter | n > counter — whatever its '
        'polarity: `counter < n`, `n > counter`, `n <= counter`, `counter >= n` are the four '
        'admissible forms; `n < counter` or `counter <= n` put the reference to the LAST group '
        'on the wrong side ((a)…(j)\\10 became \\1[0]).')
    mod = model.modules.get('elementpath.regex.patterns')
    f = mod.toplevel_function('translate_pattern') if mod is not None else None
    if f is None:
        raise AnalysisError('regex.patterns.translate_pattern vanished')
    counters = {x.target.id for x in walk_local(f.node) if isinstance(x, ast.AugAssign)
                and isinstance(x.target, ast.Name) and isinstance(x.op, ast.Add)
                and 'group' in x.target.id}
    if not counters:
        raise AnalysisError(f'{f.key}: no group counter (a name containing "group" incremented)')
    n = 0
    for x in walk_local(f.node):
        if not (isinstance(x, ast.Compare) and len(x.ops) == 1):
            continue
        l, r, op = x.left, x.comparators[0], x.ops[0]
        lc = isinstance(l, ast.Name) and l.id in counters
        rc = isinstance(r, ast.Name) and r.id in counters
        if lc == rc or not isinstance(op, (ast.Lt, ast.LtE, ast.Gt, ast.GtE)):
            continue
        other = r if lc else l
        if isinstance(other, ast.Constant):
            continue
        n += 1
        # normalise to  number OP counter
        if lc:
            op = {ast.Lt: ast.Gt, ast.LtE: ast.GtE, ast.Gt: ast.Lt, ast.GtE: ast.LtE}[type(op)]()
        good = isinstance(op, (ast.Gt, ast.LtE))
        res.instances.append(f'{f.key}: L{x.lineno} `{stmt_text(x)}` splits at n <= counter={good}')
        if good:
            res.ok()
        else:
            res.fail(finding('R12.11', f, x, f'{stmt_text(x)[:40]}',
                             f'`{stmt_text(x)}` treats a reference number equal to the number '
                             f'of groups as undefined: the reference to the last group is cut '
                             f'((a)(b)(c)(d)(e)(f)(g)(h)(i)(j)\\10 is translated to \\1[0])'))
    counts['backref_bound_comparisons'] = n
    if n < 1:
        raise AnalysisError(f'{f.key}: no comparison between the group counter and a reference')
    return res


def run(ctx) -> dict:
    counts: dict[str, int] = {}
    from .c13_unicode import r13_3
    from .c13_unicode import r13_4
    from .c13_unicode import r13_6
    from .c13_unicode import r13_7
    from .c13_unicode import r13_9
    results = [r12_1(ctx, counts), r12_2(ctx, counts), r13_3(ctx, counts), r12_4(ctx, counts),
               r13_4(ctx, counts), r12_5(ctx, counts), r13_6(ctx, counts),
               r13_7(ctx, counts), r12_6(ctx, counts),
               r12_7(ctx, counts), r13_9(ctx, counts), r12_8(ctx, counts),
               r12_9(ctx, counts), r12_10(ctx, counts), r12_11(ctx, counts)]
    # process-wide state is written only by the reviewed inventory (no new caches)
    from .c19_global import r19_5 as _r19_5
    _state = _r19_5(ctx, counts, lambda f: f.module.name.startswith('elementpath.regex'), 2)
    return {
        'results': results + [_state], 'counts': counts,
        'explanation':
            'Decided statically: (1) the four XPath regex functions agree on the set of '
            'exception classes from pattern translation/compilation that they convert to '
            'FORX0002 (sibling cross-check; the required set is the union over the siblings); '
            '(3) the class-subtraction operator of the translator removes the subtrahend\'s '
            'positive members on every path (R13.3, shared with C13); '
            '(2) argument text interpolated into markup is escaped before the markup is parsed '
            '(forward taint over the CFG of every function that calls an XML text parser).',
        'not_decided':
            'Language equivalence of translate_pattern with the XSD regex semantics (decided '
            'for the class algebra only: the in-place set operations of CharacterClass, R13.9, '
            'and the representation laws R13.6), and mutual consistency of matches/replace/'
            'tokenize/analyze-string on values (decided: the flags are a set, R12.6; replace '
            'copies unmatched text verbatim, R12.7; tokenize does not leak groups, R12.5). '
            'Observed and not decided: analyze-string is not a partition when a later group '
            'matches before an earlier one ((a)|(b))+ on "ba"), [\\t-\\r] is not read as a '
            'range.',
        'assumptions': ['escaping functions are recognised by name: ' + ', '.join(sorted(ESCAPERS))],
    }
