"""
C16 — function items are first-class values: freshness of function items.

R16.1 ITEM-FRESHNESS   evaluating a function-valued expression returns a fresh object (or a
                       copy), never the syntax token with evaluation state stored on it
R16.2 CALL-EFFECTS     the function-item machinery does not write into syntax tokens
                       (instances of R05.1 in the function-item code)
R16.3 CLOSURE-CAPTURE  the captured variables are a copy owned by the function item, and
                       parameters are bound in a copied dictionary (instance of R05.2)
"""
from __future__ import annotations

import ast

from ..engine.srcmodel import AnalysisError, Model, dotted, stmt_text, walk_local
from ..engine.cfg import CFG, calls_may_raise, node_writes
from ..engine.dataflow import branch_facts
from ..engine.report import RuleResult
from .common import finding
from .c05_purity import r05_1, r05_2, phases, fresh_names

ITEM_CODE = ('_InlineFunction.', 'XPathFunction.__call__', 'XPathFunction.to_partial_function',
             'XPathFunction._partial', 'evaluate__parenthesized_expression',
             'evaluate__function_reference', 'evaluate__arrow_operator',
             'evaluate__function_lookup', 'XPathMap.', 'XPathArray.')


def r16_1(ctx, counts) -> RuleResult:
    model: Model = ctx.model
    cg, dyn, par = phases(ctx)
    res = RuleResult(
        'R16.1', 'ITEM-FRESHNESS',
        'Instances: evaluate() of every token class derived from XPathFunction that is defined '
        'as a class (inline functions, maps, arrays) and the evaluate functions bound to "#" and '
        'to the dynamic call "(". Every `return self` there is either dominated by a test that '
        'shows the token already is a value (self._map / self._array is not None; the token is '
        'a partial-function value) or the function has stored nothing on self on that path; an '
        'object that receives evaluation state (attribute store after construction) and is '
        'returned must be fresh or a copy made in the function.')
    fn_cls = model.find_class('XPathFunction')
    funcs = []
    for c in model.subclasses_of(fn_cls):
        m = c.methods.get('evaluate')
        if m is not None and m.cls is c:
            funcs.append(m)
    for sym in ('#', '('):
        rec = ctx.reg.tables['XPath31Parser'].get(sym)
        if rec is not None and rec.method('evaluate') is not None:
            funcs.append(rec.method('evaluate').func)
    counts['function_valued_evaluates'] = len(funcs)
    for f in funcs:
        cfg = CFG(f.node, calls_may_raise)
        facts = branch_facts(cfg)
        me = f.params()[0]
        fresh = fresh_names(f, model)
        stores_self = [n for n in cfg.nodes
                       if any(t.startswith(me + '.') for t, _ in node_writes(n))]
        for n in cfg.nodes:
            if n.kind != 'stmt' or not isinstance(n.ast, ast.Return) or n.ast.value is None:
                continue
            v = n.ast.value
            if stmt_text(v) == me:
                fs = facts[n.id]
                value_guard = any(x in fs for x in (f'-{me}._map is None', f'-{me}._array is None'))
                after_store = any(cfg.path_avoiding([s], lambda q, n=n: q is n, lambda q: False,
                                                    skip_start=False) is not None
                                  for s in stores_self)
                res.instances.append(f'{f.key}: return {me} at L{n.lineno} value-guard='
                                     f'{value_guard} after-store={after_store}')
                if after_store and not value_guard:
                    res.fail(finding('R16.1', f, n.ast, f'return {me} after store',
                                     f'{f.qualname} stores evaluation state on the syntax token '
                                     f'and returns the token itself as the function item: every '
                                     f'item created from this expression shares the state of '
                                     f'the last evaluation'))
                else:
                    res.ok()
            elif isinstance(v, ast.Name) and v.id in fresh:
                res.instances.append(f'{f.key}: returns {v.id} ({fresh[v.id]}) at L{n.lineno}')
                res.ok()
    return res


def r16_3(ctx, counts) -> RuleResult:
    model: Model = ctx.model
    res = RuleResult(
        'R16.3', 'CLOSURE-CAPTURE',
        '_InlineFunction.evaluate assigns the captured environment as '
        '`<item>.variables = context.variables.copy()` on the object it returns (a snapshot '
        'owned by that item, not an alias of the live dictionary and not stored on self).')
    cls = model.find_class('_InlineFunction')
    ev = cls.methods.get('evaluate')
    if ev is None:
        raise AnalysisError('_InlineFunction.evaluate vanished')
    stores = [n for n in walk_local(ev.node) if isinstance(n, ast.Assign)
              and any(isinstance(t, ast.Attribute) and t.attr == 'variables' for t in n.targets)]
    counts['closure_stores'] = len(stores)
    if not stores:
        res.fail(finding('R16.3', ev, ev.node, 'no capture',
                         'the inline function no longer captures the variables in scope'))
    for s in stores:
        tgt = [t for t in s.targets if isinstance(t, ast.Attribute)][0]
        val = stmt_text(s.value)
        res.instances.append(f'{ev.key}: {stmt_text(tgt)} = {val}')
        if not (val.endswith('.variables.copy()') or val.startswith('dict(')):
            res.fail(finding('R16.3', ev, s, 'capture by alias',
                             f'`{stmt_text(s)}` captures the live variables dictionary instead '
                             f'of a snapshot: later bindings of the enclosing for/let change '
                             f'what the function item sees'))
        elif dotted(tgt.value) == ev.params()[0]:
            res.fail(finding('R16.3', ev, s, 'capture stored on the syntax token',
                             f'`{stmt_text(s)}` stores the closure on the syntax token: all '
                             f'function items created from this expression share the last one'))
        else:
            res.ok()
    return res


def r16_5(ctx, counts) -> RuleResult:
    """Closure precedence and context snapshot."""
    model: Model = ctx.model
    res = RuleResult(
        'R16.5', 'CLOSURE-PRECEDENCE / CONTEXT-SNAPSHOT',
        '(a) When an inline function is called, its body sees the variables of its closure and '
        'its parameters, not those of the calling context (lexical scoping): in '
        '_InlineFunction.__call__ the call context gets a copy of the closure alone '
        '(`ctx.variables = self.variables.copy()` / `dict(self.variables)` / '
        '`{**self.variables}`). Overlaying the closure on the caller\'s variables '
        '(`.update(self.variables)`, `{**ctx.variables, **self.variables}`, '
        '`ctx.variables | self.variables`) leaves the free variables that are not in the closure '
        'to the caller\'s scope; the other way round also overrides the captured ones. (b) A function item that binds a dynamic context '
        '(`<item>.context = …` in the evaluate of "#" and of fn:function-lookup) binds a copy '
        '(`copy(context)`), not the live context whose focus moves on.')
    cls = model.find_class('_InlineFunction')
    call = cls.methods.get('__call__')
    if call is None:
        raise AnalysisError('_InlineFunction.__call__ vanished')
    me = call.params()[0]
    n = 0
    for x in walk_local(call.node):
        # update form
        if isinstance(x, ast.Call) and isinstance(x.func, ast.Attribute) \
                and x.func.attr == 'update' and stmt_text(x.func.value).endswith('.variables') \
                and x.args:
            n += 1
            a = stmt_text(x.args[0])
            recv = stmt_text(x.func.value)
            res.instances.append(f'{call.key}: {recv}.update({a})')
            if a == f'{me}.variables' and not recv.startswith(me + '.'):
                res.fail(finding('R16.5', call, x, 'caller scope visible in the body',
                                 f'`{stmt_text(x)[:60]}` overlays the closure on the variables '
                                 f'of the calling context: a free variable of the body that is '
                                 f'not in the closure is resolved in the caller\'s scope '
                                 f'(`let $f := function(){{$z}} return (let $z := 5 return '
                                 f'$f())` is 5 instead of XPST0008)'))
            elif recv == f'{me}.variables':
                res.fail(finding('R16.5', call, x, 'closure updated from the caller',
                                 f'`{stmt_text(x)[:60]}` writes the caller\'s variables into the '
                                 f'closure: the captured bindings are overridden'))
        # merge forms
        if isinstance(x, ast.Dict) and any(k is None for k in x.keys):
            parts = [stmt_text(v) for k, v in zip(x.keys, x.values) if k is None]
            if f'{me}.variables' in parts:
                n += 1
                res.instances.append(f'{call.key}: dict merge {parts}')
                if parts[-1] == f'{me}.variables' and len(parts) == 1:
                    res.ok()
                elif parts[-1] == f'{me}.variables':
                    res.fail(finding('R16.5', call, x, 'caller scope visible in the body',
                                     f'`{stmt_text(x)[:60]}` merges the closure over the '
                                     f'variables of the calling context: free variables of the '
                                     f'body resolve in the caller\'s scope'))
                else:
                    res.fail(finding('R16.5', call, x, 'closure merged first',
                                     f'`{stmt_text(x)[:60]}`: the captured variables are merged '
                                     f'BEFORE the caller\'s, so a variable of the calling scope '
                                     f'with the same name replaces the captured one (dynamic '
                                     f'instead of lexical scoping)'))
        if isinstance(x, ast.BinOp) and isinstance(x.op, ast.BitOr) \
                and f'{me}.variables' in (stmt_text(x.left), stmt_text(x.right)):
            n += 1
            if stmt_text(x.right) == f'{me}.variables':
                res.fail(finding('R16.5', call, x, 'caller scope visible in the body',
                                 f'`{stmt_text(x)[:60]}` merges the closure over the variables '
                                 f'of the calling context'))
            else:
                res.fail(finding('R16.5', call, x, 'closure merged first',
                                 f'`{stmt_text(x)[:60]}`: captured variables lose to the '
                                 f'caller\'s'))
        # replacement form: the call context gets a copy of the closure only
        if isinstance(x, ast.Assign) and len(x.targets) == 1 \
                and stmt_text(x.targets[0]).endswith('.variables') \
                and not stmt_text(x.targets[0]).startswith(me + '.') \
                and stmt_text(x.value) in (f'{me}.variables.copy()', f'dict({me}.variables)',
                                           f'{{**{me}.variables}}'):
            n += 1
            res.instances.append(f'{call.key}: {stmt_text(x)[:60]} (closure replaces the '
                                 f'variables of the calling context)')
            res.ok()
    if n == 0:
        res.fail(finding('R16.5', call, call.node, 'closure not applied',
                         'the captured variables are never applied to the call context'))
    counts['closure_applications'] = n
    # (b) context snapshot
    k = 0
    for f in model.all_functions():
        for x in walk_local(f.node):
            if isinstance(x, ast.Assign) and len(x.targets) == 1 \
                    and isinstance(x.targets[0], ast.Attribute) and x.targets[0].attr == 'context' \
                    and isinstance(x.targets[0].value, ast.Name) \
                    and x.targets[0].value.id not in ('self', 'self_'):
                v = stmt_text(x.value)
                if v in ('None',):
                    continue
                k += 1
                res.instances.append(f'{f.key}: {stmt_text(x)[:60]}')
                in_dyn = f.name.startswith(('evaluate', 'select'))
                if v.startswith('copy(') or not in_dyn:
                    res.ok()
                else:
                    res.fail(finding('R16.5', f, x, f'{stmt_text(x.targets[0])} alias',
                                     f'`{stmt_text(x)[:60]}` binds the live dynamic context to '
                                     f'the function item: when the item is called after the '
                                     f'focus has moved on (e.g. /root/* ! name#0 collected and '
                                     f'called later) it sees the wrong context item'))
    counts['context_bindings'] = k
    return res


def r16_6(ctx, counts) -> RuleResult:
    """the comparator behind fn:sort is oriented: -1 means first operand < second operand"""
    from .sides import Sides
    model = ctx.model
    res = RuleResult(
        'R16.6', 'COMPARATOR-ORIENTATION',
        'In compare.deep_compare and its nested etree_deep_compare (the comparator behind '
        'fn:sort and array:sort) every conditional result `-1 if A < B else 1` (and the mirrored '
        'forms with >, or with 1 and -1 exchanged) returns -1 exactly when the value derived '
        'from the FIRST operand is the smaller one. Operand sides are tracked from the two '
        'parameters through assignments and zip/zip_longest loop targets. A comparison with the '
        'sides exchanged makes the comparator answer differently depending on operand order, so '
        'sort returns an unordered permutation.')
    mod = model.module('elementpath.compare')
    funcs = [f for f in mod.functions.values() if f.name in ('deep_compare', 'etree_deep_compare')]
    if len(funcs) < 1:
        raise AnalysisError('compare.deep_compare vanished')
    n = 0
    for f in sorted(funcs, key=lambda q: q.key):
        sides = Sides(f.params())
        ifexps: list[tuple[ast.IfExp, dict]] = []

        def walk(stmts: list[ast.stmt]) -> None:
            nonlocal n
            for st in stmts:
                if isinstance(st, (ast.FunctionDef, ast.AsyncFunctionDef, ast.ClassDef)):
                    continue
                if isinstance(st, ast.Assign) and len(st.targets) == 1:
                    sides.bind(st.targets[0], st.value)
                if isinstance(st, ast.For):
                    sides.bind_for(st)
                    walk(st.body)
                    walk(st.orelse)
                    continue
                simple = not isinstance(st, (ast.If, ast.While, ast.Try, ast.With, ast.Match))
                for x in (ast.walk(st) if simple else
                          ast.walk(st.test) if isinstance(st, (ast.If, ast.While)) else []):
                    if isinstance(x, ast.IfExp):
                        check(x)
                if isinstance(st, (ast.If, ast.While)):
                    walk(st.body)
                    walk(st.orelse)
                elif isinstance(st, ast.With):
                    walk(st.body)
                elif isinstance(st, ast.Try):
                    walk(st.body)
                    for h in st.handlers:
                        walk(h.body)
                    walk(st.orelse)
                    walk(st.finalbody)
                elif isinstance(st, ast.Match):
                    for case in st.cases:
                        walk(case.body)

        def const(e: ast.expr):
            if isinstance(e, ast.Constant):
                return e.value
            if isinstance(e, ast.UnaryOp) and isinstance(e.op, ast.USub) and \
                    isinstance(e.operand, ast.Constant):
                return -e.operand.value
            return None

        def check(x: ast.IfExp) -> None:
            nonlocal n
            b, o = const(x.body), const(x.orelse)
            t = x.test
            if {b, o} != {-1, 1} or not (isinstance(t, ast.Compare) and len(t.ops) == 1
                                           and isinstance(t.ops[0], (ast.Lt, ast.Gt))):
                return
            sa, sb = sides.side(t.left), sides.side(t.comparators[0])
            if sa is None or sb is None or sa == sb:
                return          # not an operand-vs-operand comparison (e.g. `-1 if value1 else 1`)
            n += 1
            first_smaller = (isinstance(t.ops[0], ast.Lt) and (sa, sb) == (1, 2)) or \
                (isinstance(t.ops[0], ast.Gt) and (sa, sb) == (2, 1))
            ok = (b == -1) == first_smaller
            res.instances.append(f'{f.key}: `{stmt_text(x)}` sides ({sa},{sb}) oriented={ok}')
            if ok:
                res.ok()
            else:
                res.fail(finding('R16.6', f, x, f'{stmt_text(x)[:50]}',
                                 f'`{stmt_text(x)}` returns {b} when the value of operand '
                                 f'{sa if isinstance(t.ops[0], ast.Lt) else sb} is the smaller one: '
                                 f'the orientation is reversed with respect to the other '
                                 f'branches, so sort((2e0, 1.5)) keeps the pair unordered'))
        # nested function: its own parameters
        walk(f.node.body)
    counts['oriented_comparisons'] = n
    if n < 6:
        raise AnalysisError(f'only {n} oriented comparisons located in deep_compare')
    return res


def r16_8(ctx, counts) -> RuleResult:
    """a placeholder is a `?` token WITHOUT operands; with operands it is a lookup"""
    model: Model = ctx.model
    res = RuleResult(
        'R16.8', 'PLACEHOLDER-IS-BARE-QUESTION-MARK',
        'The token `?` is both the argument placeholder of a partial application (no operands) '
        'and the lookup operator of XPath 3.1 (`$m?key`, `?key`: one or two operands). Every '
        'test that turns a call into a partial function — an `if` whose body calls '
        'to_partial_function() — compares the symbol with "?" AND requires the token to have no '
        'operands (`not tk`, `len(tk) == 0`), like its siblings do; with the symbol test alone '
        '`xs:float($m?k)` becomes a partial function instead of a cast.')
    n = 0
    for f in sorted(model.all_functions(), key=lambda q: q.key):
        for st in walk_local(f.node):
            if not isinstance(st, ast.If):
                continue
            if not any(isinstance(c, ast.Call) and isinstance(c.func, ast.Attribute)
                       and c.func.attr == 'to_partial_function'
                       for b in st.body for c in ast.walk(b)):
                continue
            cmps = [c for c in ast.walk(st.test) if isinstance(c, ast.Compare)
                    and any(isinstance(k, ast.Constant) and k.value == '?' for k in c.comparators)
                    and isinstance(c.left, ast.Attribute) and c.left.attr == 'symbol']
            if not cmps:
                continue
            n += 1
            subjects = {stmt_text(c.left.value) for c in cmps}
            bare = all(any(
                (isinstance(x, ast.UnaryOp) and isinstance(x.op, ast.Not) and stmt_text(x.operand) == sub)
                or (isinstance(x, ast.Compare) and stmt_text(x.left) == f'len({sub})')
                for x in ast.walk(st.test)) for sub in subjects)
            res.instances.append(f'{f.key}: `{stmt_text(st.test)[:60]}` requires a token without '
                                 f'operands={bare}')
            if bare:
                res.ok()
            else:
                res.fail(finding('R16.8', f, st, 'placeholder test on the symbol only',
                                 f'`{stmt_text(st.test)[:60]}` decides a partial application from '
                                 f'the symbol "?" alone: a lookup expression is a `?` token too '
                                 f'(xs:float(map{{1:2.5}}?1) became a partial function instead of '
                                 f'2.5)'))
    counts['placeholder_tests'] = n
    if n < 3:
        raise AnalysisError(f'only {n} placeholder tests located')
    return res


def r16_10(ctx, counts) -> RuleResult:
    """the comparator behind fn:sort is antisymmetric on its constant answers"""
    model: Model = ctx.model
    res = RuleResult(
        'R16.10', 'COMPARATOR-ANTISYMMETRIC',
        '"sort returns a stable, ordered permutation": the three-way comparator handed to '
        'sorted() (compare.deep_compare and its nested helpers) must answer cmp(b, a) = '
        '-cmp(a, b). Its pairwise variables (the targets of `for X, Y in zip_longest(..)`, the '
        'parameter pairs e1/e2, obj1/obj2) are handled by mirrored branches. Every `return -1` / '
        '`return 1` reached under branch facts about one variable of a pair is matched with '
        'the return whose facts are the same with the two variables swapped (the positive '
        'single-variable facts of one are, swapped, among those of the other); the two constants '
        'must be opposite. A branch that answers -1 from both sides (NaN as second operand, a '
        'boolean against a number, a double against a string) makes the result depend on the '
        'input order: sort((1, NaN, -1)) was (-1, NaN, 1).')
    mod = model.module('elementpath.compare')
    top = mod.toplevel_function('deep_compare')
    if top is None:
        raise AnalysisError('compare.deep_compare vanished')
    funcs = [top] + [g for g in mod.functions.values() if g.parent is top]
    n_sites = n_pairs = 0
    for f in funcs:
        pairs: set[tuple[str, str]] = set()
        params = f.params()
        for a_ in params:
            if a_.endswith('1') and a_[:-1] + '2' in params:
                pairs.add((a_, a_[:-1] + '2'))
        for lp in walk_local(f.node):
            if isinstance(lp, ast.For) and isinstance(lp.target, ast.Tuple) \
                    and len(lp.target.elts) == 2 \
                    and all(isinstance(e, ast.Name) for e in lp.target.elts) \
                    and isinstance(lp.iter, ast.Call) \
                    and dotted(lp.iter.func).split('.')[-1] in ('zip', 'zip_longest'):
                pairs.add((lp.target.elts[0].id, lp.target.elts[1].id))
        if not pairs:
            continue
        cfg = CFG(f.node)
        facts = branch_facts(cfg)

        def single(fa: str, pr: tuple[str, str]):
            try:
                names = {y.id for y in ast.walk(ast.parse(fa[1:], mode='eval'))
                         if isinstance(y, ast.Name)}
            except SyntaxError:
                return None
            hit = names & set(pr)
            return next(iter(hit)) if len(hit) == 1 else None

        def swap(fa: str, pr: tuple[str, str]) -> str:
            tree = ast.parse(fa[1:], mode='eval')
            for y in ast.walk(tree):
                if isinstance(y, ast.Name) and y.id in pr:
                    y.id = pr[1] if y.id == pr[0] else pr[0]
            return fa[0] + ast.unparse(tree.body)

        sites = []
        for nd in cfg.nodes:
            if nd.kind != 'stmt' or not isinstance(nd.ast, ast.Return) or nd.ast.value is None:
                continue
            v = nd.ast.value
            c = v.value if isinstance(v, ast.Constant) else (
                -v.operand.value if isinstance(v, ast.UnaryOp) and isinstance(v.op, ast.USub)
                and isinstance(v.operand, ast.Constant) else None)
            if c not in (-1, 1):
                continue
            for pr in sorted(pairs):
                pos = {fa for fa in facts[nd.id] if fa[0] == '+' and single(fa, pr)}
                allf = {fa for fa in facts[nd.id] if single(fa, pr)}
                if pos:
                    sites.append((nd, c, pr, pos, allf))
        n_sites += len(sites)
        done = set()
        for i, (nd, c, pr, pos, allf) in enumerate(sites):
            for j, (nd2, c2, pr2, pos2, allf2) in enumerate(sites):
                if j <= i or pr2 != pr or (i, j) in done:
                    continue
                sw = {swap(fa, pr) for fa in pos}
                sw2 = {swap(fa, pr) for fa in pos2}
                if not (sw <= pos2 or sw2 <= pos):
                    continue
                # the swapped facts of one must be consistent with the facts of the other
                opp = {('-' if fa[0] == '+' else '+') + fa[1:] for fa in allf}
                if opp & {swap(fa, pr) for fa in allf2}:
                    continue
                done.add((i, j))
                n_pairs += 1
                res.instances.append(f'{f.key}: L{nd.ast.lineno} return {c} / L{nd2.ast.lineno} '
                                     f'return {c2} are mirror branches on {pr}: opposite={c == -c2}')
                if c == -c2:
                    res.ok()
                else:
                    res.fail(finding('R16.10', f, nd2.ast, f'mirror branches both return {c}',
                                     f'`return {c2}` at L{nd2.ast.lineno} (under '
                                     f'{sorted(pos2)[0][1:][:50]}) is the mirror of `return {c}` at '
                                     f'L{nd.ast.lineno} (under {sorted(pos)[0][1:][:50]}) with '
                                     f'{pr[0]} and {pr[1]} swapped, and answers the same: '
                                     f'cmp(a, b) = cmp(b, a) = {c}, so the order fn:sort returns '
                                     f'depends on the order of its input'))
    counts['comparator_constant_returns'] = n_sites
    counts['comparator_mirror_pairs'] = n_pairs
    if n_pairs < 3:
        raise AnalysisError(f'deep_compare: {n_pairs} mirror pairs of constant returns located')
    return res


def run(ctx) -> dict:
    counts: dict[str, int] = {}
    r2 = r05_1(ctx, counts, only=set(ITEM_CODE), rule='R05.1')
    r2.title = 'CALL-EFFECTS (R16.2 = R05.1 on the function-item code)'
    r2.text = ('R05.1 (no store into token state in the dynamic phase) applied to the '
               'function-item code: ' + ', '.join(ITEM_CODE) + '. ' + r2.text)
    r52 = r05_2(ctx, counts)
    r52.title = 'PARAMETER-SCOPE (R16.4 = R05.2)'
    from .c05_purity import r05_10
    r9 = r05_10(ctx, counts)
    r9.title = 'ARGUMENT-KEYED-MEMO (R16.9 = R05.10: a function item is called once per item)'
    results = [r16_1(ctx, counts), r2, r16_3(ctx, counts), r52, r16_5(ctx, counts),
               r16_6(ctx, counts), r16_8(ctx, counts), r9, r16_10(ctx, counts)]
    return {
        'results': results, 'counts': counts,
        'explanation':
            'Function-item freshness, decided statically: evaluating a function expression '
            'returns a fresh object or a copy and stores no evaluation state on the syntax '
            'token; the function-item calling machinery writes only into fresh tokens or '
            'per-evaluation copies (named exceptions in sa/allow.json); the closure is a snapshot '
            'owned by the returned item; parameters are bound in a copied variables dictionary.',
        'not_decided':
            'That higher-order functions equal their definitional expansions, stability of '
            'fn:sort, and that fixed arguments of a partial application are evaluated at '
            'application time (observed: (for $s in ("x","y") return concat(?, $s)) ! .("a") '
            'raises XPST0008 — the fixed argument is evaluated lazily in the caller\'s scope; a '
            'statement about evaluation order, not visible as a store).',
        'assumptions': ['phase map from the resolved call graph', 'sa/allow.json entries'],
    }
