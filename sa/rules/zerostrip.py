"""
Shared rule: trailing-zero stripping of number text.

`text.rstrip('0')` (usually followed by .rstrip('.')) removes insignificant zeros of a
fraction. It is sound only on exponent-free text: str(1.5e20) is '1.5e+20' and stripping
turns it into '1.5e+2', a different number. The rule classifies the receiver of every
such call:

  fixed      produced by an 'f' or zero-padded integer format ('{:.6f}', format(x, 'f'),
             '{:06}', '%06d') -> no exponent possible
  mantissa   element [0] of T.split('e') / T.partition('e') (also by tuple unpacking)
  guarded    a name for which the dominating branch facts contain  -'e' in NAME
             (and -'E' in NAME when the text comes from a Decimal)
  open       str(x) / repr(x) / '{}'.format(x) / '%s' % x of something that may be a float
             or Decimal, without such a guard  -> finding
  opaque     anything else (a parameter, an attribute): listed, not decided
"""
from __future__ import annotations

import ast
import re
import string
from typing import Optional

from ..engine.srcmodel import AnalysisError, FuncInfo, Model, dotted, stmt_text, walk_local
from ..engine.cfg import CFG
from ..engine.dataflow import branch_facts
from ..engine.report import RuleResult
from .common import finding


def _format_kind(fmt: str, style: str) -> str:
    """'fixed' if every numeric field of the format is exponent-free"""
    if style == 'brace':
        specs = [spec or '' for _, name, spec, _ in string.Formatter().parse(fmt)
                 if name is not None]
    else:
        specs = [m.group(0) for m in re.finditer(r'%(?!%)[-+ #0]*\d*(?:\.\d+)?[a-zA-Z]', fmt)]
    if not specs:
        return 'opaque'
    ok = all(re.search(r'(?:\.\d+)?f$', s) or re.search(r'^%?0\d+d?$', s) or
             re.search(r'^0\d+d?$', s) for s in specs)
    return 'fixed' if ok else 'open'


def text_kind(model: Model, f: FuncInfo, e: ast.expr, facts: set[str], depth: int = 0,
              cfg: Optional[CFG] = None, here=None) -> str:
    if depth > 4:
        return 'opaque'
    if isinstance(e, ast.Call):
        d = dotted(e.func)
        if d in ('str', 'repr') and e.args:
            return 'open'
        if d == 'format' and len(e.args) == 2 and isinstance(e.args[1], ast.Constant):
            return 'fixed' if str(e.args[1].value).endswith('f') else 'open'
        if isinstance(e.func, ast.Attribute):
            if e.func.attr == 'format' and isinstance(e.func.value, ast.Constant) and \
                    isinstance(e.func.value.value, str):
                return _format_kind(e.func.value.value, 'brace')
            if e.func.attr in ('rstrip', 'strip', 'lstrip', 'lower', 'upper', 'replace'):
                return text_kind(model, f, e.func.value, facts, depth + 1)
        return 'opaque'
    if isinstance(e, ast.BinOp) and isinstance(e.op, ast.Mod) and \
            isinstance(e.left, ast.Constant) and isinstance(e.left.value, str):
        return _format_kind(e.left.value, 'percent')
    if isinstance(e, ast.JoinedStr):
        kinds = []
        for v in e.values:
            if isinstance(v, ast.FormattedValue):
                spec = ''.join(x.value for x in (v.format_spec.values if v.format_spec else [])
                               if isinstance(x, ast.Constant))
                kinds.append('fixed' if re.search(r'f$|^0\d+d?$', spec) else 'open')
        return 'fixed' if kinds and all(k == 'fixed' for k in kinds) else ('open' if kinds else 'opaque')
    if isinstance(e, ast.Subscript) and isinstance(e.slice, ast.Constant) and e.slice.value == 0 \
            and isinstance(e.value, ast.Call) and isinstance(e.value.func, ast.Attribute) \
            and e.value.func.attr in ('split', 'partition') and e.value.args and \
            isinstance(e.value.args[0], ast.Constant) and e.value.args[0].value in ('e', 'E'):
        return 'mantissa'
    if isinstance(e, (ast.Name, ast.Attribute)) and dotted(e):
        if f"-'e' in {dotted(e)}" in facts or f'-"e" in {dotted(e)}' in facts:
            return 'guarded'
    if isinstance(e, (ast.Name, ast.Attribute)) and dotted(e):
        loc = dotted(e)
        defs = []
        def_stmts = [n for n in walk_local(f.node)
                     if isinstance(n, (ast.Assign, ast.AnnAssign)) and n.value is not None
                     and any(isinstance(t, (ast.Name, ast.Attribute)) and dotted(t) == loc
                             for tg in (n.targets if isinstance(n, ast.Assign) else [n.target])
                             for t in ([tg] + (list(tg.elts) if isinstance(tg, ast.Tuple) else [])))]
        reaching = def_stmts
        if cfg is not None and here is not None:
            dnodes = {id(n): [nd for nd in cfg.nodes if nd.ast is n] for n in def_stmts}
            alldn = [nd for v in dnodes.values() for nd in v]
            reaching = []
            for n in def_stmts:
                for dn in dnodes[id(n)]:
                    if dn is here or cfg.path_avoiding(
                            [dn], lambda q: q is here,
                            lambda q, dn=dn: q in alldn and q is not dn and q is not here) \
                            is not None:
                        reaching.append(n)
                        break
        for n in reaching:
            if isinstance(n, (ast.Assign, ast.AnnAssign)) and n.value is not None:
                tgts = n.targets if isinstance(n, ast.Assign) else [n.target]
                for t in tgts:
                    if isinstance(t, (ast.Name, ast.Attribute)) and dotted(t) == loc:
                        defs.append(n.value)
                    elif isinstance(t, ast.Tuple):
                        for i, x in enumerate(t.elts):
                            if isinstance(x, (ast.Name, ast.Attribute)) and dotted(x) == loc:
                                v = n.value
                                if i == 0 and isinstance(v, ast.Call) and \
                                        isinstance(v.func, ast.Attribute) and \
                                        v.func.attr in ('split', 'partition') and v.args and \
                                        isinstance(v.args[0], ast.Constant) and \
                                        v.args[0].value in ('e', 'E'):
                                    defs.append(ast.Subscript(value=v, slice=ast.Constant(0)))
                                else:
                                    defs.append(ast.Name(id='__opaque__'))
        if not defs:
            return 'opaque'
        kinds = set()
        for d in defs:
            base = d
            while isinstance(base, ast.Call) and isinstance(base.func, ast.Attribute) and \
                    base.func.attr in ('rstrip', 'strip', 'lstrip'):
                base = base.func.value
            if base is not d and isinstance(base, (ast.Name, ast.Attribute)) and \
                    dotted(base) == loc:
                continue        # value = value.rstrip(...): does not change the kind
            kinds.add(text_kind(model, f, d, set(), depth + 1))
        if not kinds:
            return 'opaque'
        if 'open' in kinds:
            return 'open'
        if kinds <= {'fixed', 'mantissa', 'guarded'}:
            return 'fixed'
        return 'opaque'
    return 'opaque'


def zero_strip_rule(ctx, rule_id: str, in_scope, counts: dict[str, int]) -> RuleResult:
    model: Model = ctx.model
    res = RuleResult(
        rule_id, 'TRAILING-ZERO-STRIP',
        'Every `.rstrip(\'0\')` in scope is applied to exponent-free number text: text made by '
        'an f/zero-padded format, the mantissa of a split on \'e\', or a name guarded by a '
        'dominating `\'e\' not in text` fact. str()/repr()/\'{}\' of a float or Decimal may be '
        'in exponent form (\'1.5e+20\'), where stripping zeros changes the exponent '
        '(\'1.5e+2\'): a different number.')
    n = 0
    for f in sorted(model.all_functions(), key=lambda q: q.key):
        if not in_scope(f):
            continue
        sites = [c for c in walk_local(f.node) if isinstance(c, ast.Call)
                 and isinstance(c.func, ast.Attribute) and c.func.attr == 'rstrip'
                 and c.args and isinstance(c.args[0], ast.Constant)
                 and isinstance(c.args[0].value, str) and '0' in c.args[0].value]
        if not sites:
            continue
        cfg = CFG(f.node)
        facts = branch_facts(cfg)
        for c in sites:
            n += 1
            holder = None
            for nd in cfg.nodes:
                if nd.ast is None or nd.kind not in ('stmt', 'test'):
                    continue
                root = nd.ast.test if isinstance(nd.ast, (ast.If, ast.While)) else nd.ast
                if any(x is c for x in ast.walk(root)):
                    holder = nd
                    break
            fs = set(facts[holder.id]) if holder is not None else set()
            kind = text_kind(model, f, c.func.value, fs, 0, cfg, holder)
            res.instances.append(f'{f.key}: {stmt_text(c)[:60]} -> {kind}')
            if kind == 'open':
                res.fail(finding(rule_id, f, c, f'{stmt_text(c)[:50]}',
                                 f'`{stmt_text(c)[:70]}` strips trailing zeros from text that '
                                 f'can be in exponent form (str/repr of a float or Decimal '
                                 f'without a dominating `\'e\' not in …` test): 1.5e+20 becomes '
                                 f'1.5e+2'))
            else:
                res.ok()
    counts[f'{rule_id}.zero_strip_sites'] = n
    return res
