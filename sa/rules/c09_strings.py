"""
C09 — string functions: two clauses.

R09.1 SUBSTRING-ROUND  fn:substring rounds positions with the half-up helper
R09.2 URI-SAFE-SETS    the URI escaping functions leave unescaped exactly the F&O sets
"""
from __future__ import annotations

import ast
import json
import os
import string

from ..engine.srcmodel import AnalysisError, Unfoldable, dotted, stmt_text, walk_local
from ..engine.report import RuleResult
from .common import finding
from .rounding import builtin_round_sites, bound_symbols, half_up_helper
from .c08_sequences import positional_args_rounded

SPEC = os.path.join(os.path.dirname(os.path.dirname(os.path.abspath(__file__))),
                    'specs', 'uri_escaping.json')
ALWAYS_SAFE = set(string.ascii_letters + string.digits + '_.-~')   # urllib.parse.quote


def run(ctx) -> dict:
    model = ctx.model
    counts: dict[str, int] = {}
    bound = bound_symbols(ctx.reg)
    half_up_helper(model)
    r1 = RuleResult(
        'R09.1', 'SUBSTRING-ROUND',
        'In the function bound to fn:substring the start and length arguments (get_argument '
        'with index >= 1) are passed through the half-up helper round_number, and the builtin '
        'half-to-even round() does not occur.')
    fs = [f for f, s in bound.items() if 'substring' in s]
    if len(fs) != 1:
        raise AnalysisError(f'fn:substring: expected one implementation, found {len(fs)}')
    positional_args_rounded(fs[0], r1, 'R09.1', 'substring', 'round_number')
    for f, call in builtin_round_sites(model):
        if f is fs[0]:
            r1.fail(finding('R09.1', f, call, f'round({stmt_text(call.args[0])[:30]})',
                            'fn:substring rounds a position with the builtin half-to-even '
                            'round(): substring(\'12345\', 2.5) starts at 2 instead of 3'))
    counts['substring_impl'] = 1

    spec = json.load(open(SPEC))
    r2 = RuleResult(
        'R09.2', 'URI-SAFE-SETS',
        'For fn:encode-for-uri, fn:iri-to-uri and fn:escape-html-uri: the function contains '
        'exactly one call of urllib.parse.quote, its safe= argument constant-folds (including '
        '\'\'.join(chr(cp) for cp in range(a, b))), and safe ∪ {letters, digits, _ . - ~} (the '
        'always-safe set of quote) equals the set F&O lists as left unescaped.')
    n = 0
    for sym, row in spec.items():
        if sym.startswith('_'):
            continue
        fs2 = [f for f, s in bound.items() if sym in s]
        if len(fs2) != 1:
            raise AnalysisError(f'fn:{sym}: expected one implementation, found {len(fs2)}')
        f = fs2[0]
        calls = []
        for c in walk_local(f.node):
            if isinstance(c, ast.Call):
                kind, val = model.resolve_expr(f.module, c.func)
                if kind == 'external' and val == 'urllib.parse.quote':
                    calls.append(c)
        if len(calls) != 1:
            raise AnalysisError(f'fn:{sym}: expected one urllib.parse.quote call, found '
                                f'{len(calls)}')
        c = calls[0]
        n += 1
        safe_e = None
        for k in c.keywords:
            if k.arg == 'safe':
                safe_e = k.value
        if safe_e is None and len(c.args) > 1:
            safe_e = c.args[1]
        try:
            safe = model.fold(f.module, safe_e) if safe_e is not None else '/'
        except Unfoldable as err:
            raise AnalysisError(f'fn:{sym}: safe= does not fold: {err}')
        got = ALWAYS_SAFE | set(safe)
        want = set(row['unescaped']) if 'unescaped' in row else \
            {chr(x) for x in range(row['unescaped_range'][0], row['unescaped_range'][1] + 1)}
        r2.instances.append(f'fn:{sym}: {f.key} quote(safe={safe!r:.50})')
        r2.samples.append({'rule': 'R09.2', 'function': sym,
                           'unescaped': ''.join(sorted(got))})
        if got == want:
            r2.ok()
        else:
            extra, missing = ''.join(sorted(got - want)), ''.join(sorted(want - got))
            r2.fail(finding('R09.2', f, c, f'{sym} safe set',
                            f'fn:{sym}: characters left unescaped differ from F&O: '
                            f'wrongly unescaped {extra!r}, wrongly escaped {missing!r}'))
        # the encoding of quote must stay utf-8 (default) for non-ASCII
        enc = [k for k in c.keywords if k.arg == 'encoding']
        if enc and not (isinstance(enc[0].value, ast.Constant)
                        and str(enc[0].value.value).lower().replace('-', '') == 'utf8'):
            r2.fail(finding('R09.2', f, c, f'{sym} encoding',
                            f'fn:{sym}: quote() encoding is not UTF-8'))
        else:
            r2.ok()
    counts['uri_functions'] = n
    return {
        'results': [r1, r2], 'counts': counts,
        'explanation':
            'Decided statically: fn:substring rounds its start/length half up (through the '
            'repository\'s round_number helper, never the builtin round()); the three URI '
            'escaping functions pass to urllib.parse.quote a safe set which, with quote\'s '
            'always-safe characters, equals the set F&O §6 lists as unescaped.',
        'not_decided':
            'All other string equations (substring-before/after, contains, translate with '
            'repeated map characters, normalize-space, case mapping, codepoint round trip), '
            'and agreement with libxml2: statements over string values.',
        'assumptions': ['sa/specs/uri_escaping.json transcribes F&O §6.2-6.4',
                        'urllib.parse.quote never escapes letters, digits and _ . - ~'],
    }
_ = dotted
