"""
C09 — string functions: two clauses.

R09.1 SUBSTRING-ROUND  fn:substring rounds positions with the half-up helper
R09.2 URI-SAFE-SETS    the URI escaping functions leave unescaped exactly the F&O sets
"""
from __future__ import annotations

import ast
import json
import os
import string

from ..engine.srcmodel import AnalysisError, Unfoldable, dotted, stmt_text, walk_local
from ..engine.report import RuleResult, Finding
from .common import finding
from .rounding import builtin_round_sites, bound_symbols, half_up_helper
from .c08_sequences import positional_args_rounded

SPEC = os.path.join(os.path.dirname(os.path.dirname(os.path.abspath(__file__))),
                    'specs', 'uri_escaping.json')
ALWAYS_SAFE = set(string.ascii_letters + string.digits + '_.-~')   # urllib.parse.quote


XML_CHAR = [(0x9, 0x9), (0xA, 0xA), (0xD, 0xD), (0x20, 0xD7FF), (0xE000, 0xFFFD),
            (0x10000, 0x10FFFF)]        # XML 1.0 §2.2 production [2] Char


def _merge(iv: list[tuple[int, int]]) -> list[tuple[int, int]]:
    out: list[tuple[int, int]] = []
    for lo, hi in sorted(iv):
        if out and lo <= out[-1][1] + 1:
            out[-1] = (out[-1][0], max(out[-1][1], hi))
        else:
            out.append((lo, hi))
    return out


def _bound_funcs(ctx, symbol: str) -> list:
    out = []
    for rec in ctx.reg.all_records():
        if rec.symbol == symbol:
            ref = rec.method('evaluate')
            if ref is not None and ref.func is not None and ref.origin != 'class' \
                    and ref.func not in out:
                out.append(ref.func)
    return out


def r09_4(ctx, counts) -> RuleResult:
    res = RuleResult(
        'R09.4', 'TRANSLATE-FIRST-OCCURRENCE',
        'fn:translate: "if a character occurs more than once in $mapString, the first occurrence '
        'determines the replacement". str.maketrans(map, trans) and dict(zip(map, trans)) keep the '
        'LAST occurrence. In the function bound to translate the character table is therefore '
        'not built by maketrans/dict/zip directly from the evaluated map string: it is filled by '
        'a loop whose store is guarded by a `not in <table>` test (or setdefault).')
    funcs = _bound_funcs(ctx, 'translate')
    if not funcs:
        raise AnalysisError('function bound to fn:translate not located')
    n = 0
    for f in funcs:
        n += 1
        bad = [c for c in walk_local(f.node) if isinstance(c, ast.Call) and (
            dotted(c.func).split('.')[-1] == 'maketrans' or
            (dotted(c.func) == 'dict' and c.args and isinstance(c.args[0], ast.Call)
             and dotted(c.args[0].func) == 'zip'))]
        comp = [c for c in walk_local(f.node) if isinstance(c, ast.DictComp)]
        guarded = any(isinstance(x, ast.Compare) and isinstance(x.ops[0], ast.NotIn)
                      for x in walk_local(f.node)) or any(
            isinstance(c, ast.Call) and isinstance(c.func, ast.Attribute)
            and c.func.attr == 'setdefault' for c in walk_local(f.node))
        res.instances.append(f'{f.key}: maketrans/dict(zip) calls={len(bad)} dict '
                             f'comprehensions={len(comp)} first-occurrence guard={guarded}')
        if bad or comp:
            x = (bad or comp)[0]
            res.fail(finding('R09.4', f, x, 'last occurrence wins',
                             f'`{stmt_text(x)[:60]}` builds the translation table with dict '
                             f'semantics: a character repeated in the map string gets its LAST '
                             f'replacement (translate("abc", "aa", "xy") gives "ybc", F&O and '
                             f'libxml2: "xbc")'))
        elif not guarded:
            raise AnalysisError(f'{f.key}: no recognised construction of the translation table')
        else:
            res.ok()
    counts['translate_impls'] = n
    return res


XML_WS = {' ', '\t', '\n', '\r'}


def r09_5(ctx, counts) -> RuleResult:
    import re as _re
    model = ctx.model
    res = RuleResult(
        'R09.5', 'XML-WHITESPACE-ONLY',
        'In XPath and XSD "whitespace" is the four characters #x20 #x9 #xA #xD. Python\'s '
        'str.split()/strip() without arguments and the regex classes \\s and \\S follow '
        'str.isspace(): they also treat U+0085, U+00A0, U+2003, U+3000 … as separators. (a) In '
        'the function bound to fn:normalize-space no argument-less split()/strip() is applied '
        'to the argument; (b) the patterns behind helpers.collapse_white_spaces and the '
        'replace/collapse facets (Patterns.whitespaces, Patterns.normalize, the lexical pattern '
        'of xs:token) name the four characters explicitly — a class built on \\s or \\S is a '
        'violation (normalize-space("a&#x2003;b") must keep the EM SPACE).')
    n = 0
    for f in _bound_funcs(ctx, 'normalize-space'):
        n += 1
        bad = [c for c in walk_local(f.node) if isinstance(c, ast.Call)
               and isinstance(c.func, ast.Attribute) and c.func.attr in ('split', 'strip')
               and not c.args and not c.keywords]
        res.instances.append(f'{f.key}: argument-less split()/strip() calls={len(bad)}')
        if bad:
            res.fail(finding('R09.5', f, bad[0], 'Python whitespace in normalize-space',
                             f'`{stmt_text(bad[0])[:50]}` separates on every str.isspace() '
                             f'character: normalize-space("&#xA0;a&#xA0;") returns "a"'))
        else:
            res.ok()
    if not n:
        raise AnalysisError('function bound to fn:normalize-space not located')
    # (b) the facet patterns
    pats: list[tuple[str, object, ast.AST, str]] = []
    helpers = model.modules.get('elementpath.helpers')
    if helpers is None:
        raise AnalysisError('elementpath/helpers.py vanished')
    pcls = helpers.classes.get('Patterns')
    if pcls is None:
        raise AnalysisError('helpers.Patterns vanished')
    for name in ('whitespaces', 'normalize'):
        e = pcls.attrs.get(name)
        if e is None:
            raise AnalysisError(f'helpers.Patterns.{name} vanished')
        pats.append((f'Patterns.{name}', helpers, e, name))
    tok = model.find_class('XsdToken')
    if 'pattern' in tok.attrs:
        pats.append(('XsdToken.pattern', tok.module, tok.attrs['pattern'], 'token'))
    for label, mod, e, _ in pats:
        lits = [c.value for c in ast.walk(e) if isinstance(c, ast.Constant)
                and isinstance(c.value, str)]
        if not lits:
            raise AnalysisError(f'{label}: pattern literal not found')
        n += 1
        text = lits[0]
        uses_s = _re.search(r'\\[sS]', text) is not None
        res.instances.append(f'{label} = {text!r}: uses \\s/\\S={uses_s}')
        if uses_s:
            res.fail(Finding('R09.5', mod.relpath, '<module>', f'{label} uses \\s',   # type: ignore
                             f'{label} = {text!r} is built on the regex class \\s/\\S, which '
                             f'follows str.isspace(): U+2003, U+3000, U+0085 … are collapsed or '
                             f'rejected as if they were XML whitespace (xs:token("a&#x2003;b"))',
                             getattr(e, 'lineno', 0)))
        else:
            res.ok()
    counts['whitespace_sites'] = n
    return res


def r09_6(ctx, counts) -> RuleResult:
    """every regex character class that spells the XML Char production spells it exactly"""
    import re._parser as sre_parse      # stdlib regex parser: parses text, runs nothing
    import re._constants as sre_c
    model = ctx.model
    res = RuleResult(
        'R09.6', 'XML-CHAR-CLASS-EXACT',
        'XML 1.0 production [2] Char is #x9 | #xA | #xD | [#x20-#xD7FF] | [#xE000-#xFFFD] | '
        '[#x10000-#x10FFFF]. Besides is_xml_codepoint (R09.3) the package may spell the same set '
        'as a regex character class. Every string constant of the package that is a regex class '
        'with U+D7FF and U+E000 among its range end points (the fingerprint of the production: '
        'the surrogate gap) is parsed with the stdlib regex parser and the set it denotes — '
        'complemented when the class is negated — must equal the production. A class written '
        'with a 4-digit escape followed by a digit ("\\u10000-\\u10FFFF" is U+1000, "0", '
        '"-", U+10FF, "F", "F") loses every supplementary-plane character.')
    want = _merge(XML_CHAR)
    n = 0
    for mname, mod in sorted(model.modules.items()):
        for c in ast.walk(mod.tree):
            if not (isinstance(c, ast.Constant) and isinstance(c.value, str)):
                continue
            v = c.value
            if '\ud7ff' not in v or '\ue000' not in v or '[' not in v:
                continue
            try:
                parsed = sre_parse.parse(v)
            except Exception as err:
                raise AnalysisError(f'{mod.relpath}:{c.lineno}: regex does not parse: {err}')
            classes = [av for op, av in parsed if op is sre_c.IN]
            for items in classes:
                neg = any(op is sre_c.NEGATE for op, _ in items)
                iv = []
                for op, av in items:
                    if op is sre_c.LITERAL:
                        iv.append((av, av))
                    elif op is sre_c.RANGE:
                        iv.append((av[0], av[1]))
                    elif op is sre_c.NEGATE:
                        continue
                    else:
                        raise AnalysisError(f'{mod.relpath}:{c.lineno}: class item {op} not '
                                            f'modelled')
                got = _merge(iv)
                if not any(hi == 0xD7FF for _, hi in iv) and not any(lo == 0xE000 for lo, _ in iv):
                    continue
                n += 1
                ok = got == want
                res.instances.append(f'{mod.relpath}:{c.lineno}: class '
                                     f'{"(negated) " if neg else ""}denotes '
                                     f'{[(hex(a), hex(b)) for a, b in got][:7]} equals Char={ok}')
                if ok:
                    res.ok()
                else:
                    missing = [x for x in want if x not in got]
                    res.fail(Finding('R09.6', mod.relpath, '<module>', 'XML Char class differs',
                                     f'the character class at line {c.lineno} has the shape of '
                                     f'the XML Char production but denotes '
                                     f'{[(hex(a), hex(b)) for a, b in got]}: the ranges '
                                     f'{[(hex(a), hex(b)) for a, b in missing]} of the '
                                     f'production are not in it (supplementary-plane characters '
                                     f'are replaced or escaped as if they were not XML '
                                     f'characters)', c.lineno))
    res.instances.append(f'{n} regex spelling(s) of the XML Char production in the package')
    res.ok()
    counts['xml_char_regex_classes'] = n
    return res


def r09_3(ctx, counts) -> RuleResult:
    import ast as _ast
    model = ctx.model
    res = RuleResult(
        'R09.3', 'XML-CHAR-TABLE',
        'helpers.is_xml_codepoint (used by codepoints-to-string, unparsed-text, parse-json and '
        'json-to-xml) accepts exactly the code points of the XML 1.0 Char production: #x9 | #xA | '
        '#xD | [#x20-#xD7FF] | [#xE000-#xFFFD] | [#x10000-#x10FFFF]. The boolean expression it '
        'returns is interpreted as a union of intervals over its parameter (membership in a '
        'constant tuple, chained comparisons, `or`, any(cp in r for r in RANGES) with RANGES a '
        'module constant of range() objects) and compared with the production.')
    mod = model.module('elementpath.helpers')
    f = mod.toplevel_function('is_xml_codepoint')
    if f is None:
        raise AnalysisError('helpers.is_xml_codepoint vanished')
    cp = f.params()[0]
    rets = [x for x in walk_local(f.node) if isinstance(x, _ast.Return) and x.value is not None]
    if len(rets) != 1:
        raise AnalysisError('is_xml_codepoint: single return expression expected')

    def fold_int(e) -> int:
        v = model.try_fold(mod, e)
        if not isinstance(v, int) or isinstance(v, bool):
            raise AnalysisError(f'is_xml_codepoint: `{stmt_text(e)}` is not an integer constant')
        return v

    def ranges_of(e) -> list[tuple[int, int]]:
        """intervals of a constant collection expression (tuple of ints / of range() calls)"""
        if isinstance(e, _ast.Name):
            tgt = mod.assigns.get(e.id)
            if tgt is None:
                raise AnalysisError(f'is_xml_codepoint: constant {e.id} not found')
            return ranges_of(tgt)
        if isinstance(e, (_ast.Tuple, _ast.List, _ast.Set)):
            out: list[tuple[int, int]] = []
            for x in e.elts:
                if isinstance(x, _ast.Call) and dotted(x.func) == 'range':
                    out.extend(ranges_of(x))
                elif isinstance(x, (_ast.Tuple, _ast.List)) and len(x.elts) == 2:
                    out.append((fold_int(x.elts[0]), fold_int(x.elts[1])))
                else:
                    v = fold_int(x)
                    out.append((v, v))
            return out
        if isinstance(e, _ast.Call) and dotted(e.func) == 'range' and len(e.args) in (1, 2):
            lo = 0 if len(e.args) == 1 else fold_int(e.args[0])
            hi = fold_int(e.args[-1]) - 1
            return [(lo, hi)] if hi >= lo else []
        raise AnalysisError(f'is_xml_codepoint: collection `{stmt_text(e)[:50]}` not modelled')

    def interp(e) -> list[tuple[int, int]]:
        if isinstance(e, _ast.BoolOp) and isinstance(e.op, _ast.Or):
            out: list[tuple[int, int]] = []
            for v in e.values:
                out.extend(interp(v))
            return out
        if isinstance(e, _ast.Compare):
            parts = [e.left] + list(e.comparators)
            if len(e.ops) == 1 and isinstance(e.ops[0], _ast.In) and dotted(e.left) == cp:
                return ranges_of(e.comparators[0])
            if len(e.ops) == 1 and isinstance(e.ops[0], _ast.Eq) and dotted(e.left) == cp:
                v = fold_int(e.comparators[0])
                return [(v, v)]
            if len(e.ops) == 2 and dotted(parts[1]) == cp:
                lo, hi = fold_int(parts[0]), fold_int(parts[2])
                if isinstance(e.ops[0], _ast.Lt):
                    lo += 1
                elif not isinstance(e.ops[0], _ast.LtE):
                    raise AnalysisError('is_xml_codepoint: comparison form not modelled')
                if isinstance(e.ops[1], _ast.Lt):
                    hi -= 1
                elif not isinstance(e.ops[1], _ast.LtE):
                    raise AnalysisError('is_xml_codepoint: comparison form not modelled')
                return [(lo, hi)]
        if isinstance(e, _ast.Call) and dotted(e.func) == 'any' and e.args and \
                isinstance(e.args[0], _ast.GeneratorExp) and len(e.args[0].generators) == 1:
            g = e.args[0].generators[0]
            elt = e.args[0].elt
            if isinstance(elt, _ast.Compare) and len(elt.ops) == 1 and \
                    isinstance(elt.ops[0], _ast.In) and dotted(elt.left) == cp and \
                    isinstance(g.target, _ast.Name) and dotted(elt.comparators[0]) == g.target.id:
                return ranges_of(g.iter)
            if isinstance(elt, _ast.Compare) and len(elt.ops) == 2 and \
                    isinstance(g.target, _ast.Tuple) and len(g.target.elts) == 2 and \
                    dotted(elt.comparators[0]) == cp and all(isinstance(o, _ast.LtE) for o in elt.ops):
                return ranges_of(g.iter)
        raise AnalysisError(f'is_xml_codepoint: expression `{stmt_text(e)[:60]}` not modelled')

    got = _merge(interp(rets[0].value))
    want = _merge(XML_CHAR)
    res.instances.append('is_xml_codepoint accepts ' + ', '.join(
        f'{lo:#x}-{hi:#x}' if lo != hi else f'{lo:#x}' for lo, hi in got))
    if got == want:
        res.ok()
    else:
        gs = {c for lo, hi in got for c in (lo, hi, lo - 1, hi + 1)} | \
            {c for lo, hi in want for c in (lo, hi, lo - 1, hi + 1)}
        def member(iv, c): return any(lo <= c <= hi for lo, hi in iv)
        diff = sorted(c for c in gs if c >= 0 and member(got, c) != member(want, c))
        res.fail(finding('R09.3', f, rets[0], 'Char production',
                         f'is_xml_codepoint accepts {[(hex(a), hex(b)) for a, b in got]} but the '
                         f'XML Char production is {[(hex(a), hex(b)) for a, b in want]}; they '
                         f'differ e.g. at {[f"U+{c:04X}" for c in diff[:4]]}'))
    counts['xml_char_intervals'] = len(got)
    return res


UNICODE_CASE_METHODS = ('casefold', 'lower', 'upper', 'swapcase', 'title', 'capitalize')


def r09_7(ctx, counts) -> RuleResult:
    """the HTML ASCII case-insensitive collation folds ASCII letters only"""
    from ..engine.cfg import CFG
    from ..engine.dataflow import branch_facts
    model = ctx.model
    res = RuleResult(
        'R09.7', 'ASCII-CASE-FOLD-ONLY',
        'F&O 5.3.5: the HTML ASCII case-insensitive collation compares "as if the ASCII letters '
        'A-Z were a-z", by code point; every other character is itself and a string keeps its '
        'length (substring-before / -after apply a position found in the key to the original '
        'string). The functions that CollationManager installs as strcoll / strxfrm under the '
        'fact `collation == HTML_ASCII_CASE_INSENSITIVE_COLLATION` therefore call none of the '
        'Unicode-wide str methods casefold / lower / upper / swapcase / title / capitalize '
        '(casefold makes "ß" equal to "ss", lower makes "É" equal to "é").')
    cm = model.find_class('CollationManager')
    init = cm.methods.get('__init__') if cm is not None else None
    if init is None:
        raise AnalysisError('CollationManager.__init__ vanished')
    cfg = CFG(init.node)
    facts = branch_facts(cfg)
    n = 0
    for nd in cfg.nodes:
        if nd.ast is None or nd.kind != 'stmt' or not isinstance(nd.ast, ast.Assign):
            continue
        tg = [dotted(t) for t in nd.ast.targets]
        if not any(t in ('self.strcoll', 'self.strxfrm') for t in tg):
            continue
        if not any(fa.startswith('+') and 'HTML_ASCII_CASE_INSENSITIVE_COLLATION' in fa
                   for fa in facts[nd.id]):
            continue
        n += 1
        name = dotted(nd.ast.value)
        fn = init.module.toplevel_function(name) if name else None
        if fn is None:
            raise AnalysisError(f'CollationManager: `{stmt_text(nd.ast)[:50]}` does not install a '
                                f'function of the module')
        wide = [c for c in ast.walk(fn.node) if isinstance(c, ast.Call)
                and isinstance(c.func, ast.Attribute) and c.func.attr in UNICODE_CASE_METHODS]
        res.instances.append(f'{init.key}: HTML ASCII collation installs {name} as {tg[0]}; '
                             f'Unicode-wide case methods in it: '
                             f'{[c.func.attr for c in wide] or None}')
        if not wide:
            res.ok()
        else:
            res.fail(finding('R09.7', fn, wide[0], f'{name} uses {wide[0].func.attr}()',
                             f'{name}, installed for the HTML ASCII case-insensitive collation, '
                             f'calls str.{wide[0].func.attr}(): characters outside A-Z are folded '
                             f'too and the key can change length (contains("Straße", "SS", ..) is '
                             f'true, substring-before("Straße X", "x", ..) is "Straße X")'))
    counts['html_ascii_collation_functions'] = n
    if n < 2:
        raise AnalysisError(f'HTML ASCII collation: {n} installed functions located (2 expected)')
    return res


from .c08_sequences import r08_8 as _r08_8  # noqa: E402


def run(ctx) -> dict:
    model = ctx.model
    counts: dict[str, int] = {}
    bound = bound_symbols(ctx.reg)
    half_up_helper(model)
    r1 = RuleResult(
        'R09.1', 'SUBSTRING-ROUND',
        'In the function bound to fn:substring the start and length arguments (get_argument '
        'with index >= 1) are passed through the half-up helper round_number, and the builtin '
        'half-to-even round() does not occur.')
    fs = [f for f, s in bound.items() if 'substring' in s]
    if len(fs) != 1:
        raise AnalysisError(f'fn:substring: expected one implementation, found {len(fs)}')
    positional_args_rounded(fs[0], r1, 'R09.1', 'substring', 'round_number')
    for f, call in builtin_round_sites(model):
        if f is fs[0]:
            r1.fail(finding('R09.1', f, call, f'round({stmt_text(call.args[0])[:30]})',
                            'fn:substring rounds a position with the builtin half-to-even '
                            'round(): substring(\'12345\', 2.5) starts at 2 instead of 3'))
    counts['substring_impl'] = 1

    spec = json.load(open(SPEC))
    r2 = RuleResult(
        'R09.2', 'URI-SAFE-SETS',
        'For fn:encode-for-uri, fn:iri-to-uri and fn:escape-html-uri: the function contains '
        'exactly one call of urllib.parse.quote, its safe= argument constant-folds (including '
        '\'\'.join(chr(cp) for cp in range(a, b))), and safe ∪ {letters, digits, _ . - ~} (the '
        'always-safe set of quote) equals the set F&O lists as left unescaped.')
    n = 0
    for sym, row in spec.items():
        if sym.startswith('_'):
            continue
        fs2 = [f for f, s in bound.items() if sym in s]
        if len(fs2) != 1:
            raise AnalysisError(f'fn:{sym}: expected one implementation, found {len(fs2)}')
        f = fs2[0]
        calls = []
        for c in walk_local(f.node):
            if isinstance(c, ast.Call):
                kind, val = model.resolve_expr(f.module, c.func)
                if kind == 'external' and val == 'urllib.parse.quote':
                    calls.append(c)
        if len(calls) != 1:
            raise AnalysisError(f'fn:{sym}: expected one urllib.parse.quote call, found '
                                f'{len(calls)}')
        c = calls[0]
        n += 1
        safe_e = None
        for k in c.keywords:
            if k.arg == 'safe':
                safe_e = k.value
        if safe_e is None and len(c.args) > 1:
            safe_e = c.args[1]
        try:
            safe = model.fold(f.module, safe_e) if safe_e is not None else '/'
        except Unfoldable as err:
            raise AnalysisError(f'fn:{sym}: safe= does not fold: {err}')
        got = ALWAYS_SAFE | set(safe)
        want = set(row['unescaped']) if 'unescaped' in row else \
            {chr(x) for x in range(row['unescaped_range'][0], row['unescaped_range'][1] + 1)}
        r2.instances.append(f'fn:{sym}: {f.key} quote(safe={safe!r:.50})')
        r2.samples.append({'rule': 'R09.2', 'function': sym,
                           'unescaped': ''.join(sorted(got))})
        if got == want:
            r2.ok()
        else:
            extra, missing = ''.join(sorted(got - want)), ''.join(sorted(want - got))
            r2.fail(finding('R09.2', f, c, f'{sym} safe set',
                            f'fn:{sym}: characters left unescaped differ from F&O: '
                            f'wrongly unescaped {extra!r}, wrongly escaped {missing!r}'))
        # the encoding of quote must stay utf-8 (default) for non-ASCII
        enc = [k for k in c.keywords if k.arg == 'encoding']
        if enc and not (isinstance(enc[0].value, ast.Constant)
                        and str(enc[0].value.value).lower().replace('-', '') == 'utf8'):
            r2.fail(finding('R09.2', f, c, f'{sym} encoding',
                            f'fn:{sym}: quote() encoding is not UTF-8'))
        else:
            r2.ok()
    counts['uri_functions'] = n
    return {
        'results': [_r08_8(ctx, counts, ('substring',), 'R09.8'),
                    r1, r2, r09_3(ctx, counts), r09_4(ctx, counts), r09_5(ctx, counts),
                    r09_6(ctx, counts), r09_7(ctx, counts)],
        'counts': counts,
        'explanation':
            'Decided statically: fn:substring rounds its start/length half up (through the '
            'repository\'s round_number helper, never the builtin round()); the three URI '
            'escaping functions pass to urllib.parse.quote a safe set which, with quote\'s '
            'always-safe characters, equals the set F&O §6 lists as unescaped.',
        'not_decided':
            'Decided: substring rounding, URI safe sets, the XML Char production (function and '
            'regex spellings), first-occurrence semantics of translate, XML whitespace in '
            'normalize-space and the whitespace facets. Not decided: the other string equations '
            '(substring-before/after, contains, case mapping, codepoint round trip, the string '
            'value of doubles) and agreement with libxml2: statements over string values.',
        'assumptions': ['sa/specs/uri_escaping.json transcribes F&O §6.2-6.4',
                        'urllib.parse.quote never escapes letters, digits and _ . - ~'],
    }
_ = dotted
