"""
C02 — node trees: position bookkeeping.

R02.1 GAP-AGREEMENT   the gap each builder reserves after an element equals what the lazy
                      namespace/attribute readers consume (symbolic linear forms)
R02.2 POSITION-FRESH  between two node constructions in a builder `position` is incremented
                      on every path
R02.3 SETOP-SORT      set operators yield through sorted(key=node_position)
"""
from __future__ import annotations

import ast
from typing import Optional

from ..engine.srcmodel import AnalysisError, FuncInfo, Model, dotted, stmt_text, walk_local
from ..engine.cfg import CFG, Node
from ..engine.dataflow import branch_facts
from ..engine.report import RuleResult
from .common import finding

Form = dict  # atom -> coefficient ; atom '1' is the constant


def add(a: Form, b: Form, k: int = 1) -> Form:
    out = dict(a)
    for x, c in b.items():
        out[x] = out.get(x, 0) + k * c
    return {x: c for x, c in out.items() if c != 0}


def fmt(f: Form) -> str:
    parts = []
    for x in sorted(f, key=lambda z: (z == '1', z)):
        c = f[x]
        parts.append(f'{c}' if x == '1' else (x if c == 1 else f'{c}*{x}'))
    return ' + '.join(parts) if parts else '0'


_MODEL: Optional[Model] = None          # set by run(): lets linform follow arithmetic helpers
_PARAM_KIND: dict[str, str] = {}        # while a helper is summarised: parameter -> atom


def _xml_test(t: ast.AST) -> Optional[bool]:
    """True for `'xml' in <map>`, False for `'xml' not in <map>`."""
    if isinstance(t, ast.Compare) and len(t.ops) == 1 and isinstance(t.left, ast.Constant) \
            and t.left.value == 'xml' and isinstance(t.ops[0], (ast.In, ast.NotIn)) \
            and atom_of_len(t.comparators[0]) == 'N':
        return isinstance(t.ops[0], ast.In)
    return None


def _select(test: ast.AST, then: Form, other: Form) -> Form:
    """Form of `then if test else other`; the arms may differ only by a constant."""
    diff = add(then, other, -1)
    if set(diff) - {'1'}:
        raise AnalysisError(f'position arithmetic: the arms of `{stmt_text(test)[:40]}` differ by '
                            f'more than a constant')
    d = diff.get('1', 0)
    if not d:
        return then
    x = _xml_test(test)
    if x is True:        # then when 'xml' in map (X = 0): other + d * (1 - X)
        return add(add(other, {'1': d}), {'X': -d})
    if x is False:
        return add(other, {'X': d})
    return add(other, {f'[{stmt_text(test)}]': d})


def helper_form(h: FuncInfo, call: ast.Call) -> Form:
    """
    Summary of a module-level arithmetic helper (straight-line code, if statements whose arms
    change the locals by constants, one return per path) as a linear form. A condition that is
    not the 'xml' membership test becomes an indicator atom `[test]`: the helper then counts a
    quantity that differs between two maps of the same size, which no reader does.
    """
    global _PARAM_KIND
    params = h.params()
    kinds: dict[str, str] = {}
    for i, a in enumerate(call.args):
        k = atom_of_len(a)
        if k and i < len(params):
            kinds[params[i]] = k
    saved = _PARAM_KIND
    _PARAM_KIND = kinds
    try:
        def block(body: list[ast.stmt], env: dict[str, Form]) -> Optional[Form]:
            for st in body:
                if isinstance(st, ast.Expr) and isinstance(st.value, ast.Constant):
                    continue
                if isinstance(st, ast.Return) and st.value is not None:
                    return linform(st.value, env)
                if isinstance(st, (ast.Assign, ast.AnnAssign)):
                    tg = st.targets[0] if isinstance(st, ast.Assign) else st.target
                    if isinstance(tg, ast.Name) and st.value is not None:
                        env[tg.id] = linform(st.value, env)
                        continue
                if isinstance(st, ast.AugAssign) and isinstance(st.target, ast.Name) \
                        and isinstance(st.op, (ast.Add, ast.Sub)) and st.target.id in env:
                    env[st.target.id] = add(env[st.target.id], linform(st.value, env),
                                            1 if isinstance(st.op, ast.Add) else -1)
                    continue
                if isinstance(st, ast.If):
                    e1, e2 = dict(env), dict(env)
                    r1, r2 = block(st.body, e1), block(st.orelse, e2)
                    if r1 is not None and r2 is not None:
                        return _select(st.test, r1, r2)
                    if r1 is not None or r2 is not None:
                        rest = body[body.index(st) + 1:]
                        cont = block(rest, e2 if r1 is not None else e1)
                        if cont is None:
                            raise AnalysisError(f'{h.key}: a path without return')
                        return _select(st.test, r1, cont) if r1 is not None \
                            else _select(st.test, cont, r2)      # type: ignore[arg-type]
                    for nm in set(e1) | set(e2):
                        if nm in e1 and nm in e2:
                            env[nm] = _select(st.test, e1[nm], e2[nm])
                    continue
                raise AnalysisError(f'{h.key}: statement `{stmt_text(st)[:40]}` not summarised')
            return None
        out = block(h.node.body, {})
        if out is None:
            raise AnalysisError(f'{h.key}: no return value')
        return out
    finally:
        _PARAM_KIND = saved


def atom_of_len(arg: ast.AST) -> Optional[str]:
    t = stmt_text(arg)
    if t in _PARAM_KIND:
        return _PARAM_KIND[t]
    base = t.split('(')[0]
    if base.endswith('nsmap') or base.endswith('namespaces'):
        return 'N'
    if 'attrib' in t:
        return 'A'
    return None


def linform(e: ast.AST, env: dict[str, Form]) -> Form:
    """Linear form over N=len(namespace map), X=[xml not in map], A=len(attrib)."""
    if isinstance(e, ast.Constant) and isinstance(e.value, int):
        return {'1': e.value} if e.value else {}
    if isinstance(e, ast.Name):
        if e.id in env:
            return env[e.id]
        raise AnalysisError(f'position arithmetic: unknown name {e.id}')
    if isinstance(e, ast.BinOp) and isinstance(e.op, ast.Add):
        return add(linform(e.left, env), linform(e.right, env))
    if isinstance(e, ast.BinOp) and isinstance(e.op, ast.Sub):
        return add(linform(e.left, env), linform(e.right, env), -1)
    if isinstance(e, ast.Call) and dotted(e.func) == 'len' and len(e.args) == 1:
        a = atom_of_len(e.args[0])
        if a:
            return {a: 1}
    if isinstance(e, ast.Call) and dotted(e.func) == 'int' and len(e.args) == 1:
        c = e.args[0]
        if isinstance(c, ast.Compare) and len(c.ops) == 1 and isinstance(c.ops[0], ast.NotIn) \
                and isinstance(c.left, ast.Constant) and c.left.value == 'xml':
            return {'X': 1}
        if isinstance(c, ast.Compare) and len(c.ops) == 1 and isinstance(c.ops[0], ast.In) \
                and isinstance(c.left, ast.Constant) and c.left.value == 'xml':
            return {'1': 1, 'X': -1}
    if isinstance(e, ast.Call) and dotted(e.func) == 'sum' and len(e.args) == 1 \
            and isinstance(e.args[0], (ast.GeneratorExp, ast.ListComp)) \
            and len(e.args[0].generators) == 1 \
            and isinstance(e.args[0].elt, ast.Constant) and e.args[0].elt.value == 1:
        # sum(1 for .. in M[.items()|.values()] [if cond]): a (filtered) count of M
        gen = e.args[0].generators[0]
        it = gen.iter
        view = ''
        if isinstance(it, ast.Call) and isinstance(it.func, ast.Attribute) \
                and it.func.attr in ('items', 'keys', 'values') and not it.args:
            view, it = it.func.attr, it.func.value
        a = atom_of_len(it)
        if a:
            if not gen.ifs:
                return {a: 1}
            names = {}
            for i, t in enumerate(gen.target.elts if isinstance(gen.target, ast.Tuple)
                                  else [gen.target]):
                if isinstance(t, ast.Name):
                    names[t.id] = f'{view or "k"}{i}'
            conds = []
            for c in gen.ifs:
                c2 = ast.parse(stmt_text(c), mode='eval').body
                for y in ast.walk(c2):
                    if isinstance(y, ast.Name) and y.id in names:
                        y.id = names[y.id]
                conds.append(stmt_text(c2))
            return {f'{a}|' + ' and '.join(sorted(conds)): 1}
    if isinstance(e, ast.Attribute) and dotted(e) == 'self.position':
        return {'P': 1}
    if isinstance(e, ast.IfExp):
        return _select(e.test, linform(e.body, env), linform(e.orelse, env))
    if isinstance(e, ast.Call) and isinstance(e.func, ast.Name) and _MODEL is not None \
            and e.args and not e.keywords:
        hs = [h for h in _MODEL.all_functions() if h.cls is None and h.parent is None
              and h.name == e.func.id]
        if len(hs) == 1:
            return helper_form(hs[0], e)
    raise AnalysisError(f'position arithmetic: unrecognised term `{stmt_text(e)[:50]}`')


ELEMENT_CLASSES = ('EtreeElementNode', 'SchemaElementNode', 'ElementNode')


OFFSET_MISMATCH: list = []
PROVENANCE: list = []


def map_provenance(f: FuncInfo, cfg: CFG, cons: Node, incs: list) -> list:
    """
    The namespace map counted in the gap must be the map of the element just constructed:
    either the tree-level map (a name defined once, outside every loop) or `<elem>.nsmap` of
    the constructor's first argument — directly, or through locals that are (re)defined from
    it on EVERY path between the construction and the increment.
    Returns a list of (node, message) problems.
    """
    problems = []
    call = cons.ast.value                                   # type: ignore[union-attr]
    elem = stmt_text(call.args[0]) if call.args else ''
    loops = [n for n in ast.walk(f.node) if isinstance(n, (ast.For, ast.While))]

    def in_loop(node: ast.AST) -> bool:
        return any(node is x for lp in loops for x in ast.walk(lp))
    defs: dict[str, list[ast.AST]] = {}
    for n in ast.walk(f.node):
        if isinstance(n, (ast.Assign, ast.AnnAssign)):
            tg = n.targets[0] if isinstance(n, ast.Assign) else n.target
            if isinstance(tg, ast.Name) and n.value is not None:
                defs.setdefault(tg.id, []).append(n)

    def tree_level(name: str, depth: int = 0) -> bool:
        if name in f.params():
            return not any(in_loop(d) for d in defs.get(name, []))
        ds = defs.get(name, [])
        if not ds or any(in_loop(d) for d in ds) or depth > 3:
            return False
        for d in ds:
            callees = {id(c.func) for c in ast.walk(d.value)     # type: ignore[attr-defined]
                       if isinstance(c, ast.Call)}
            for x in ast.walk(d.value):         # type: ignore[attr-defined]
                if isinstance(x, ast.Name) and id(x) not in callees \
                        and x.id != name and not tree_level(x.id, depth + 1):
                    return False
                if isinstance(x, ast.Attribute) and x.attr == 'nsmap':
                    return False
        return True

    def fresh_from_elem(name: str, inc: Node, depth: int = 0) -> bool:
        """every path cons -> inc passes a definition of `name` derived from <elem>.nsmap."""
        def is_def(nd: Node) -> bool:
            a = nd.ast
            if nd.kind == 'stmt' and isinstance(a, (ast.Assign, ast.AnnAssign)):
                tg = a.targets[0] if isinstance(a, ast.Assign) else a.target
                if isinstance(tg, ast.Name) and tg.id == name and a.value is not None:
                    for x in ast.walk(a.value):
                        if isinstance(x, ast.Attribute) and x.attr == 'nsmap' \
                                and stmt_text(x.value) == elem:
                            return True
                        if isinstance(x, ast.Name) and x.id != name and depth < 3 \
                                and x.id in defs and fresh_from_elem(x.id, nd, depth + 1):
                            return True
            return False
        return cfg.path_avoiding([cons], lambda q: q is inc, is_def) is None

    for inc in incs:
        for x in ast.walk(inc.ast.value):                   # type: ignore[union-attr]
            if isinstance(x, ast.Attribute) and x.attr == 'nsmap':
                if stmt_text(x.value) != elem:
                    problems.append((inc, f'the gap after wrapping `{elem}` counts '
                                          f'`{stmt_text(x)}`, the map of another element'))
            elif isinstance(x, ast.Name) and x.id in defs and x.id != 'position':
                if tree_level(x.id):
                    continue
                uses_map = any(isinstance(y, ast.Attribute) and y.attr == 'nsmap'
                               or isinstance(y, ast.Name) and y.id in ('nsmap', 'namespaces')
                               for d in defs[x.id] for y in ast.walk(d.value))   # type: ignore
                if not uses_map and not x.id.endswith(('offset', 'nsmap')):
                    continue
                if not fresh_from_elem(x.id, inc):
                    problems.append((inc, f'`{x.id}` used in the gap after wrapping `{elem}` is '
                                          f'not recomputed from `{elem}.nsmap` on every path: '
                                          f'on some path it describes the namespace map of a '
                                          f'previously visited element'))
    return problems


def offset_env(f: FuncInfo) -> dict[str, Form]:
    """Forms of the *_offset locals; a constant arm must agree with the general form for the
    empty map assigned next to it (namespaces = {} gives N=0, X=1)."""
    env: dict[str, Form] = {}
    consts: list[tuple[str, int, list[ast.stmt]]] = []

    def scan(body: list[ast.stmt]) -> None:
        for st in body:
            if isinstance(st, ast.Assign) and len(st.targets) == 1 \
                    and isinstance(st.targets[0], ast.Name) and st.targets[0].id.endswith('offset'):
                nm = st.targets[0].id
                form = linform(st.value, env)
                if set(form) - {'1'}:
                    env[nm] = form
                else:
                    consts.append((nm, form.get('1', 0), body))
            for fld in ('body', 'orelse'):
                sub = getattr(st, fld, None)
                if isinstance(sub, list) and sub and isinstance(sub[0], ast.stmt):
                    scan(sub)
    scan(f.node.body)
    for nm, c, body in consts:
        if nm not in env:
            raise AnalysisError(f'{f.key}: {nm} has only a constant definition')
        empty_map = any(isinstance(s, (ast.Assign, ast.AnnAssign))
                        and stmt_text(s.value) == '{}' for s in body)   # type: ignore[union-attr]
        g = env[nm]
        at_empty = g.get('1', 0) + g.get('X', 0)
        if not empty_map:
            raise AnalysisError(f'{f.key}: constant {nm} = {c} without an empty map next to it')
        if c != at_empty:
            OFFSET_MISMATCH.append((f, nm, c, fmt(g), at_empty))
    return env


def builder_gaps(f: FuncInfo) -> list[tuple[ast.AST, Form]]:
    """For each element construction in the builder: the increment that follows it on every
    path (first `position += …` reached), as a linear form."""
    env = offset_env(f)
    cfg = CFG(f.node)

    def is_inc(nd: Node) -> bool:
        return nd.kind == 'stmt' and isinstance(nd.ast, ast.AugAssign) \
            and dotted(nd.ast.target) == 'position'

    def is_elem(nd: Node) -> bool:
        a = nd.ast
        return nd.kind == 'stmt' and isinstance(a, ast.Assign) and isinstance(a.value, ast.Call) \
            and dotted(a.value.func) in ELEMENT_CLASSES
    out: list[tuple[ast.AST, Form]] = []
    for c in cfg.find(is_elem):
        firsts: list[Node] = []
        seen = set()
        stack = [s for lb, s in c.succs]
        while stack:
            nd = stack.pop()
            if nd.id in seen:
                continue
            seen.add(nd.id)
            if is_inc(nd):
                firsts.append(nd)
                continue
            if nd is cfg.exit or nd is cfg.raise_exit:
                continue
            if is_elem(nd):
                firsts.append(nd)       # another element before any increment
                continue
            stack.extend(s for lb, s in nd.succs)
        if any(not is_inc(x) for x in firsts) or not firsts:
            out.append((c.ast, {}))
            continue
        PROVENANCE.extend(map_provenance(f, cfg, c, firsts))
        forms = [linform(x.ast.value, env) for x in firsts]     # type: ignore[union-attr]
        if all(fm == forms[0] for fm in forms):
            out.append((c.ast, forms[0]))
            continue
        # the lxml idiom: two arms of `if 'xml' in <e>.nsmap`
        if len(firsts) == 2:
            tests = [p for x in firsts for lb, p in x.preds if p.kind == 'test']
            if len(tests) == 2 and tests[0] is tests[1]:
                t = tests[0].ast
                if isinstance(t, ast.Compare) and isinstance(t.left, ast.Constant) \
                        and t.left.value == 'xml' and isinstance(t.ops[0], ast.In):
                    yes = [x for x in firsts if ('true', tests[0]) in x.preds][0]
                    no = [x for x in firsts if x is not yes][0]
                    fy = linform(yes.ast.value, env)      # type: ignore[union-attr]
                    fn_ = linform(no.ast.value, env)      # type: ignore[union-attr]
                    diff = add(fn_, fy, -1)
                    if not (set(diff) - {'1'}):
                        out.append((c.ast, add(fy, {'X': diff.get('1', 0)})))
                        continue
        raise AnalysisError(f'{f.key}: increments after the element at L{c.lineno} differ: '
                            f'{[fmt(x) for x in forms]}')
    return out


def reader_attributes(f: FuncInfo) -> tuple[Form, Form]:
    """(offset of the first attribute, offset of the last attribute) relative to self.position."""
    env: dict[str, Form] = {}
    start: Optional[Form] = None
    for n in sorted(walk_local(f.node), key=lambda q: (getattr(q, 'lineno', 0),
                                                       getattr(q, 'col_offset', 0))):
        if isinstance(n, ast.Assign) and len(n.targets) == 1 and isinstance(n.targets[0], ast.Name):
            nm = n.targets[0].id
            if nm == 'nsmap':
                continue
            if nm == 'position' and start is None:
                start = add(linform(n.value, env), {'P': 1}, -1)
    if start is None:
        raise AnalysisError(f'{f.key}: start position of the attributes not recognised')
    enum_ok = any(isinstance(n, ast.Call) and dotted(n.func) == 'enumerate' and len(n.args) == 2
                  and stmt_text(n.args[1]) == 'position' and 'attrib' in stmt_text(n.args[0])
                  for n in walk_local(f.node))
    if not enumerate_attr_positions(f):
        raise AnalysisError(f'{f.key}: attributes are not numbered with enumerate(…attrib…, '
                            f'position)')
    del enum_ok
    return start, add(start, {'A': 1, '1': -1})


def enumerate_attr_positions(f: FuncInfo) -> bool:
    for n in ast.walk(f.node):
        if isinstance(n, ast.Call) and dotted(n.func) == 'enumerate' and len(n.args) == 2 \
                and stmt_text(n.args[1]) == 'position' and 'attrib' in stmt_text(n.args[0]):
            return True
    return False


def reader_namespaces(f: FuncInfo) -> tuple[Form, Form]:
    """
    Recognised idiom: position = self.position + k; one unconditional NamespaceNode('xml', …);
    position += 1; loop over nsmap.items() with `if pfx != 'xml'` creating one node and
    position += 1 per iteration.  -> first offset k, last offset k + N + X - 1.
    """
    first: Optional[Form] = None
    fixed = loop_nodes = 0
    guard = False
    for n in sorted(walk_local(f.node), key=lambda q: (getattr(q, 'lineno', 0),
                                                       getattr(q, 'col_offset', 0))):
        if isinstance(n, ast.Assign) and len(n.targets) == 1 \
                and dotted(n.targets[0]) == 'position' and first is None:
            first = add(linform(n.value, {}), {'P': 1}, -1)
    for st in ast.walk(f.node):
        if isinstance(st, ast.For) and 'nsmap' in stmt_text(st.iter):
            for x in ast.walk(st):
                if isinstance(x, ast.Call) and dotted(x.func) == 'NamespaceNode':
                    loop_nodes += 1
                if isinstance(x, ast.Compare) and stmt_text(x) in ("pfx != 'xml'", "prefix != 'xml'"):
                    guard = True
            incs = [x for x in ast.walk(st) if isinstance(x, ast.AugAssign)
                    and dotted(x.target) == 'position' and stmt_text(x.value) == '1']
            if len(incs) != 1:
                raise AnalysisError(f'{f.key}: namespace loop does not advance position by 1')
    calls = [x for x in ast.walk(f.node) if isinstance(x, ast.Call)
             and dotted(x.func) == 'NamespaceNode']
    # second idiom: a comprehension over enumerate(nsmap.items(), START) creating the nodes
    for comp in ast.walk(f.node):
        if not isinstance(comp, (ast.GeneratorExp, ast.ListComp)) or len(comp.generators) != 1:
            continue
        if not (isinstance(comp.elt, ast.Call) and dotted(comp.elt.func) == 'NamespaceNode'):
            continue
        g = comp.generators[0]
        it = g.iter
        if not (isinstance(it, ast.Call) and dotted(it.func) == 'enumerate' and it.args
                and 'nsmap' in stmt_text(it.args[0])):
            raise AnalysisError(f'{f.key}: namespace comprehension is not over enumerate(nsmap…)')
        start_e = it.args[1] if len(it.args) > 1 else next(
            (k.value for k in it.keywords if k.arg == 'start'), ast.Constant(0))
        if first is None:
            raise AnalysisError(f'{f.key}: position base not found')
        # `position` holds first (offset from self.position); START is a form over it
        start = linform(start_e, {'position': add(first, {})})
        post_filter = any("!= 'xml'" in stmt_text(c) for c in g.ifs)
        pre_filter = "!= 'xml'" in stmt_text(it.args[0])
        xml_first = any(isinstance(c.args[0], ast.Constant) and c.args[0].value == 'xml'
                        for c in calls if c.args and c is not comp.elt)
        if not xml_first or not (post_filter or pre_filter):
            raise AnalysisError(f'{f.key}: namespace comprehension without the xml node/filter')
        if pre_filter:
            last = add(start, {'N': 1, 'X': 1, '1': -2})     # N - [xml in map] items
        else:
            # the filter is applied after enumerate: the skipped 'xml' entry still consumes a
            # number, so offsets run up to START + N - 1
            last = add(start, {'N': 1, '1': -1})
        return first, last
    fixed = len(calls) - loop_nodes
    if first is None or fixed != 1 or loop_nodes != 1 or not guard:
        raise AnalysisError(f'{f.key}: namespace-node numbering idiom not recognised '
                            f'(first={first}, fixed={fixed}, loop={loop_nodes}, guard={guard})')
    xml_first = any(isinstance(c.args[0], ast.Constant) and c.args[0].value == 'xml'
                    for c in calls if c.args)
    if not xml_first:
        raise AnalysisError(f'{f.key}: the unconditional namespace node is not the xml one')
    # count = 1 (xml) + N - [xml in nsmap] = N + X
    return first, add(first, {'N': 1, 'X': 1, '1': -1})


def r02_1(ctx, counts) -> RuleResult:
    model: Model = ctx.model
    res = RuleResult(
        'R02.1', 'GAP-AGREEMENT',
        'With N = len(namespace map), X = [\'xml\' not in map], A = len(attrib): every element '
        'construction in build_node_tree / build_lxml_node_tree / build_schema_node_tree is '
        'followed by `position += gap` and the linear forms must satisfy: namespace nodes occupy '
        'offsets 1 … N+X (ElementNode.namespace_nodes), attributes N+X+1 … N+X+A '
        '(EtreeElementNode.attributes, SchemaElementNode.attributes), so first_attribute = '
        'last_namespace + 1 and gap = last_attribute + 1 = N + X + A + 1. The builder\'s map '
        'must be the map the readers consult (tree.namespaces / elem.nsmap).')
    tb = model.module('elementpath.tree_builders')
    en = model.find_class('ElementNode')
    ns = en.methods.get('namespace_nodes')
    if ns is None:
        raise AnalysisError('ElementNode.namespace_nodes vanished')
    ns_first, ns_last = reader_namespaces(ns)
    res.instances.append(f'{ns.key}: namespace offsets {fmt(ns_first)} … {fmt(ns_last)}')
    readers = {}
    for cname in ('EtreeElementNode', 'SchemaElementNode'):
        c = model.find_class(cname)
        m = c.methods.get('attributes')
        if m is None:
            raise AnalysisError(f'{cname}.attributes vanished')
        readers[cname] = reader_attributes(m)
        a0, a1 = readers[cname]
        res.instances.append(f'{m.key}: attribute offsets {fmt(a0)} … {fmt(a1)}')
        if a0 == add(ns_last, {'1': 1}):
            res.ok()
        else:
            res.fail(finding('R02.1', m, m.node, f'{cname} attribute start',
                             f'{cname}.attributes starts at offset {fmt(a0)} but the namespace '
                             f'nodes end at {fmt(ns_last)}: positions collide or leave a hole'))
    want_gap = {'N': 1, 'X': 1, 'A': 1, '1': 1}
    n = 0
    for bname, reader in (('build_node_tree', 'EtreeElementNode'),
                          ('build_lxml_node_tree', 'EtreeElementNode'),
                          ('build_schema_node_tree', 'SchemaElementNode')):
        b = tb.toplevel_function(bname)
        if b is None:
            raise AnalysisError(f'{bname} vanished')
        gaps = builder_gaps(b)
        if not gaps:
            raise AnalysisError(f'{bname}: no element construction found')
        a0, a1 = readers[reader]
        need = add(a1, {'1': 1})
        for st, gap in gaps:
            n += 1
            res.instances.append(f'{b.key}: L{st.lineno} `{stmt_text(st)[:40]}` gap = {fmt(gap)}')
            res.samples.append({'rule': 'R02.1', 'builder': bname, 'line': st.lineno,
                                'gap': fmt(gap), 'readers_consume': fmt(need)})
            if gap == need == want_gap:
                res.ok()
            else:
                res.fail(finding('R02.1', b, st, f'gap after {stmt_text(st.value.func)}',  # type: ignore[attr-defined]
                                 f'{bname} reserves {fmt(gap) or "nothing"} positions after an '
                                 f'element but its namespace and attribute nodes consume '
                                 f'{fmt(need)}: a lazily created attribute/namespace node gets '
                                 f'the position of a following node (or positions are not '
                                 f'increasing in document order)'))
    counts['element_constructions'] = n
    seen_mm = set()
    for f_, nm, c, g, at_empty in OFFSET_MISMATCH:
        if (f_.key, nm) in seen_mm:
            continue
        seen_mm.add((f_.key, nm))
        res.fail(finding('R02.1', f_, f_.node, f'{nm} constant arm',
                         f'{f_.name}: `{nm} = {c}` for the empty namespace map disagrees with '
                         f'the general formula {g} (= {at_empty} for an empty map)'))
    del OFFSET_MISMATCH[:]
    seen_p = set()
    for nd, msg in PROVENANCE:
        if (nd.lineno, msg) in seen_p:
            continue
        seen_p.add((nd.lineno, msg))
        fn = [b_ for b_ in (tb.toplevel_function(x) for x in
                            ('build_node_tree', 'build_lxml_node_tree', 'build_schema_node_tree'))
              if b_ is not None and b_.node.lineno <= nd.lineno <= b_.node.end_lineno]
        res.fail(finding('R02.1', fn[0] if fn else None, nd.ast, 'stale namespace map in gap',
                         msg + ': the reserved gap can be smaller than what the lazy '
                               'namespace/attribute nodes of this element consume',
                         module=tb))
    del PROVENANCE[:]
    # map agreement
    b = tb.toplevel_function('build_node_tree')
    assert b is not None
    if any(isinstance(x, ast.Assign) and stmt_text(x) == 'root_node.tree.namespaces = namespaces'
           for x in walk_local(b.node)):
        res.ok()
    else:
        res.fail(finding('R02.1', b, b.node, 'tree.namespaces',
                         'build_node_tree no longer stores the namespaces map it counted with '
                         'on the tree, so the lazy readers count another map'))
    nm = en.methods.get('nsmap')
    if nm is not None and any(stmt_text(r.value) == 'self.tree.namespaces'
                              for r in walk_local(nm.node)
                              if isinstance(r, ast.Return) and r.value is not None):
        res.ok()
    else:
        res.fail(finding('R02.1', nm or ns, (nm or ns).node, 'nsmap source',
                         'ElementNode.nsmap no longer falls back to tree.namespaces'))
    return res


NODE_CLASSES = ('EtreeDocumentNode', 'EtreeElementNode', 'TextNode', 'CommentNode',
                'ProcessingInstructionNode', 'SchemaElementNode', 'DocumentNode', 'ElementNode')


def r02_2(ctx, counts) -> RuleResult:
    model: Model = ctx.model
    res = RuleResult(
        'R02.2', 'POSITION-FRESH',
        'In each builder, every path from one node construction that passes `position` to the '
        'next such construction (loop back edges included) passes a statement `position += e` '
        'whose linear form is >= 1 (a positive constant plus non-negative terms). With R02.1 '
        'this gives unique, strictly increasing positions in creation order.')
    tb = model.module('elementpath.tree_builders')
    n = 0
    for bname in ('build_node_tree', 'build_lxml_node_tree', 'build_schema_node_tree'):
        b = tb.toplevel_function(bname)
        if b is None:
            raise AnalysisError(f'{bname} vanished')
        cfg = CFG(b.node)

        def is_cons(nd: Node) -> bool:
            for x in nd.walk():
                if isinstance(x, ast.Call) and dotted(x.func) in NODE_CLASSES \
                        and any(stmt_text(a) == 'position' for a in x.args):
                    return True
            return False

        def is_inc(nd: Node) -> bool:
            a = nd.ast
            if nd.kind == 'stmt' and isinstance(a, ast.AugAssign) and isinstance(a.op, ast.Add) \
                    and dotted(a.target) == 'position':
                try:
                    env = {'ns_pos_offset': {'N': 1, 'X': 1, '1': 1}}
                    f_ = linform(a.value, env)
                except AnalysisError:
                    return False
                return f_.get('1', 0) >= 1 and all(c >= 0 for k, c in f_.items() if k != 'X') \
                    and f_.get('1', 0) + min(0, f_.get('X', 0)) >= 1
            return False
        cons = cfg.find(is_cons)
        for c in cons:
            n += 1
            p = cfg.path_avoiding([c], is_cons, is_inc)
            res.instances.append(f'{b.key}: construction at L{c.lineno} followed by an increment '
                                 f'on every path = {p is None}')
            if p is None:
                res.ok()
            else:
                res.fail(finding('R02.2', b, c.ast, f'no increment after L-construction',
                                 f'{bname}: after `{c.text()[:50]}` another node can be created '
                                 f'without `position` having been advanced: two nodes share a '
                                 f'position', CFG.fmt_path(p)))
    counts['node_constructions'] = n
    return res


def _judge_yield(res, f, syms, set_names, facts, x, v, nd) -> None:
    inner = v
    while isinstance(inner, ast.Call) and dotted(inner.func) == 'cast' and len(inner.args) == 2:
        inner = inner.args[1]
    is_sorted = isinstance(inner, ast.Call) and dotted(inner.func) == 'sorted' and any(
        k.arg == 'key' and stmt_text(k.value) == 'node_position' for k in inner.keywords)
    from_set = False
    src = inner.args[0] if is_sorted and inner.args else inner
    for y in ast.walk(src):
        if isinstance(y, ast.Name) and y.id in set_names:
            from_set = True
        if isinstance(y, (ast.Set, ast.SetComp)):
            from_set = True
    setop = bool(set(syms) & {'|', 'union', 'intersect', 'except'})
    if not from_set and not setop:
        res.ok()
        return
    concat = any(ft == '+self.concatenated' for ft in facts[nd.id])
    res.instances.append(f'{f.key} ({",".join(sorted(set(syms)))}): yield from set at '
                         f'L{x.lineno} sorted={is_sorted} concatenated-branch={concat}')
    if is_sorted or concat:
        res.ok()
    else:
        res.fail(finding('R02.3', f, x, 'unsorted set' if from_set else 'unsorted operand',
                         f'{sorted(set(syms))}: `{stmt_text(x)[:60]}` yields '
                         f'{"the elements of a set" if from_set else "an operand as it came"} '
                         f'without sorted(key=node_position): the result of a set '
                         f'operator must be duplicate-free and in document order'))


def r02_3(ctx, counts) -> RuleResult:
    model: Model = ctx.model
    reg = ctx.reg
    res = RuleResult(
        'R02.3', 'SETOP-SORT',
        'In the select functions of "|"/union, intersect, except every `yield from` — and in the '
        'leading "//" select whatever is yielded from a set of nodes — '
        'set (`yield from <set expr>` where the expression is a set display/comprehension, '
        'set() call, set operation or a name bound to one) passes through sorted(…, '
        'key=node_position). The `self.concatenated` branch of the union operator is the one '
        'accepted exception (the enclosing union sorts the merged result).')
    funcs: dict[FuncInfo, list[str]] = {}
    for sym in ('|', 'union', 'intersect', 'except', '//'):
        for p in reg.PARSERS:
            rec = reg.tables[p].get(sym)
            if rec is not None and rec.method('select') is not None:
                funcs.setdefault(rec.method('select').func, []).append(sym)   # type: ignore[union-attr]
    n = 0
    for f, syms in sorted(funcs.items(), key=lambda kv: kv[0].key):
        set_names = set()
        for x in walk_local(f.node):
            if isinstance(x, (ast.Assign, ast.AnnAssign)):
                tg = x.targets[0] if isinstance(x, ast.Assign) else x.target
                v = x.value
                elts = [(tg, v)]
                if isinstance(tg, ast.Tuple) and isinstance(v, ast.Tuple):
                    elts = list(zip(tg.elts, v.elts))
                for t_, v_ in elts:
                    if isinstance(t_, ast.Name) and v_ is not None and (
                            isinstance(v_, (ast.Set, ast.SetComp, ast.Dict, ast.DictComp,
                                            ast.List, ast.ListComp)) or
                            (isinstance(v_, ast.Call) and dotted(v_.func) in (
                                'set', 'dict', 'list', 'frozenset', 'OrderedDict'))):
                        set_names.add(t_.id)    # a local accumulator of results
        cfg = CFG(f.node)
        facts = branch_facts(cfg)
        for nd in cfg.nodes:
            for x in nd.walk():
                if not isinstance(x, ast.YieldFrom):
                    continue
                # `nodes = <a> if … / else: nodes = <b>` … `yield from nodes`: every definition
                # of the temporary is judged where it is made
                pairs = [(x.value, nd)]
                if isinstance(x.value, ast.Name) and x.value.id not in set_names:
                    defs = [q for q in cfg.nodes if q.kind == 'stmt'
                            and isinstance(q.ast, (ast.Assign, ast.AnnAssign))
                            and getattr(q.ast, 'value', None) is not None
                            and isinstance((q.ast.targets[0] if isinstance(q.ast, ast.Assign)
                                            else q.ast.target), ast.Name)
                            and (q.ast.targets[0] if isinstance(q.ast, ast.Assign)
                                 else q.ast.target).id == x.value.id]
                    if defs:
                        pairs = [(q.ast.value, q) for q in defs]
                for v, nd_ in pairs:
                    _judge_yield(res, f, syms, set_names, facts, x, v, nd_)
                    n += 1
    counts['set_yields'] = n
    # operand isolation: each operand of a set operator is evaluated on its own copy of the
    # context (an operand such as a leading // moves the focus and does not restore it)
    n_ops = 0
    for f, syms in sorted(funcs.items(), key=lambda kv: kv[0].key):
        if not set(syms) & {'|', 'union', 'intersect', 'except'}:
            continue
        for c in ast.walk(f.node):        # nested closures evaluate operands too
            if isinstance(c, ast.Call) and isinstance(c.func, ast.Attribute) and \
                    c.func.attr in ('select', 'evaluate') and \
                    isinstance(c.func.value, ast.Subscript) and \
                    dotted(c.func.value.value) == 'self' and c.args:
                n_ops += 1
                a = c.args[0]
                iso = isinstance(a, ast.Call) and dotted(a.func) in ('copy', 'copy.copy') and \
                    len(a.args) == 1 and dotted(a.args[0]) == 'context'
                res.instances.append(f'{f.key}: {stmt_text(c)[:50]} on a copy={iso}')
                if iso:
                    res.ok()
                else:
                    res.fail(finding('R02.3', f, c, f'operand {stmt_text(c.func.value)} shared context',
                                     f'`{stmt_text(c)[:60]}` evaluates an operand of '
                                     f'{sorted(set(syms))} on the shared context while its '
                                     f'siblings get copy(context): a leading // or / in that '
                                     f'operand moves the focus seen by the other operand '
                                     f'(//b intersect b from a non-root focus)'))
    counts['setop_operands'] = n_ops
    if n_ops < 2:       # (one site per function when the operands are evaluated in a loop)
        raise AnalysisError(f'only {n_ops} set-operator operand evaluations located')
    # `concatenated` is only set by the union led on the operand it adopts
    setters = []
    for f in model.all_functions():
        for x in walk_local(f.node):
            if isinstance(x, ast.Assign) and any(isinstance(t, ast.Attribute)
                                                 and t.attr == 'concatenated' for t in x.targets):
                setters.append((f, x))
    for f, x in setters:
        ok = f in ctx.reg.bound_functions() and \
            any(slot == 'led' for _, slot in ctx.reg.bound_functions()[f]) and \
            stmt_text(x) == 'left.concatenated = True'
        res.instances.append(f'{f.key}: {stmt_text(x)}')
        if ok:
            res.ok()
        else:
            res.fail(finding('R02.3', f, x, 'concatenated setter',
                             '`concatenated` is set outside the union led: an unsorted union '
                             'result can escape'))
    return res


# --------------------------------------------------------------------------- R02.4
LAZY_PARTS = ('_attributes', '_namespace_nodes', 'attributes', 'namespace_nodes')


def r02_4(ctx, counts) -> RuleResult:
    model: Model = ctx.model
    res = RuleResult(
        'R02.4', 'TRAVERSAL-EMITS-LAZY-PARTS',
        'In every traversal generator of xpath_nodes (iter, iter_lazy, iter_document, …) each '
        '`yield from X._attributes / X._namespace_nodes / X.attributes / X.namespace_nodes` is '
        'control-dependent only on type and hasattr tests: no dominating branch fact mentions '
        'X.children (or any other property of the children). An element\'s attributes and '
        'namespace nodes sit between it and its first child in document order whether or not '
        'it has children; the sibling traversals must agree on that.')
    mod = model.module('elementpath.xpath_nodes')
    n_sites = 0
    gens = 0
    for f in sorted(mod.functions.values(), key=lambda q: q.key):
        ys = [n for n in walk_local(f.node) if isinstance(n, ast.YieldFrom)
              and isinstance(n.value, ast.Attribute) and n.value.attr in LAZY_PARTS]
        if not ys:
            continue
        gens += 1
        cfg = CFG(f.node)
        facts = branch_facts(cfg)
        for y in ys:
            n_sites += 1
            holder = [nd for nd in cfg.nodes if nd.ast is not None and nd.kind == 'stmt'
                      and any(x is y for x in ast.walk(nd.ast))]
            if not holder:
                raise AnalysisError(f'{f.key}: yield not located in the CFG')
            bad = sorted(fa for fa in facts[holder[0].id] if 'children' in fa or 'len(' in fa)
            res.instances.append(f'{f.key}: {stmt_text(y)} under {sorted(facts[holder[0].id])}')
            if bad:
                res.fail(finding('R02.4', f, y, f'{stmt_text(y)} under {bad[0]}',
                                 f'`{stmt_text(y)}` is only reached when `{bad[0][1:]}` is '
                                 f'{"true" if bad[0][0] == "+" else "false"}: elements without '
                                 f'children lose their attribute/namespace nodes in this '
                                 f'traversal, so it disagrees with its siblings on document order'))
            else:
                res.ok()
    counts['lazy_part_yields'] = n_sites
    if n_sites < 6 or gens < 3:
        raise AnalysisError(f'only {n_sites} attribute/namespace yields in {gens} generators')
    return res


def r02_5(ctx, counts) -> RuleResult:
    """string value = text of the descendants in document order"""
    model: Model = ctx.model
    res = RuleResult(
        'R02.5', 'TAIL-AFTER-DESCENDANTS',
        'The string value of an element is the concatenation of its descendant text nodes in '
        'document order. In an ElementTree the text that follows an element (its `tail`) comes '
        'after the text of all its descendants. A generator that walks `<elem>.iter()` — a '
        'pre-order traversal — and yields `e.tail` in the iteration that visits `e` emits the '
        'tail BEFORE the text of e\'s descendants: <r><a>1<b>x</b>y</a>2</r> gives "12xy". '
        'Functions of elementpath/etree.py and xpath_nodes.py that yield both `.text` and `.tail` '
        'of the loop variable of a `for … in ….iter()` loop are the instances; the tail yield is '
        'the violation (a depth-first walk with an explicit stack, or itertext(), is the sound '
        'shape). A `continue` for comments/PIs placed before the tail yield also drops the '
        'text that follows a comment.')
    n = 0
    for f in sorted(model.all_functions(), key=lambda q: q.key):
        if f.module.name not in ('elementpath.etree', 'elementpath.xpath_nodes'):
            continue
        for loop in [x for x in walk_local(f.node) if isinstance(x, ast.For)]:
            if not (isinstance(loop.iter, ast.Call) and isinstance(loop.iter.func, ast.Attribute)
                    and loop.iter.func.attr == 'iter' and isinstance(loop.target, ast.Name)):
                continue
            v = loop.target.id
            yields = [y for st in loop.body for y in ast.walk(st) if isinstance(y, ast.Yield)
                      and y.value is not None]
            text_y = [y for y in yields if any(isinstance(a, ast.Attribute) and a.attr == 'text'
                                               and dotted(a.value) == v for a in ast.walk(y.value))]
            tail_y = [y for y in yields if any(isinstance(a, ast.Attribute) and a.attr == 'tail'
                                               and dotted(a.value) == v for a in ast.walk(y.value))]
            if not text_y and not tail_y:
                continue
            n += 1
            res.instances.append(f'{f.key}: pre-order loop over `{stmt_text(loop.iter)}` yields '
                                 f'{len(text_y)} text / {len(tail_y)} tail value(s) of `{v}`')
            if not tail_y:
                res.ok()
            # a comment/PI has no text of its own but its tail is text of the parent
            for st in loop.body:
                if isinstance(st, ast.If) and 'callable(' in stmt_text(st.test) \
                        and any(isinstance(x, ast.Continue) for x in ast.walk(st)) and tail_y \
                        and st.lineno < min(y.lineno for y in tail_y):
                    res.fail(finding('R02.5', f, st, 'comment skip drops the tail',
                                     f'`if {stmt_text(st.test)}: continue` skips a comment or '
                                     f'processing instruction together with its tail: the text '
                                     f'that follows it is lost (string(<r>a<!--c-->b</r>) = "a")'))
                elif isinstance(st, ast.If) and 'callable(' in stmt_text(st.test):
                    res.ok()
            for y in tail_y:
                res.fail(finding('R02.5', f, y, f'yield {v}.tail in pre-order',
                                 f'`{stmt_text(y)[:50]}` is executed when the pre-order traversal '
                                 f'visits `{v}`, i.e. before the text of its descendants: the '
                                 f'string value of <r><a>1<b>x</b>y</a>2</r> is "12xy" instead '
                                 f'of "1xy2"'))
    counts['preorder_string_loops'] = n
    # the string value of elements must be computed somewhere in these modules
    users = [f for f in model.all_functions() if f.module.name == 'elementpath.xpath_nodes'
             and f.name == 'string_value']
    if len(users) < 3:
        raise AnalysisError(f'only {len(users)} string_value implementations located')
    res.instances.append(f'{len(users)} string_value implementations in xpath_nodes.py')
    res.ok()
    return res


def r02_7(ctx, counts) -> RuleResult:
    """the string value of a document is the text of its element content only"""
    model: Model = ctx.model
    res = RuleResult(
        'R02.7', 'DOCUMENT-STRING-VALUE-TEXT-ONLY',
        'The string value of a document node is the concatenation of the string values of its '
        'text node descendants (XDM 6.1.2): the comments and processing instructions that lxml '
        'keeps as children of the document contribute nothing. In the string_value / '
        'compat_string_value of the document node classes an iteration over the children that '
        'collects their string values is filtered: `if isinstance(child, (ElementNode, '
        'TextNode))` or the negation for CommentNode / ProcessingInstructionNode. Otherwise '
        'string(/) of <!--c--><a>t</a> is "ct" with lxml and "t" with ElementTree.')
    doc = model.find_class('DocumentNode')
    classes = [c for c in model.all_classes() if c is doc or c.is_subclass_of(doc)]
    n = 0
    for c in sorted(classes, key=lambda q: q.name):
        for mname in ('string_value', 'compat_string_value'):
            m = c.methods.get(mname)
            if m is None:
                continue
            for x in ast.walk(m.node):
                gens = []
                if isinstance(x, (ast.GeneratorExp, ast.ListComp)):
                    if any(isinstance(y, ast.Attribute) and y.attr in (
                            'string_value', 'compat_string_value') for y in ast.walk(x.elt)):
                        gens = [g for g in x.generators
                                if stmt_text(g.iter) in ('self.children', 'self')]
                for g in gens:
                    n += 1
                    tests = [t for i in g.ifs for t in ast.walk(i)
                             if isinstance(t, ast.Call) and dotted(t.func) == 'isinstance']
                    names = {dotted(e) for t in tests if len(t.args) == 2 for e in (
                        t.args[1].elts if isinstance(t.args[1], ast.Tuple) else [t.args[1]])}
                    neg = any(isinstance(i, ast.UnaryOp) and isinstance(i.op, ast.Not)
                              for i in g.ifs)
                    ok = (not neg and names and names <= {'ElementNode', 'TextNode',
                                                          'EtreeElementNode'}) or \
                         (neg and {'CommentNode', 'ProcessingInstructionNode'} <= names)
                    res.instances.append(f'{m.key}: children joined, comments and processing '
                                         f'instructions filtered out: {bool(ok)}')
                    if ok:
                        res.ok()
                    else:
                        res.fail(finding('R02.7', m, x, 'document string value with comments',
                                         f'`{stmt_text(x)[:70]}` joins the string values of all '
                                         f'the children of the document: the content of '
                                         f'document-level comments and processing instructions '
                                         f'(kept by lxml) becomes part of string(/)'))
    counts['document_string_value_joins'] = n
    if n < 1:
        raise AnalysisError('document string value: no join over the children located')
    return res


def r02_8(ctx, counts: dict[str, int]) -> RuleResult:
    """an explicit-stack traversal restores every per-level variable it re-initialises"""
    model: Model = ctx.model
    res = RuleResult(
        'R02.8', 'EXPLICIT-STACK-STATE-COMPLETE',
        'The tree walks of the package are iterative: a `while` loop with explicit stacks (a local '
        'list with `.append(..)` and `.pop()` inside the loop). In the block that pushes (the '
        'descent into a child) some locals are re-initialised for the new level — the iterator '
        'over the children, the parent, per-level counters. Every such local that is also read '
        'elsewhere in the loop is loop-carried per-level state and must be assigned again in a '
        'block that pops (directly, from a tuple unpacking of the popped frame, or inside the '
        'try around the pop): otherwise the parent level continues with the value of the child '
        'level (an iterative etree_iter_paths that saved (children, path, pi_nodes, positions) '
        'and not comment_nodes numbered the comments after a nested element from the child\'s '
        'count).')

    def blocks(node: ast.AST):
        for n_ in ast.walk(node):
            for fld in ('body', 'orelse', 'finalbody'):
                b = getattr(n_, fld, None)
                if isinstance(b, list) and b and isinstance(b[0], ast.stmt):
                    yield b

    def flat(block: list[ast.stmt]):
        for st in block:
            yield st
            if isinstance(st, ast.Try):
                yield from flat(st.body)

    def assigned(block: list[ast.stmt]) -> set[str]:
        out: set[str] = set()
        for st in flat(block):
            if isinstance(st, (ast.Assign, ast.AugAssign, ast.AnnAssign)):
                for t in (st.targets if isinstance(st, ast.Assign) else [st.target]):
                    out |= {y.id for y in ast.walk(t)
                            if isinstance(y, ast.Name) and isinstance(y.ctx, ast.Store)}
        return out
    n = 0
    for f in sorted(model.all_functions(), key=lambda q: q.key):
        if '.validators' in f.module.name:
            continue
        for w in walk_local(f.node):
            if not isinstance(w, ast.While):
                continue
            pops: dict[str, list] = {}
            pushes: dict[str, list] = {}
            for b in blocks(w):
                for st in flat(b):
                    if isinstance(st, (ast.If, ast.For, ast.While, ast.Try, ast.With)):
                        continue
                    for c in ast.walk(st):
                        if isinstance(c, ast.Call) and isinstance(c.func, ast.Attribute) \
                                and isinstance(c.func.value, ast.Name):
                            if c.func.attr == 'pop' and not c.args:
                                pops.setdefault(c.func.value.id, []).append(b)
                            elif c.func.attr == 'append':
                                pushes.setdefault(c.func.value.id, []).append(b)
            stacks = set(pops) & set(pushes)
            for s_ in sorted(stacks):
                for pb in pushes[s_]:
                    n += 1
                    a = assigned(pb) - stacks
                    restored: set[str] = set()
                    for qb in pops[s_]:
                        restored |= assigned(qb)
                    inside = {id(x) for st in pb for x in ast.walk(st)}
                    carried = {y.id for y in ast.walk(w) if isinstance(y, ast.Name)
                               and isinstance(y.ctx, ast.Load) and id(y) not in inside}
                    missing = sorted((a & carried) - restored)
                    res.instances.append(f'{f.key}: stack `{s_}` (while at L{w.lineno}): the push '
                                         f'block re-initialises {sorted(a)}, the pop blocks '
                                         f'restore {sorted(restored)}; not restored: {missing}')
                    if not missing:
                        res.ok()
                    else:
                        res.fail(finding('R02.8', f, pb[0], f'{s_}: {missing[0]} not restored',
                                         f'the descent that pushes on `{s_}` re-initialises '
                                         f'{", ".join(missing)} for the new level, the loop reads '
                                         f'it elsewhere, and no block that pops `{s_}` assigns it '
                                         f'again: after returning from a child the parent level '
                                         f'continues with the child\'s value'))
    counts['explicit_stack_pushes'] = n
    if n < 8:
        raise AnalysisError(f'explicit-stack traversals located: {n} < 8')
    return res


def run(ctx) -> dict:
    global _MODEL
    _MODEL = ctx.model
    counts: dict[str, int] = {}
    results = [r02_1(ctx, counts), r02_2(ctx, counts), r02_3(ctx, counts), r02_4(ctx, counts),
               r02_5(ctx, counts), r02_7(ctx, counts), r02_8(ctx, counts)]
    from .c05_purity import r05_8
    r6 = r05_8(ctx, counts)
    r6.title = 'NO-MEMO-OF-LAZY-SNAPSHOT (R02.6 = R05.9)'
    results.append(r6)
    from .c05_purity import r05_11
    r9 = r05_11(ctx, counts)
    r9.title = ('ATTRIBUTE-MEMO-IGNORES-PARAMETER (R02.9 = R05.11: a document node cached on the '
                'tree is not handed to a context that needs another linkage)')
    results.append(r9)
    return {
        'results': results, 'counts': counts,
        'explanation':
            'Position bookkeeping decided symbolically: the increment each of the three tree '
            'builders applies after an element and the offsets the lazy namespace/attribute '
            'readers assign are normalised to linear forms over N, X, A and must agree '
            '(gap = N + X + A + 1); on the CFG of each builder every two node constructions are '
            'separated by an increment >= 1; set operators sort by node position before '
            'yielding; the traversal generators emit attribute/namespace nodes independently of '
            'the children of an element.',
        'not_decided':
            'One node per XML construct, parent/children consistency and the is/<</>> operators. '
            'String values: only the order clause is decided (a tail comes after the descendants; 2 '
            'known findings pinned by the suite). Observation (not claimed): with a schema, '
            'defaulted attributes all receive position + len(attrib), i.e. the position of the '
            'element\'s first child; schema-typed trees are outside C02\'s quantifier.',
        'assumptions': ['len(x) with x ending in nsmap/namespaces is N, containing attrib is A',
                        'idioms of the lazy readers as enumerated in the rule module'],
    }
