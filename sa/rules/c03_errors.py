"""
C03 — only ElementPathError escapes; parsers stay reusable.

R03.1 CODE-TABLE        every error code literal exists in XPATH_ERROR_CODES and maps to an
                        ElementPathError subclass
R03.2 RAISE-DISCIPLINE  explicit raises in the evaluation layers raise ElementPathError (or are
                        caught and converted by the enclosing try)
R03.3 ASSERT-REACH      no assert guards a value that derives from evaluation results unless a
                        dominating test implies it
R03.4 PARSE-STATE       a failed parse leaves no per-instance parser state behind
"""
from __future__ import annotations

import ast
import re
from typing import Optional

from ..engine.srcmodel import AnalysisError, ClassInfo, FuncInfo, Model, dotted, stmt_text, \
    walk_local
from ..engine.cfg import CFG, Node, calls_may_raise
from ..engine.dataflow import branch_facts, cond_facts
from ..engine.taint import Taint, State
from ..engine.callgraph import CallGraph
from ..engine.report import RuleResult, Finding
from .common import finding, try_context, handler_names, enclosing_map, operand_helper_calls, \
    established_class

CODE = re.compile(r'^(?:err:)?([A-Z]{4}[0-9]{4})$')
FACTORIES = {'error', 'xpath_error', 'wrong_syntax', 'wrong_type', 'wrong_value',
             'missing_context', 'wrong_context_type', 'wrong_sequence_type'}
EVAL_SOURCES = {'select', 'evaluate', 'get_argument', 'atomization', 'get_atomized_operand',
                'get_operands', 'iter_select', 'select_results', 'get_results', 'data_value',
                'number_value', 'string_value', 'select_data_values', 'iter_flatten',
                'select_flatten'}
SCOPE = ('elementpath.tdop', 'elementpath.xpath1', 'elementpath.xpath2', 'elementpath.xpath30',
         'elementpath.xpath31', 'elementpath.xpath_tokens', 'elementpath.xpath_context',
         'elementpath.collations', 'elementpath.compare', 'elementpath.sequence_types',
         'elementpath.serialization', 'elementpath.xpath_selectors')


def in_scope(f: FuncInfo) -> bool:
    return any(f.module.name == s or f.module.name.startswith(s + '.') for s in SCOPE)


# --------------------------------------------------------------------------- R03.1
def r03_1(ctx, counts) -> RuleResult:
    model: Model = ctx.model
    res = RuleResult(
        'R03.1', 'CODE-TABLE',
        'Every string literal of the form AAAA0000 (optionally err:-prefixed) in the package '
        'source, outside the table itself and docstrings, is a key of the XPATH_ERROR_CODES '
        'literal; every class in that table is a subclass of ElementPathError in the class '
        'hierarchy.')
    exm = model.module('elementpath.exceptions')
    table = exm.assigns.get('XPATH_ERROR_CODES')
    if not isinstance(table, ast.Dict):
        raise AnalysisError('XPATH_ERROR_CODES literal not found')
    epe = model.find_class('ElementPathError')
    keys = set()
    for k, v in zip(table.keys, table.values):
        if not isinstance(k, ast.Constant):
            raise AnalysisError('XPATH_ERROR_CODES has a non-literal key')
        keys.add(k.value)
        cls_e = v.elts[0] if isinstance(v, ast.Tuple) else v
        kind, val = model.resolve_expr(exm, cls_e)
        if kind == 'class' and val.is_subclass_of(epe):
            res.ok()
        else:
            res.fail(Finding('R03.1', exm.relpath, '', f'{k.value} class',
                             f'error code {k.value} maps to {stmt_text(cls_e)}, which is not an '
                             f'ElementPathError subclass', k.lineno))
    counts['error_codes_in_table'] = len(keys)
    in_table = {id(n) for n in ast.walk(table)}
    used = 0
    for mod in model.modules.values():
        doc_ids = set()
        for n in ast.walk(mod.tree):
            if isinstance(n, (ast.FunctionDef, ast.ClassDef, ast.Module)) and n.body \
                    and isinstance(n.body[0], ast.Expr) \
                    and isinstance(n.body[0].value, ast.Constant):
                doc_ids.add(id(n.body[0].value))
        for n in ast.walk(mod.tree):
            if isinstance(n, ast.Constant) and isinstance(n.value, str) \
                    and id(n) not in in_table and id(n) not in doc_ids:
                m = CODE.match(n.value)
                if m:
                    used += 1
                    if m.group(1) in keys:
                        res.ok()
                    else:
                        res.fail(Finding('R03.1', mod.relpath, '', f'code {n.value}',
                                         f'error code {n.value!r} is not in XPATH_ERROR_CODES: '
                                         f'xpath_error() raises "unknown XPath error code" '
                                         f'instead of the intended error', n.lineno))
    counts['error_code_literals'] = used
    res.instances.append(f'{len(keys)} codes in the table, {used} code literals in the package')
    return res


# --------------------------------------------------------------------------- R03.2
def r03_2(ctx, counts) -> RuleResult:
    model: Model = ctx.model
    res = RuleResult(
        'R03.2', 'RAISE-DISCIPLINE',
        'Scope: tdop, xpath1/2/30/31, xpath_tokens, xpath_context, collations, compare, '
        'sequence_types, serialization, xpath_selectors. Every `raise` there is (a) an error '
        'factory of the token/exception layer (error, xpath_error, wrong_syntax, wrong_type, '
        'wrong_value, missing_context, …), (b) the construction of an ElementPathError '
        'subclass, (c) a bare re-raise or the re-raise of the caught name inside a handler, or '
        '(d) lexically inside a try whose handler for that class raises (a)/(b). Anything else '
        'is triaged by name in sa/allow.json (definition-time checks, abstract methods, '
        'generic TDOP layer) or reported.')
    epe = model.find_class('ElementPathError')
    tdop_token = model.find_class('Token')
    xtoken = model.find_class('XPathToken')
    cg: CallGraph = ctx.memo('callgraph', lambda: CallGraph(model, ctx.reg))
    dyn, par = ctx.memo('phases', lambda: cg.phases())
    # factories used through `self.` in the generic TDOP layer dispatch to XPathToken overrides
    overridden = {name for name in FACTORIES if name in xtoken.methods}
    res.notes.append(f'TDOP factories overridden by XPathToken: {sorted(overridden)}')

    def converted_lexically(f: FuncInfo, node: ast.AST, cls_name: str, tc=None) -> bool:
        tc = tc if tc is not None else try_context(f.node)
        for tr, part in tc.get(id(node), []):
            if part != 'body':
                continue
            for h in tr.handlers:
                names = [x.split('.')[-1] for x in handler_names(model, f.module, h)]
                if cls_name in names or 'Exception' in names or 'BaseException' in names \
                        or (cls_name in ('KeyError', 'IndexError') and 'LookupError' in names) \
                        or (cls_name == 'NotImplementedError' and 'RuntimeError' in names):
                    return True
        return False

    def converted_by_callers(f: FuncInfo, cls_name: str, depth: int = 0,
                             seen: Optional[set] = None) -> bool:
        """every resolved call site of f (in the analysed phases) converts cls_name."""
        seen = seen if seen is not None else set()
        if f in seen or depth > 3:
            return False
        seen.add(f)
        callers = [c for c in cg.callers.get(f, ()) if c in dyn or c in par]
        if not callers:
            return False
        for c in callers:
            for site in cg.sites.get(c, ()):
                if f not in site.targets:
                    continue
                if converted_lexically(c, site.node, cls_name):
                    continue
                if not converted_by_callers(c, cls_name, depth + 1, seen):
                    return False
        return True

    n = 0
    for f in model.all_functions():
        if not in_scope(f) or not (f in dyn or f in par):
            continue
        tc = try_context(f.node)
        for r in walk_local(f.node):
            if not isinstance(r, ast.Raise):
                continue
            n += 1
            cls_name: Optional[str] = None
            if r.exc is None:
                res.ok()
                continue
            e = r.exc
            if isinstance(e, ast.Name):
                res.ok()
                continue
            if isinstance(e, ast.Call):
                fn = dotted(e.func)
                last = fn.split('.')[-1]
                if last in FACTORIES:
                    in_generic = f.cls is not None and (f.cls is tdop_token
                                                       or f.cls.name in ('Parser',))
                    if in_generic and last != 'error' and last not in overridden:
                        cls_name = f'{last}() of the generic TDOP layer'
                    else:
                        res.ok()
                        continue
                if cls_name is None and isinstance(e.func, (ast.Name, ast.Attribute)):
                    kind, val = model.resolve_expr(f.module, e.func)
                    if kind == 'class':
                        if val.is_subclass_of(epe):
                            res.ok()
                            continue
                        cls_name = val.name
                    else:
                        cls_name = last
            if cls_name is None:
                cls_name = stmt_text(e)[:30]
            # abstract stub: the method body is only the raise
            body = [b for b in f.node.body
                    if not (isinstance(b, ast.Expr) and isinstance(b.value, ast.Constant))]
            if cls_name == 'NotImplementedError' and len(body) == 1 and body[0] is r \
                    and f.cls is not None:
                res.instances.append(f'{f.key}: abstract stub')
                res.ok()
                continue
            conv = converted_lexically(f, r, cls_name, tc)
            how = 'lexically'
            if not conv:
                conv = converted_by_callers(f, cls_name)
                how = 'by every resolved caller'
            res.instances.append(f'{f.key}: raise {cls_name} converted='
                                 f'{how if conv else "NO"}')
            if conv:
                res.ok()
            else:
                res.fail(finding('R03.2', f, r, f'raise {cls_name}',
                                 f'`{stmt_text(r)[:70]}` raises {cls_name}, which is not an '
                                 f'ElementPathError and is converted neither by an enclosing '
                                 f'handler nor by every caller'))
    counts['raise_sites_in_scope'] = n
    return res


# --------------------------------------------------------------------------- R03.3
def class_set(model: Model, mod, e: ast.expr) -> Optional[list]:
    """Resolve the 2nd argument of isinstance to a list of ClassInfo/str, else None."""
    elts = e.elts if isinstance(e, ast.Tuple) else [e]
    out = []
    for x in elts:
        if isinstance(x, (ast.Name, ast.Attribute)):
            kind, val = model.resolve_expr(mod, x)
            if kind == 'class':
                out.append(val)
            elif kind == 'const' and isinstance(val[1], ast.Tuple):
                sub = class_set(model, val[0], val[1])
                if sub is None:
                    return None
                out.extend(sub)
            else:
                out.append(dotted(x))
        else:
            return None
    return out


def _virtual_instance(model: Model, builtin: str, w: ClassInfo) -> bool:
    """A builtin class (int, Decimal, float, str, bool) is a virtual subclass of the ABC `w` when
    a subclass of `w` has a __subclasshook__ that accepts it with issubclass(subclass, ..) — the
    proxies of elementpath.datatypes (read from their bodies on every run)."""
    short = builtin.split('.')[-1]
    if short not in ('int', 'Decimal', 'float', 'str', 'bool'):
        return False
    for c in model.all_classes():
        if c is not w and not c.is_subclass_of(w):
            continue
        hook = c.methods.get('__subclasshook__')
        if hook is None:
            continue
        rets = [x for x in ast.walk(hook.node) if isinstance(x, ast.Return) and x.value is not None]
        if len(rets) != 1:
            continue
        v = rets[0].value
        # issubclass(subclass, B) [and not issubclass(subclass, X)]: positive conjunct names B
        conj = v.values if isinstance(v, ast.BoolOp) and isinstance(v.op, ast.And) else [v]
        pos = [x for x in conj if isinstance(x, ast.Call) and dotted(x.func) == 'issubclass'
               and len(x.args) == 2]
        neg = [x.operand for x in conj if isinstance(x, ast.UnaryOp) and isinstance(x.op, ast.Not)
               and isinstance(x.operand, ast.Call) and dotted(x.operand.func) == 'issubclass']
        if len(pos) + len(neg) != len(conj) or not pos:
            continue

        def names(call: ast.Call) -> set[str]:
            t = call.args[1]
            return {dotted(e).split('.')[-1] for e in (t.elts if isinstance(t, ast.Tuple) else [t])}
        if any(short in names(x) for x in pos) and not any(short in names(x) for x in neg):
            return True
    return False


def implies(model: Model, have: list, want: list) -> bool:
    """every class of `have` is a subclass of some class of `want`."""
    for h in have:
        ok = False
        for w in want:
            if h is w or h == w:
                ok = True
            elif isinstance(h, ClassInfo) and isinstance(w, ClassInfo) and h.is_subclass_of(w):
                ok = True
            elif isinstance(h, ClassInfo) and isinstance(w, str) and h.is_subclass_of(w):
                ok = True
            elif isinstance(h, str) and isinstance(w, ClassInfo) and _virtual_instance(model, h, w):
                ok = True
        if not ok:
            return False
    return bool(have)


def r03_3(ctx, counts) -> RuleResult:
    model: Model = ctx.model
    res = RuleResult(
        'R03.3', 'ASSERT-REACH',
        'All assert statements of the package are enumerated. An assert whose subject derives '
        'from evaluation results (forward taint from select/evaluate/get_argument/atomization/'
        'get_operands/…, context.item, context.variables, the value parameters of the '
        'comparison helpers, and — at parse time — the value of the parser\'s current/next '
        'token, which is lexed from the source text) must be implied by the facts that dominate it in the same function: '
        '`isinstance(x, S)` on the true edge (or its negation leaving by raise/return/continue) '
        'discharges `assert isinstance(x, T)` iff every class of S is a subclass of a class of T '
        '(class lattice of the source model); an XOR of two isinstance tests establishes '
        'membership in the union only. Asserts on other subjects are listed as internal.')
    cg: CallGraph = ctx.memo('callgraph', lambda: CallGraph(model, ctx.reg))
    dyn, par = ctx.memo('phases', lambda: cg.phases())
    total = internal = 0
    for f in model.all_functions():
        asserts = [n for n in walk_local(f.node) if isinstance(n, ast.Assert)]
        if not asserts:
            continue
        cfg = CFG(f.node, calls_may_raise)

        def gen(nd: Node) -> set[str]:
            # x = self.get_argument(…, cls=C, required=True) establishes isinstance(x, C)
            a_ = nd.ast
            if nd.kind == 'stmt' and isinstance(a_, (ast.Assign, ast.AnnAssign)) \
                    and isinstance(a_.value, ast.Call) \
                    and dotted(a_.value.func).endswith('get_argument'):
                tg = a_.targets[0] if isinstance(a_, ast.Assign) else a_.target
                kw = {k.arg: k.value for k in a_.value.keywords}
                if isinstance(tg, ast.Name) and 'cls' in kw \
                        and isinstance(kw.get('required'), ast.Constant) \
                        and kw['required'].value is True:
                    return {f'+isinstance({tg.id}, {stmt_text(kw["cls"])})'}
            return set()
        facts = branch_facts(cfg, gen)
        helper_params: set[str] = set()
        if f in dyn and f.cls is None and f not in cg.bound:
            a = f.node.args
            for p in a.args + a.kwonlyargs:
                if p.annotation is not None and any(
                        t in stmt_text(p.annotation)
                        for t in ('Any', 'ItemType', 'ValueType', 'AtomicType', 'Iterable')):
                    helper_params.add(p.arg)

        def expr_taint(e: ast.AST, st: State, n: Node) -> set[str]:
            if isinstance(e, ast.Call):
                last = dotted(e.func).split('.')[-1]
                if last in EVAL_SOURCES:
                    return {'eval'}
                if last in ('next', 'iter', 'list', 'xlist', 'tuple') and e.args:
                    return T.value_taint(e.args[0], st, n) | T2(e.args[0], st, n)
                return set()
            if isinstance(e, ast.Attribute):
                d = dotted(e)
                if d.endswith('context.item') or d.endswith('.variables'):
                    return {'eval'}
                if d.endswith('next_token.value') or d.endswith('parser.token.value'):
                    return {'eval'}      # value of a token lexed from the source text
                if isinstance(e.value, ast.Name) and 'eval' in st.get(e.value.id, ()):
                    return {'eval'}      # attribute of an evaluation result (node.value, …)
                return set()
            if isinstance(e, ast.Name) and e.id in helper_params:
                return {'eval'}
            if isinstance(e, ast.Subscript):
                out = T.value_taint(e.value, st, n)
                if not isinstance(e.slice, ast.Slice):
                    for x in ast.walk(e.slice):
                        if isinstance(x, (ast.Name, ast.Attribute)):
                            out = out | T.value_taint(x, st, n)
                return out
            return set()

        def T2(e: ast.AST, st: State, n: Node) -> set[str]:
            return iter_taint(e, st, n)

        def iter_taint(e: ast.AST, st: State, n: Node) -> set[str]:
            out = set(expr_taint(e, st, n))
            if isinstance(e, ast.Name):
                out |= {k for k in st.get(e.id, ()) if k == 'eval'}
            if isinstance(e, ast.Call):
                last = dotted(e.func).split('.')[-1]
                if last in ('zip', 'zip_longest', 'enumerate', 'reversed', 'sorted', 'filter',
                            'map', 'chain', 'iter_object'):
                    for a in e.args:
                        out |= iter_taint(a, st, n)
            return out

        T = Taint.__new__(Taint)
        T.cfg = cfg
        T.expr_taint = expr_taint
        T.iter_taint = iter_taint
        T.state_in = {}
        T._run()

        for a in asserts:
            total += 1
            holder = [n for n in cfg.nodes if n.ast is a]
            if not holder:
                raise AnalysisError(f'{f.key}: assert not located in the CFG')
            hn = holder[0]
            st = T.at(hn)
            fs = facts[hn.id]
            test = a.test
            subj: Optional[ast.AST] = None
            want: Optional[list] = None
            kind = 'other'
            if isinstance(test, ast.Call) and dotted(test.func) == 'isinstance' \
                    and len(test.args) == 2:
                subj, kind = test.args[0], 'isinstance'
                want = class_set(model, f.module, test.args[1])
            elif isinstance(test, ast.Compare) and len(test.ops) == 1 \
                    and isinstance(test.ops[0], ast.IsNot) \
                    and isinstance(test.comparators[0], ast.Constant) \
                    and test.comparators[0].value is None:
                subj, kind = test.left, 'not-none'
            elif isinstance(test, ast.BoolOp):
                subj = test
                kind = 'bool'
            else:
                subj = test
            tainted = False
            for x in ast.walk(subj):
                if isinstance(x, (ast.Name, ast.Attribute, ast.Subscript, ast.Call)):
                    if 'eval' in T.value_taint(x, st, hn):
                        tainted = True
            label = f'{f.key}: assert {stmt_text(test)[:60]}'
            if not tainted:
                internal += 1
                res.instances.append(label + ' [internal]')
                res.ok()
                continue
            discharged = False

            def known_classes(name: str) -> list[list]:
                """class sets S with a dominating fact isinstance(name, S)."""
                out = []
                for fact in fs:
                    if fact.startswith(f'+isinstance({name}, '):
                        try:
                            call = ast.parse(fact[1:], mode='eval').body
                        except SyntaxError:
                            continue
                        have = class_set(model, f.module, call.args[1])  # type: ignore[attr-defined]
                        if have is not None:
                            out.append(have)
                # x = self.get_argument(…, cls=C, required=True) establishes isinstance(x, C)
                for nn in walk_local(f.node):
                    if isinstance(nn, (ast.Assign, ast.AnnAssign)) \
                            and isinstance(nn.value, ast.Call) \
                            and dotted(nn.value.func).endswith('get_argument'):
                        tg = nn.targets[0] if isinstance(nn, ast.Assign) else nn.target
                        if isinstance(tg, ast.Name) and tg.id == name:
                            kw = {k.arg: k.value for k in nn.value.keywords}
                            if 'cls' in kw and isinstance(kw.get('required'), ast.Constant) \
                                    and kw['required'].value is True:
                                have = class_set(model, f.module, kw['cls'])
                                others = [x for x in walk_local(f.node)
                                          if isinstance(x, (ast.Assign, ast.AnnAssign, ast.For))
                                          and x is not nn and any(
                                              isinstance(t, ast.Name) and t.id == name
                                              for t in ast.walk(
                                                  x.targets[0] if isinstance(x, ast.Assign)
                                                  else x.target))]
                                if have is not None and not others and \
                                        cfg.dominated_by(hn, lambda q, nn=nn: q.ast is nn):
                                    out.append(have)
                return out

            if kind == 'isinstance' and want is not None:
                sname = stmt_text(subj)
                for have in known_classes(sname):
                    if implies(model, have, want):
                        discharged = True
                # same class as another value: -X.__class__ != Y.__class__
                for fact in fs:
                    for a_, b_ in ((sname, None),):
                        pass
                    m1 = re.match(r'^-(\w+)\.__class__ != (\w+)\.__class__$', fact)
                    m2 = re.match(r'^\+(\w+)\.__class__ == (\w+)\.__class__$', fact)
                    mm = m1 or m2
                    if mm and sname in mm.groups():
                        other = mm.group(1) if mm.group(2) == sname else mm.group(2)
                        for have in known_classes(other):
                            if implies(model, have, want):
                                discharged = True
                    # XOR over one class set S: not (isinstance(a,S) ^ isinstance(b,S))
                    m3 = re.match(r'^-isinstance\((\w+), (.+)\) \^ isinstance\((\w+), (.+)\)$',
                                  fact)
                    if m3 and m3.group(2) == m3.group(4) and sname in (m3.group(1), m3.group(3)):
                        other = m3.group(1) if m3.group(3) == sname else m3.group(3)
                        try:
                            sset = class_set(model, f.module,
                                             ast.parse(m3.group(2), mode='eval').body)
                        except SyntaxError:
                            sset = None
                        if sset is not None and any(implies(model, have, sset)
                                                    for have in known_classes(other)):
                            # both are in S: implied only if S itself implies `want`
                            if implies(model, sset, want):
                                discharged = True
            elif kind == 'not-none':
                sname = stmt_text(subj)
                if f'-{sname} is None' in fs:
                    discharged = True
            if not discharged and kind == 'isinstance' and want is not None \
                    and isinstance(subj, ast.Name):
                # every evaluation-derived definition of the subject is an element V[k] taken
                # under the fact all(isinstance(x, C) for x in V) with C implying the assertion
                defs = [nd2 for nd2 in cfg.nodes if nd2.kind == 'stmt'
                        and isinstance(nd2.ast, ast.Assign) and any(
                            isinstance(t, ast.Name) and t.id == subj.id for t in nd2.ast.targets)]
                tdefs = [nd2 for nd2 in defs
                         if 'eval' in T.value_taint(nd2.ast.value, T.at(nd2), nd2)]

                def element_of_checked_list(nd2) -> bool:
                    v = nd2.ast.value
                    if isinstance(v, ast.IfExp):
                        # the tainted alternative of `f(V) if c else V[0]`
                        alts = [a_ for a_ in (v.body, v.orelse)
                                if 'eval' in T.value_taint(a_, T.at(nd2), nd2)]
                        if len(alts) != 1:
                            return False
                        v = alts[0]
                    if not (isinstance(v, ast.Subscript) and isinstance(v.value, ast.Name)):
                        return False
                    for fact in facts[nd2.id]:
                        m4 = re.match(r'^\+all\(\(?isinstance\((\w+), (.+)\) for (\w+) in (\w+)\)?\)$',
                                      fact)
                        if m4 and m4.group(1) == m4.group(3) and m4.group(4) == v.value.id:
                            try:
                                have = class_set(model, f.module,
                                                 ast.parse(m4.group(2), mode='eval').body)
                            except SyntaxError:
                                have = None
                            if have is not None and implies(model, have, want):
                                return True
                    return False
                if tdefs and all(element_of_checked_list(d_) for d_ in tdefs):
                    discharged = True
            res.instances.append(label + (' [eval-derived, implied]' if discharged
                                          else ' [eval-derived, NOT implied]'))
            res.samples.append({'rule': 'R03.3', 'function': f.key,
                                'assert': stmt_text(test)[:80], 'implied': discharged,
                                'dominating_facts': sorted(fs)[:6]})
            if discharged:
                res.ok()
            else:
                res.fail(finding('R03.3', f, a, f'assert {stmt_text(test)[:50]}',
                                 f'`assert {stmt_text(test)[:70]}` guards a value that comes from '
                                 f'evaluating user expressions and no dominating test implies '
                                 f'it: an ill-typed expression escapes as AssertionError'))
    counts['asserts'] = total
    counts['asserts_internal'] = internal
    return res


# --------------------------------------------------------------------------- R03.4
CURSOR_OK = {'token', 'next_token', 'next_match', 'tokens'}


def r03_4(ctx, counts) -> RuleResult:
    model: Model = ctx.model
    res = RuleResult(
        'R03.4', 'PARSE-STATE',
        '(a) The finally of Parser.parse assigns every slot of Parser.__slots__ other than '
        'source and _start_token. (b) Every assignment to an attribute of the parser instance '
        '(self.parser.X = …, or self.X in a Parser method reachable from parse) in parse-phase '
        'code, where X is not a cursor slot reset by (a), is inside a try whose finally assigns '
        'the same attribute again (restore), or X is a class-level cache documented in the '
        'allow table. (c) Overriding parse methods reach super().parse.')
    parser = model.find_class('Parser')
    parse = parser.methods.get('parse')
    if parse is None:
        raise AnalysisError('Parser.parse vanished')
    slots = model.try_fold(parser.module, parser.attrs.get('__slots__'))   # type: ignore[arg-type]
    if not isinstance(slots, tuple):
        raise AnalysisError('Parser.__slots__ not a literal tuple')
    tries = [n for n in walk_local(parse.node) if isinstance(n, ast.Try) and n.finalbody]
    if not tries:
        res.fail(finding('R03.4', parse, parse.node, 'no finally',
                         'Parser.parse has no try/finally: a failed parse leaves the cursor '
                         'state of the failed expression on the instance'))
        reset: set[str] = set()
    else:
        outer = max(tries, key=lambda t: len(list(ast.walk(t))))
        reset = set()
        for s in outer.finalbody:
            for n in ast.walk(s):
                if isinstance(n, ast.Assign):
                    for t in n.targets:
                        for x in (t.elts if isinstance(t, ast.Tuple) else [t]):
                            if isinstance(x, ast.Attribute) and dotted(x.value) == 'self':
                                reset.add(x.attr)
        # the finally must enclose the tokenisation and the expression() call
        body_calls = {stmt_text(c.func) for s in outer.body for c in ast.walk(s)
                      if isinstance(c, ast.Call)}
        if {'self.advance', 'self.expression'} <= body_calls:
            res.ok()
        else:
            res.fail(finding('R03.4', parse, outer, 'finally scope',
                             'the try/finally of Parser.parse no longer encloses advance() and '
                             'expression()'))
    for s in slots:
        if s in ('source', '_start_token'):
            continue
        res.instances.append(f'Parser slot {s}: reset in finally={s in reset}')
        if s in reset:
            res.ok()
        else:
            res.fail(finding('R03.4', parse, parse.node, f'slot {s} not reset',
                             f'Parser.parse does not reset `{s}` in its finally block: after a '
                             f'failed parse the instance keeps state of the failed expression'))
    counts['parser_slots'] = len(slots)
    # (b) parse-phase writes to parser attributes
    cg: CallGraph = ctx.memo('callgraph', lambda: CallGraph(model, ctx.reg))
    dyn, par = ctx.memo('phases', lambda: cg.phases())
    writes = 0
    parser_classes = [c for c in model.all_classes() if c.is_subclass_of(parser)]
    for f in sorted(par, key=lambda q: q.key):
        is_parser_method = f.cls is not None and f.cls in parser_classes
        if f.name in ('__init__', 'build', 'create_tokenizer') and is_parser_method:
            continue
        if getattr(f.node, '_verif_inlined_cleanup', False):
            continue    # an ExitStack callback: its body is analysed where it was inlined as finally
        tc = try_context(f.node)
        for n in walk_local(f.node):
            tgts: list[ast.AST] = []
            if isinstance(n, ast.Assign):
                for t in n.targets:
                    tgts.extend(t.elts if isinstance(t, ast.Tuple) else [t])
            elif isinstance(n, (ast.AugAssign, ast.AnnAssign)):
                tgts = [n.target]
            elif isinstance(n, ast.For):
                tgts = [n.target]
            for t in tgts:
                if not isinstance(t, ast.Attribute):
                    continue
                recv = dotted(t.value)
                is_parser_recv = recv.endswith('.parser') or recv == 'parser' or \
                    (recv == 'self' and is_parser_method)
                if not is_parser_recv:
                    continue
                writes += 1
                attr = t.attr
                where = f'{f.key}: {recv}.{attr} = …'
                if attr == 'source' and f is parse:
                    res.instances.append(where + ' [source: overwritten by every parse()]')
                    res.ok()
                    continue
                if attr in reset and attr in CURSOR_OK:
                    res.instances.append(where + ' [cursor slot, reset by parse finally]')
                    res.ok()
                    continue
                restored = False
                for tr, part in tc.get(id(n), []):
                    if part in ('body', 'handler', 'orelse') and tr.finalbody:
                        for s in tr.finalbody:
                            for x in ast.walk(s):
                                if isinstance(x, ast.Attribute) and x.attr == attr \
                                        and isinstance(x.ctx, ast.Store):
                                    restored = True
                    if part == 'finalbody':
                        restored = True
                if not restored:
                    # idiom: the write is immediately followed by a try whose finally restores
                    for parent in ast.walk(f.node):
                        for fld in ('body', 'orelse', 'finalbody'):
                            seq = getattr(parent, fld, None)
                            if isinstance(seq, list) and n in seq:
                                i = seq.index(n)
                                if i + 1 < len(seq) and isinstance(seq[i + 1], ast.Try) \
                                        and seq[i + 1].finalbody:
                                    for s2 in seq[i + 1].finalbody:
                                        for x in ast.walk(s2):
                                            if isinstance(x, ast.Attribute) and x.attr == attr \
                                                    and isinstance(x.ctx, ast.Store):
                                                restored = True
                res.instances.append(where + (' [restored in finally]' if restored
                                              else ' [NOT restored]'))
                if restored:
                    res.ok()
                else:
                    res.fail(finding('R03.4', f, n, f'parser.{attr} write',
                                     f'`{stmt_text(n)[:60]}` changes per-instance parser state '
                                     f'in the parse phase and no finally restores it: an error '
                                     f'raised before the matching reset leaves the parser '
                                     f'behaving differently on the next parse() call'))
    counts['parse_phase_parser_writes'] = writes
    # (c) overriding parse methods
    for c in parser_classes:
        if c is parser or 'parse' not in c.methods:
            continue
        m = c.methods['parse']
        sup = any(isinstance(n, ast.Call) and stmt_text(n.func) in ('super().parse',)
                  or (isinstance(n, ast.Call) and stmt_text(n.func).endswith('.parse')
                      and 'super(' in stmt_text(n.func))
                  for n in walk_local(m.node))
        res.instances.append(f'{m.key}: reaches super().parse={sup}')
        if sup:
            res.ok()
        else:
            res.fail(finding('R03.4', m, m.node, 'parse override',
                             f'{c.name}.parse does not call super().parse: the state reset of '
                             f'Parser.parse is bypassed'))
    return res


# --------------------------------------------------------------------------------------------
# R03.5 tokenizer totality
# --------------------------------------------------------------------------------------------
def _whitespace_chars() -> list[str]:
    import sys
    return [chr(c) for c in range(sys.maxunicode + 1) if chr(c).isspace()]


def _skip_language_ok(model: Model, mod, test: ast.expr) -> tuple[bool, str]:
    """does the skip test accept every string of the residue language \\s+ ?
    returns (ok, description); raises AnalysisError for a form that is not modelled."""
    def is_group(e: ast.expr) -> bool:
        return isinstance(e, ast.Call) and isinstance(e.func, ast.Attribute) and \
            e.func.attr == 'group' and not e.args

    if isinstance(test, ast.Call) and isinstance(test.func, ast.Attribute) and \
            test.func.attr == 'isspace' and is_group(test.func.value):
        return True, 'whole match .isspace()'
    if isinstance(test, ast.UnaryOp) and isinstance(test.op, ast.Not) and \
            isinstance(test.operand, ast.Call) and isinstance(test.operand.func, ast.Attribute) \
            and test.operand.func.attr == 'strip' and not test.operand.args \
            and is_group(test.operand.func.value):
        return True, 'not match.strip()'
    if isinstance(test, ast.Compare) and len(test.ops) == 1 and isinstance(test.ops[0], ast.In):
        left, right = test.left, test.comparators[0]
        const = model.try_fold(mod, right)
        if isinstance(left, ast.Subscript) and is_group(left.value) and \
                isinstance(const, (str, tuple, list, set, frozenset)):
            idx = model.try_fold(mod, left.slice)
            if idx == 0:
                missing = [c for c in _whitespace_chars() if c not in const]
                if missing:
                    return False, (f'first character in {const!r}: {len(missing)} whitespace '
                                   f'characters matched by \\s are not accepted, e.g. '
                                   f'{missing[0]!r}')
                return True, 'first character in a constant covering all of \\s'
        if is_group(left) and isinstance(const, (str, tuple, list, set, frozenset)):
            return False, 'whole match in a constant: a finite set cannot cover \\s+'
    raise AnalysisError(f'Parser.advance: whitespace skip test `{stmt_text(test)}` has a form '
                        f'that R03.5 does not model')


def r03_5(ctx, counts) -> RuleResult:
    import re
    import re._parser as sre_parse                      # type: ignore[import-not-found]
    import re._constants as sre_c                       # type: ignore[import-not-found]
    model: Model = ctx.model
    res = RuleResult(
        'R03.5', 'TOKENIZER-TOTALITY',
        'The tokenizer template of Parser.create_tokenizer is an alternation of N capturing '
        'groups plus a non-captured residue; (a) residue = \\s+ and one capturing group is the '
        'single-character catch-all \\S, so every character of the source belongs to some match '
        '(no character is silently dropped); (b) the patterns substituted into the template '
        '(literals_pattern, name_pattern, every token pattern= of the registration DSL) contain '
        'no capturing group and compile, so the group arity is N; (c) Parser.advance unpacks '
        'exactly N groups and its skip test accepts every string of the residue language, so '
        'the bare `raise RuntimeError` fall-through (allow table) is unreachable from input; '
        '(d) every int()/float()/Decimal() conversion of the lexed text in advance() is inside '
        'a try that catches the constructor\'s error (sibling agreement).')
    parser = model.find_class('Parser')
    ct = parser.methods.get('create_tokenizer')
    adv = parser.methods.get('advance')
    if ct is None or adv is None:
        raise AnalysisError('Parser.create_tokenizer / Parser.advance vanished')
    # the template: "<const>".format(...)
    templates = [c for c in walk_local(ct.node) if isinstance(c, ast.Call)
                 and isinstance(c.func, ast.Attribute) and c.func.attr == 'format'
                 and isinstance(c.func.value, ast.Constant) and isinstance(c.func.value.value, str)
                 and '|' in c.func.value.value and c.func.value.value.count('{}') >= 2]
    if len(templates) != 1:
        raise AnalysisError(f'tokenizer template not located ({len(templates)} candidates)')
    tmpl = templates[0].func.value.value                # type: ignore[attr-defined]
    probe = tmpl.replace('{}', 'PLACEHOLDER')
    try:
        tree = sre_parse.parse(probe)
    except re.error as err:
        res.fail(finding('R03.5', ct, templates[0], 'template', f'template does not parse: {err}'))
        return res
    alts = tree.data[0][1][1] if len(tree.data) == 1 and tree.data[0][0] is sre_c.BRANCH \
        else [tree]
    captured, residue, catch_all = 0, [], False
    for alt in alts:
        items = list(alt)
        if len(items) == 1 and items[0][0] is sre_c.SUBPATTERN and items[0][1][0] is not None:
            captured += 1
            inner = list(items[0][1][3])
            if len(inner) == 1 and inner[0][0] is sre_c.IN and \
                    list(inner[0][1]) == [(sre_c.CATEGORY, sre_c.CATEGORY_NOT_SPACE)]:
                catch_all = True
        else:
            residue.append(items)
    res.instances.append(f'template {tmpl!r}: {captured} capturing alternatives, '
                         f'{len(residue)} residue alternative(s), catch-all \\S={catch_all}')
    ok_residue = len(residue) == 1 and len(residue[0]) == 1 and \
        residue[0][0][0] is sre_c.MAX_REPEAT and residue[0][0][1][0] == 1 and \
        residue[0][0][1][1] == sre_c.MAXREPEAT and \
        [tuple(x) for x in residue[0][0][1][2]] == \
        [(sre_c.IN, [(sre_c.CATEGORY, sre_c.CATEGORY_SPACE)])]
    if ok_residue and catch_all:
        res.ok()
    else:
        res.fail(finding('R03.5', ct, templates[0], 'template coverage',
                         f'tokenizer template {tmpl!r}: residue is not exactly \\s+ or no '
                         f'capturing catch-all (\\S) alternative exists: characters outside '
                         f'every alternative are dropped silently by finditer, so malformed '
                         f'input parses as something else'))
    if len(templates[0].args) != tmpl.count('{}'):
        res.fail(finding('R03.5', ct, templates[0], 'template arity',
                         'number of format arguments differs from the placeholders'))
    else:
        res.ok()
    # (b) substituted patterns have no capturing groups
    pats: list[tuple[str, str, object]] = []
    for c in model.all_classes():
        if c.is_subclass_of(parser):
            for attr in ('literals_pattern', 'name_pattern'):
                if attr in c.attrs and c.attrs[attr] is not None:
                    e = c.attrs[attr]
                    if isinstance(e, ast.Call) and stmt_text(e.func) == 're.compile' and e.args:
                        pats.append((f'{c.name}.{attr}', model.try_fold(c.module, e.args[0]), c))
    init = parser.mro()[0].module
    for f in model.all_functions():
        if f.module is parser.module and f.name == '__new__' or f.name == '__init__':
            if f.module is not parser.module:
                continue
            for n in walk_local(f.node):
                if isinstance(n, ast.Assign) and isinstance(n.targets[0], ast.Attribute) and \
                        n.targets[0].attr in ('literals_pattern', 'name_pattern') and \
                        isinstance(n.value, ast.Call) and n.value.args:
                    pats.append((f'ParserMeta default {n.targets[0].attr}',
                                 model.try_fold(f.module, n.value.args[0]), f))
    for rec in ctx.reg.all_records():
        p = rec.get(model, 'pattern')
        if isinstance(p, str):
            pats.append((f'token {rec.symbol!r} pattern', p, rec))
    seen = set()
    by_pat: dict[object, int] = {}
    for _, pat, _ in pats:
        by_pat[pat if isinstance(pat, str) else id(pat)] = \
            by_pat.get(pat if isinstance(pat, str) else id(pat), 0) + 1
    for label, pat, _ in pats:
        if isinstance(pat, str) and pat in {q for _, q in seen}:
            continue
        seen.add((label, pat))
        if isinstance(pat, str) and by_pat[pat] > 1:
            label += f' (+{by_pat[pat] - 1} more with the same pattern)'
        if not isinstance(pat, str):
            raise AnalysisError(f'{label}: pattern not foldable')
        try:
            groups = re.compile(pat).groups
        except re.error as err:
            res.fail(Finding('R03.5', parser.module.relpath, 'Parser.create_tokenizer',
                             f'{label} invalid', f'{label} {pat!r} does not compile: {err}'))
            continue
        res.instances.append(f'{label}: {pat!r} groups={groups}')
        if groups:
            res.fail(Finding('R03.5', parser.module.relpath, 'Parser.create_tokenizer',
                             f'{label} capturing group',
                             f'{label} {pat!r} contains a capturing group: the group arity of '
                             f'the tokenizer changes and advance() reads the wrong groups'))
        else:
            res.ok()
    counts['tokenizer_patterns'] = len(seen)
    if len(seen) < 4:
        raise AnalysisError(f'only {len(seen)} substituted tokenizer patterns located')
    # (c) advance: unpack arity and skip test
    unpack = [n for n in walk_local(adv.node) if isinstance(n, ast.Assign)
              and isinstance(n.targets[0], ast.Tuple) and isinstance(n.value, ast.Call)
              and isinstance(n.value.func, ast.Attribute) and n.value.func.attr == 'groups']
    if len(unpack) != 1:
        raise AnalysisError('Parser.advance: groups() unpacking not located')
    n_unpack = len(unpack[0].targets[0].elts)           # type: ignore[attr-defined]
    res.instances.append(f'advance unpacks {n_unpack} groups; template has {captured}')
    if n_unpack == captured:
        res.ok()
    else:
        res.fail(finding('R03.5', adv, unpack[0], 'unpack arity',
                         f'advance() unpacks {n_unpack} groups but the tokenizer template has '
                         f'{captured} capturing alternatives'))
    # (d) conversions of the lexed text
    group_names = {x.id for x in unpack[0].targets[0].elts if isinstance(x, ast.Name)}  # type: ignore[attr-defined]
    emap = enclosing_map(adv.node)
    NEED = {'int': {'ValueError', 'Exception', 'BaseException'},
            'float': {'ValueError', 'Exception', 'BaseException'},
            'Decimal': {'DecimalException', 'InvalidOperation', 'ArithmeticError', 'Exception',
                        'BaseException'}}
    conv = 0
    # the conversions may have been extracted into private helpers of the parser class that
    # receive a group as argument: follow `self.<helper>(…group…)` one level
    sites: list[tuple[FuncInfo, ast.Call, dict]] = []
    for n in walk_local(adv.node):
        if isinstance(n, ast.Call) and dotted(n.func).split('.')[-1] in NEED and n.args and \
                isinstance(n.args[0], ast.Name) and n.args[0].id in group_names:
            sites.append((adv, n, emap))
        if isinstance(n, ast.Call) and isinstance(n.func, ast.Attribute) and \
                dotted(n.func.value) == 'self' and any(
                    isinstance(a, ast.Name) and a.id in group_names for a in n.args):
            helper = parser.find_method(n.func.attr)
            if helper is None:
                continue
            hp = [q for q in helper.params() if q != 'self']
            received = {hp[i] for i, a in enumerate(n.args)
                        if i < len(hp) and isinstance(a, ast.Name) and a.id in group_names}
            hmap = enclosing_map(helper.node)
            for m_ in walk_local(helper.node):
                if isinstance(m_, ast.Call) and dotted(m_.func).split('.')[-1] in NEED and \
                        m_.args and isinstance(m_.args[0], ast.Name) and m_.args[0].id in received:
                    sites.append((helper, m_, hmap))
    for host, n, emap_ in sites:
        if True:
            conv += 1
            ctor = dotted(n.func).split('.')[-1]
            caught = False
            for enc in emap_[id(n)]:
                if isinstance(enc, ast.Try) and any(any(y is n for y in ast.walk(b))
                                                    for b in enc.body):
                    for h in enc.handlers:
                        if {x.split('.')[-1] for x in handler_names(model, host.module, h)} \
                                & NEED[ctor]:
                            caught = True
            res.instances.append(f'{host.name}: {stmt_text(n)} guarded={caught}')
            if caught:
                res.ok()
            else:
                res.fail(finding('R03.5', host, n, f'unguarded {stmt_text(n)}',
                                 f'`{stmt_text(n)}` converts lexed source text outside a try '
                                 f'that catches {sorted(NEED[ctor])[-1]}: its sibling conversions '
                                 f'are guarded; a literal the constructor rejects (e.g. an '
                                 f'integer longer than the interpreter\'s int/str digit limit) '
                                 f'escapes as a bare ValueError'))
    counts['literal_conversions'] = conv
    if conv < 3:
        raise AnalysisError(f'only {conv} literal conversions located in Parser.advance')
    loops = [n for n in walk_local(adv.node) if isinstance(n, ast.For)
             and stmt_text(n.iter) == 'self.tokens']
    if len(loops) != 1:
        raise AnalysisError('Parser.advance: token loop not located')
    loop = loops[0]
    skip: ast.expr | None = None
    for st in loop.body:
        if isinstance(st, ast.If) and not st.orelse and len(st.body) == 1:
            if isinstance(st.body[0], ast.Break):
                t = st.test
                if isinstance(t, ast.UnaryOp) and isinstance(t.op, ast.Not):
                    skip = t.operand
                else:
                    skip = ast.UnaryOp(op=ast.Not(), operand=t)
                break
            if isinstance(st.body[0], ast.Continue):
                skip = st.test
                break
    if skip is None:
        raise AnalysisError('Parser.advance: whitespace skip test not located in the token loop')
    if isinstance(skip, ast.UnaryOp) and isinstance(skip.op, ast.Not) and \
            isinstance(skip.operand, ast.UnaryOp) and isinstance(skip.operand.op, ast.Not):
        skip = skip.operand.operand
    if isinstance(skip, ast.UnaryOp) and isinstance(skip.op, ast.Not) and \
            isinstance(skip.operand, ast.Compare) and len(skip.operand.ops) == 1 and \
            isinstance(skip.operand.ops[0], ast.NotIn):
        skip = ast.Compare(left=skip.operand.left, ops=[ast.In()],
                           comparators=skip.operand.comparators)
    ok, desc = _skip_language_ok(model, adv.module, skip)
    res.instances.append(f'advance skip test `{stmt_text(skip)}`: {desc}')
    if ok:
        res.ok()
    else:
        res.fail(finding('R03.5', adv, loop, 'skip test',
                         f'the whitespace skip test `{stmt_text(skip)}` does not accept every '
                         f'match of the tokenizer residue \\s+ ({desc}): such a match reaches '
                         f'the bare `raise RuntimeError` of advance()'))
    return res


# --------------------------------------------------------------------------------------------
# R03.6 node-position sort domain
# --------------------------------------------------------------------------------------------
def r03_6(ctx, counts) -> RuleResult:
    model: Model = ctx.model
    res = RuleResult(
        'R03.6', 'NODE-SORT-DOMAIN',
        'Every collection sorted by document position (sorted(S, key=node_position) / '
        'S.sort(key=node_position); node_position = attrgetter("position")) contains XPath '
        'nodes only: S is covered by a dominating quantified guard `any(not isinstance(x, N) '
        'for x in S)` that raises, or every element put into S (add/append/comprehension '
        'element/loop variable) is dominated by isinstance(v, N) with N a subclass of '
        'XPathNode, or comes from an axis iterator annotated as yielding nodes. Otherwise an '
        'atomic item reaches attrgetter and AttributeError escapes.')
    xnode = model.find_class('XPathNode')
    helpers = model.module('elementpath.helpers')
    np_def = helpers.assigns.get('node_position')
    if np_def is None or 'attrgetter' not in stmt_text(np_def):
        raise AnalysisError('helpers.node_position = attrgetter(...) vanished')

    def is_node_class_expr(mod, e: ast.expr) -> bool:
        cs = class_set(model, mod, e)
        return bool(cs) and all(isinstance(c, ClassInfo) and c.is_subclass_of(xnode) for c in cs)

    def ann_all_nodes(mod, ann: ast.expr | None, depth: int = 0) -> bool:
        """annotation Iterator[T]/list[T]/set[T] with T ⊆ XPathNode"""
        if ann is None or depth > 4:
            return False
        if isinstance(ann, ast.Subscript) and dotted(ann.value).split('.')[-1] in (
                'Iterator', 'Iterable', 'list', 'set', 'List', 'Set', 'Generator'):
            sl = ann.slice
            first = sl.elts[0] if isinstance(sl, ast.Tuple) else sl
            return type_all_nodes(mod, first, depth + 1)
        return False

    def type_all_nodes(mod, t: ast.expr, depth: int = 0) -> bool:
        if depth > 5:
            return False
        if isinstance(t, ast.Constant) and isinstance(t.value, str):
            cl = model.find_classes(t.value)
            return bool(cl) and all(c.is_subclass_of(xnode) for c in cl)
        if isinstance(t, ast.Subscript) and dotted(t.value).split('.')[-1] == 'Union':
            sl = t.slice
            elts = sl.elts if isinstance(sl, ast.Tuple) else [sl]
            return all(type_all_nodes(mod, x, depth + 1) for x in elts)
        if isinstance(t, ast.BinOp) and isinstance(t.op, ast.BitOr):
            return type_all_nodes(mod, t.left, depth + 1) and \
                type_all_nodes(mod, t.right, depth + 1)
        if isinstance(t, (ast.Name, ast.Attribute)):
            kind, val = model.resolve_expr(mod, t)
            if kind == 'class':
                return val.is_subclass_of(xnode)
            if kind == 'const':
                return type_all_nodes(val[0], val[1], depth + 1)
        return False

    sites = 0
    for f in model.all_functions():
        calls = []
        for n in walk_local(f.node):
            if isinstance(n, ast.Call):
                kw = {k.arg: k.value for k in n.keywords}
                if 'key' in kw and stmt_text(kw['key']).split('.')[-1] == 'node_position':
                    if dotted(n.func) == 'sorted' and n.args:
                        calls.append((n, n.args[0]))
                    elif isinstance(n.func, ast.Attribute) and n.func.attr == 'sort':
                        calls.append((n, n.func.value))
        if not calls:
            continue
        cfg = CFG(f.node, calls_may_raise)
        facts = branch_facts(cfg)
        mod = f.module

        def node_of(a: ast.AST) -> Node:
            # innermost CFG node whose ast contains `a`
            best = None
            for nd in cfg.nodes:
                if nd.ast is None:
                    continue
                root = nd.ast
                if isinstance(root, (ast.If, ast.While)):
                    root = root.test
                elif isinstance(root, ast.For):
                    root = root.iter
                for x in ast.walk(root):
                    if x is a:
                        if best is None or (best.ast is not None and
                                            len(list(ast.walk(root))) <
                                            len(list(ast.walk(best.ast)))):
                            best = nd
                        break
            if best is None:
                raise AnalysisError(f'{f.key}: expression not located in the CFG')
            return best

        def guard_for(name: str, at: Node) -> bool:
            want = re.compile(rf'^-any\(\(?not isinstance\((\w+), (.+?)\) for \1 in {re.escape(name)}\)?\)$')
            for fact in facts[at.id]:
                m = want.match(fact)
                if m:
                    try:
                        ce = ast.parse(m.group(2), mode='eval').body
                    except SyntaxError:
                        continue
                    if is_node_class_expr(mod, ce):
                        return True
            return False

        def val_nodes(v: ast.expr, at: Node, comp_env: dict[str, bool], seen: set) -> bool:
            if isinstance(v, ast.Name):
                if v.id in comp_env:
                    return comp_env[v.id]
                for fact in facts[at.id]:
                    m = re.match(rf'^\+isinstance\({re.escape(v.id)}, (.+)\)$', fact)
                    if m:
                        try:
                            ce = ast.parse(m.group(1), mode='eval').body
                        except SyntaxError:
                            continue
                        if is_node_class_expr(mod, ce):
                            return True
                # loop variable of an enclosing for over an all-nodes collection
                for loop in walk_local(f.node):
                    if isinstance(loop, ast.For) and isinstance(loop.target, ast.Name) \
                            and loop.target.id == v.id \
                            and any(x is v for b in loop.body for x in ast.walk(b)):
                        return coll_nodes(loop.iter, node_of(loop.iter), comp_env, seen)
            return False

        def coll_nodes(e: ast.expr, at: Node, comp_env: dict[str, bool], seen: set) -> bool:
            if isinstance(e, ast.Call):
                fn = dotted(e.func)
                if fn in ('set', 'list', 'sorted', 'tuple', 'reversed', 'frozenset', 'iter') \
                        and e.args:
                    return coll_nodes(e.args[0], at, comp_env, seen)
                if fn in ('cast', 'typing.cast') and len(e.args) == 2:
                    return coll_nodes(e.args[1], at, comp_env, seen)
                if fn in ('set', 'list', 'dict') and not e.args:
                    return True
                if isinstance(e.func, ast.Name):
                    # a local helper (nested or module-level) annotated as returning nodes only
                    for g in mod.functions.values():
                        if g.name == fn and (g.parent is f or (g.parent is None and g.cls is None)):
                            return ann_all_nodes(g.module, g.node.returns)
                if isinstance(e.func, ast.Attribute):
                    recv = dotted(e.func.value).split('.')[-1]
                    if recv == 'context':
                        for c in model.find_classes('XPathContext'):
                            m = c.find_method(e.func.attr)
                            if m is not None:
                                return ann_all_nodes(m.module, m.node.returns)
                return False
            if isinstance(e, ast.BinOp):
                if isinstance(e.op, ast.Sub):
                    return coll_nodes(e.left, at, comp_env, seen)
                if isinstance(e.op, ast.BitAnd):
                    return coll_nodes(e.left, at, comp_env, seen) or \
                        coll_nodes(e.right, at, comp_env, seen)
                if isinstance(e.op, (ast.BitOr, ast.Add)):
                    return coll_nodes(e.left, at, comp_env, seen) and \
                        coll_nodes(e.right, at, comp_env, seen)
                return False
            if isinstance(e, (ast.SetComp, ast.ListComp, ast.GeneratorExp)):
                env = dict(comp_env)
                for g in e.generators:
                    ok = coll_nodes(g.iter, at, env, seen)
                    for cond in g.ifs:
                        for fact in cond_facts(cond, True):
                            m = re.match(r'^\+isinstance\((\w+), (.+)\)$', fact)
                            if m and isinstance(g.target, ast.Name) and m.group(1) == g.target.id:
                                try:
                                    if is_node_class_expr(
                                            mod, ast.parse(m.group(2), mode='eval').body):
                                        ok = True
                                except SyntaxError:
                                    pass
                    if isinstance(g.target, ast.Name):
                        env[g.target.id] = ok
                return val_nodes(e.elt, at, env, seen)
            if isinstance(e, (ast.Set, ast.List, ast.Tuple)):
                return all(val_nodes(x, at, comp_env, seen) for x in e.elts)
            if isinstance(e, ast.Dict):
                return all(k is not None and val_nodes(k, at, comp_env, seen) for k in e.keys)
            if isinstance(e, ast.Name):
                if e.id in seen:
                    return True          # recursion through S = set(S): decided by other defs
                if guard_for(e.id, at):
                    return True
                seen = seen | {e.id}
                # a guard anywhere in the function that every (re)definition either precedes
                # or preserves
                guards = [nd for nd in cfg.nodes if any(
                    re.match(rf'^-any\(\(?not isinstance\(\w+, .+?\) for \w+ in {re.escape(e.id)}\)?\)$', fa)
                    for fa in facts[nd.id])]
                defs: list[tuple[ast.expr | None, ast.AST, str]] = []
                for n in walk_local(f.node):
                    if isinstance(n, (ast.Assign, ast.AnnAssign)):
                        tgts = n.targets if isinstance(n, ast.Assign) else [n.target]
                        for t in tgts:
                            if isinstance(t, ast.Name) and t.id == e.id and n.value is not None:
                                defs.append((n.value, n, 'assign'))
                            elif isinstance(t, ast.Tuple) and isinstance(n.value, ast.Tuple) \
                                    and len(t.elts) == len(n.value.elts):
                                for tt, vv in zip(t.elts, n.value.elts):
                                    if isinstance(tt, ast.Name) and tt.id == e.id:
                                        defs.append((vv, n, 'assign'))
                            elif isinstance(t, ast.Tuple) and any(
                                    isinstance(tt, ast.Name) and tt.id == e.id for tt in t.elts):
                                defs.append((None, n, 'assign'))
                    elif isinstance(n, ast.Call) and isinstance(n.func, ast.Attribute) \
                            and dotted(n.func.value) == e.id:
                        if n.func.attr in ('add', 'append') and n.args:
                            defs.append((n.args[0], n, 'elem'))
                        elif n.func.attr == 'insert' and len(n.args) == 2:
                            defs.append((n.args[1], n, 'elem'))
                        elif n.func.attr in ('update', 'extend') and n.args:
                            defs.append((n.args[0], n, 'coll'))
                    elif isinstance(n, ast.AugAssign) and isinstance(n.target, ast.Name) \
                            and n.target.id == e.id:
                        defs.append((n.value, n, 'coll'))
                    if isinstance(n, ast.Assign):
                        for t in n.targets:
                            if isinstance(t, ast.Subscript) and dotted(t.value) == e.id and \
                                    not isinstance(t.slice, ast.Slice):
                                defs.append((t.slice, n, 'elem'))    # dict key / item store
                if not defs:
                    return False
                for val, stmt, kind in defs:
                    if val is None:
                        return False
                    dn = node_of(stmt)
                    if kind == 'elem':
                        if not val_nodes(val, dn, comp_env, seen):
                            return False
                    else:
                        if coll_nodes(val, dn, comp_env, seen):
                            continue
                        # a definition that is followed by a guard on every path to the sort
                        if guards and cfg.dominated_by(
                                at, lambda q: q in guards) and all(
                                cfg.dominated_by(g, lambda q, dn=dn: q is dn) for g in guards):
                            continue
                        return False
                return True
            return False

        for call, coll in calls:
            sites += 1
            at = node_of(call)
            ok = coll_nodes(coll, at, {}, set())
            res.instances.append(f'{f.key}: sorted({stmt_text(coll)[:40]}, key=node_position) '
                                 f'elements are nodes: {ok}')
            if ok:
                res.ok()
            else:
                res.fail(finding('R03.6', f, call, f'sort {stmt_text(coll)[:40]}',
                                 f'`{stmt_text(call)[:70]}`: not every element of '
                                 f'`{stmt_text(coll)[:40]}` is established to be an XPath node '
                                 f'(no dominating all-nodes guard, and some add/definition is '
                                 f'not under isinstance(…, XPathNode)): an atomic item makes '
                                 f'attrgetter("position") raise AttributeError'))
    counts['node_sort_sites'] = sites
    if sites < 3:
        raise AnalysisError(f'only {sites} node_position sort sites located')
    return res


# --------------------------------------------------------------------------------------------
# R03.7 division family: zero / undefined division of decimals
# --------------------------------------------------------------------------------------------
# builtin/decimal exception lattice needed for handler coverage
EXC_SUPERS = {
    'ZeroDivisionError': {'ZeroDivisionError', 'ArithmeticError', 'Exception', 'BaseException'},
    'InvalidOperation': {'InvalidOperation', 'DecimalException', 'ArithmeticError', 'Exception',
                         'BaseException'},
}


def r03_7(ctx, counts) -> RuleResult:
    model: Model = ctx.model
    res = RuleResult(
        'R03.7', 'DIVISION-HANDLERS',
        'In the evaluate methods bound to the division-family operators (div, idiv, mod) every '
        '/, // or % whose right operand is an evaluated operand either is dominated by a test '
        'that the divisor is non-zero, or sits in a try whose handlers cover both '
        'ZeroDivisionError (int/float, and decimal.DivisionByZero which derives from it) and '
        'decimal.InvalidOperation (0 // 0, 0 / 0 and x % 0 on decimals raise it, not '
        'DivisionByZero). The three operators are siblings and must agree.')
    reg = ctx.reg
    funcs: dict[FuncInfo, set[str]] = {}
    for rec in reg.all_records():
        if rec.symbol in ('div', 'idiv', 'mod'):
            ref = rec.method('evaluate')
            if ref is not None and ref.func is not None and ref.origin != 'class':
                funcs.setdefault(ref.func, set()).add(rec.symbol)
    if len(funcs) < 3:
        raise AnalysisError(f'division-family evaluate methods located: {len(funcs)} < 3')
    n_ops = 0
    for f, syms in sorted(funcs.items(), key=lambda kv: kv[0].key):
        cfg = CFG(f.node, calls_may_raise)
        facts = branch_facts(cfg)
        emap = enclosing_map(f.node)
        operands: set[str] = set()
        for n in walk_local(f.node):
            if isinstance(n, ast.Assign) and isinstance(n.value, ast.Call) and \
                    dotted(n.value.func).split('.')[-1] in EVAL_SOURCES:
                for t in n.targets:
                    for x in (t.elts if isinstance(t, ast.Tuple) else [t]):
                        if isinstance(x, ast.Name):
                            operands.add(x.id)
        sites: list[tuple[ast.AST, set[str], str]] = []
        for n in walk_local(f.node):
            if not (isinstance(n, ast.BinOp) and isinstance(n.op, (ast.Div, ast.FloorDiv, ast.Mod))):
                continue
            rnames = {x.id for x in ast.walk(n.right) if isinstance(x, ast.Name)}
            if rnames & operands:
                sites.append((n, rnames & operands, ''))
        # one level of helper extraction: helper(op1, op2) whose body divides by the parameter
        # bound to an operand is a division site at the call
        for call, h, binding in operand_helper_calls(model, f, operands):
            divs = set()
            for x in walk_local(h.node):
                if isinstance(x, ast.BinOp) and isinstance(x.op, (ast.Div, ast.FloorDiv, ast.Mod)):
                    divs |= {binding[y.id] for y in ast.walk(x.right)
                             if isinstance(y, ast.Name) and y.id in binding}
            if divs:
                sites.append((call, divs, f' (divides inside {h.key})'))
        for n, divnames, via in sites:
            n_ops += 1
            holder = None
            for nd in cfg.nodes:
                if nd.ast is not None and nd.kind in ('stmt', 'test') and any(
                        x is n for x in ast.walk(nd.ast.test if isinstance(nd.ast, (ast.If, ast.While))
                                                 else nd.ast)):
                    holder = nd
                    break
            if holder is None:
                raise AnalysisError(f'{f.key}: division not located in the CFG')
            div = sorted(divnames)[0]
            nonzero = f'-{div} == 0' in facts[holder.id] or f'+{div}' in facts[holder.id]
            covered: set[str] = set()
            for enc in emap[id(n)]:
                if isinstance(enc, ast.Try) and any(
                        any(y is n for y in ast.walk(b)) for b in enc.body):
                    for hd in enc.handlers:
                        for nm in handler_names(model, f.module, hd):
                            base = nm.split('.')[-1]
                            for need, sup in EXC_SUPERS.items():
                                if base in sup:
                                    covered.add(need)
            ok = nonzero or covered >= set(EXC_SUPERS)
            res.instances.append(f'{f.key} [{"/".join(sorted(syms))}]: `{stmt_text(n)[:40]}`{via} '
                                 f'divisor-nonzero={nonzero} handlers cover={sorted(covered)}')
            if ok:
                res.ok()
            else:
                missing = sorted(set(EXC_SUPERS) - covered)
                res.fail(finding('R03.7', f, n, f'{stmt_text(n)[:30]} misses {"+".join(missing)}',
                                 f'`{stmt_text(n)[:50]}`{via} in the {"/".join(sorted(syms))} operator '
                                 f'is not dominated by a divisor != 0 test and no enclosing '
                                 f'handler catches {", ".join(missing)}: a zero decimal divisor '
                                 f'escapes as a bare decimal/arithmetic error'))
    # decimal.InvalidOperation has two causes: a zero divisor (x % 0, 0 // 0) and a quotient
    # with more digits than the context precision (10**41 % Decimal('1.5')). A handler that
    # covers it may answer "division by zero" only where the divisor is known to be zero.
    def ops_may_raise(n: ast.AST) -> bool:
        # arithmetic operators raise too (the try bodies here are a single `a // b`)
        return calls_may_raise(n) or any(isinstance(x, ast.BinOp) for x in ast.walk(n))
    for f, syms in sorted(funcs.items(), key=lambda kv: kv[0].key):
        cfg = CFG(f.node, ops_may_raise)
        facts = branch_facts(cfg)
        for h in [x for x in ast.walk(f.node) if isinstance(x, ast.ExceptHandler)]:
            names = {nm.split('.')[-1] for nm in handler_names(model, f.module, h)}
            if not names & {'InvalidOperation', 'DecimalException', 'ArithmeticError',
                            'Exception'}:
                continue
            for r in [x for st in h.body for x in ast.walk(st) if isinstance(x, ast.Raise)]:
                if r.exc is None or 'FOAR0001' not in stmt_text(r.exc):
                    continue
                conditional = any(isinstance(x, ast.IfExp) and '== 0' in stmt_text(x.test)
                                  for x in ast.walk(r.exc))
                holder = next((nd for nd in cfg.nodes if nd.ast is r), None)
                if holder is not None and any(fa.startswith('+') and fa.endswith(' == 0')
                                              for fa in facts[holder.id]):
                    conditional = True
                # a merged handler that discriminates on the exception object: the raise sits
                # under isinstance(err, <classes that exclude InvalidOperation>)
                if holder is not None and h.name and any(
                        fa.startswith(f'+isinstance({h.name}, ') and not any(
                            k in fa for k in ('InvalidOperation', 'DecimalException',
                                              'ArithmeticError', 'Exception'))
                        for fa in facts[holder.id]):
                    conditional = True
                res.instances.append(f'{f.key} [{"/".join(sorted(syms))}]: handler of '
                                     f'{sorted(names)} raises FOAR0001 only for a zero divisor='
                                     f'{conditional}')
                if conditional:
                    res.ok()
                else:
                    res.fail(finding('R03.7', f, r, 'FOAR0001 for every InvalidOperation',
                                     f'the handler of {sorted(names)} in the '
                                     f'{"/".join(sorted(syms))} operator answers FOAR0001 '
                                     f'(division by zero) for every decimal.InvalidOperation: '
                                     f'10**41 mod 1.5 has a non-zero divisor (the sibling idiv '
                                     f'tests `op2 == 0`)'))
    counts['division_ops'] = n_ops
    if n_ops < 3:
        raise AnalysisError(f'only {n_ops} division operations located in div/idiv/mod')
    return res


# --------------------------------------------------------------------------------------------
# R03.8 URL parsing of evaluated strings
# --------------------------------------------------------------------------------------------
URL_SINKS = {'urlsplit', 'urlparse', 'urljoin'}


def r03_8(ctx, counts) -> RuleResult:
    model: Model = ctx.model
    res = RuleResult(
        'R03.8', 'URL-PARSE-GUARD',
        'urllib.parse.urlsplit/urlparse/urljoin raise ValueError on a malformed authority '
        '("http://[x"). Every call of them on a non-constant argument, in any function of the '
        'package, is (a) inside a try with a handler for ValueError, or (b) dominated by an '
        'earlier guarded call of the same family on the same argument (already validated), or '
        '(c) in a helper every resolved call site of which is inside such a try. Sites outside '
        'parse/evaluation (parser construction) are named in the allow table.')
    cg: CallGraph = ctx.memo('callgraph', lambda: CallGraph(model, ctx.reg))

    def is_sink(mod, call: ast.Call) -> str | None:
        d = dotted(call.func)
        last = d.split('.')[-1]
        if last not in URL_SINKS:
            return None
        if d.startswith('urllib.parse.'):
            return last
        kind, val = model.resolve(mod, d) if '.' not in d else ('', None)
        if kind == 'external' and str(val).startswith('urllib.parse'):
            return last
        return None

    def guarded(model_, f: FuncInfo, emap, n: ast.AST) -> bool:
        for enc in emap[id(n)]:
            if isinstance(enc, ast.Try) and any(any(y is n for y in ast.walk(b))
                                                for b in enc.body):
                for h in enc.handlers:
                    if {x.split('.')[-1] for x in handler_names(model_, f.module, h)} & \
                            {'ValueError', 'Exception', 'BaseException'}:
                        return True
        return False

    sites = 0
    for f in sorted(model.all_functions(), key=lambda q: q.key):
        calls = [n for n in walk_local(f.node) if isinstance(n, ast.Call)
                 and is_sink(f.module, n)]
        if not calls:
            continue
        emap = enclosing_map(f.node)
        cfg = None
        for n in calls:
            if all(isinstance(a, ast.Constant) for a in n.args):
                continue
            sites += 1
            how = ''
            if guarded(model, f, emap, n):
                how = 'try/except ValueError'
            if not how:
                # (b) validated earlier: from every (non-falsy) definition of each argument
                # name, no path reaches this call without passing a guarded sink call on the
                # same name whose ValueError handlers all leave the function.
                if cfg is None:
                    cfg = CFG(f.node, calls_may_raise)
                    cfacts = branch_facts(cfg)

                def holder(x: ast.AST):
                    for nd in cfg.nodes:
                        if nd.ast is None or nd.kind not in ('stmt', 'test', 'for', 'with'):
                            continue
                        root = nd.ast.test if isinstance(nd.ast, (ast.If, ast.While)) else \
                            nd.ast.iter if isinstance(nd.ast, ast.For) else nd.ast
                        if any(y is x for y in ast.walk(root)):
                            return nd
                    return None

                def terminal_handlers(call: ast.Call) -> bool:
                    for enc in emap[id(call)]:
                        if isinstance(enc, ast.Try) and any(any(y is call for y in ast.walk(b))
                                                            for b in enc.body):
                            for h in enc.handlers:
                                if {x.split('.')[-1] for x in
                                        handler_names(model, f.module, h)} & \
                                        {'ValueError', 'Exception', 'BaseException'}:
                                    if not isinstance(h.body[-1], (ast.Raise, ast.Return)):
                                        return False
                    return True

                here = holder(n)
                names = sorted({a.id for a in n.args if isinstance(a, ast.Name)})
                only_names = all(isinstance(a, (ast.Name, ast.Constant)) for a in n.args)
                ok_all = bool(names) and only_names and here is not None
                for nm in names if ok_all else ():
                    validators = [holder(o) for o in calls if o is not n
                                  and guarded(model, f, emap, o) and terminal_handlers(o)
                                  and any(isinstance(a, ast.Name) and a.id == nm for a in o.args)]
                    validators = [v for v in validators if v is not None]
                    if not validators:
                        ok_all = False
                        break
                    truthy = f'+{nm}' in cfacts[here.id] or any(
                        isinstance(b, ast.BoolOp) and isinstance(b.op, ast.And)
                        and isinstance(b.values[0], ast.Name) and b.values[0].id == nm
                        and any(y is n for v in b.values[1:] for y in ast.walk(v))
                        for b in ast.walk(here.ast))
                    defs = []
                    for x in walk_local(f.node):
                        if isinstance(x, (ast.Assign, ast.AnnAssign, ast.AugAssign)):
                            tg = x.targets[0] if isinstance(x, ast.Assign) else x.target
                            if any(isinstance(t, ast.Name) and t.id == nm
                                   for t in ast.walk(tg)):
                                defs.append(x)
                        elif isinstance(x, (ast.For, ast.With)):
                            pass
                    starts = []
                    if nm in f.params() or not defs:
                        starts.append(cfg.entry)
                    for d in defs:
                        v = getattr(d, 'value', None)
                        if truthy and isinstance(v, ast.Constant) and not v.value:
                            continue
                        hd = holder(d)
                        if hd is None:
                            ok_all = False
                            break
                        starts.append(hd)
                    if not ok_all:
                        break
                    if cfg.path_avoiding(starts, lambda q: q is here,
                                         lambda q: q in validators) is not None:
                        ok_all = False
                        break
                if ok_all:
                    how = 'every argument validated by a guarded call on all paths'
            if not how:
                csites = [cs for g in cg.callers.get(f, ()) for cs in cg.sites.get(g, ())
                          if f in cs.targets]
                if csites and all(
                        guarded(model, cs.caller, enclosing_map(cs.caller.node), cs.node)
                        for cs in csites):
                    how = f'all {len(csites)} resolved call sites guarded'
            res.instances.append(f'{f.key}: {stmt_text(n)[:50]} -> {how or "UNGUARDED"}')
            if how:
                res.ok()
            else:
                res.fail(finding('R03.8', f, n, f'{stmt_text(n)[:50]}',
                                 f'`{stmt_text(n)[:60]}` parses a URL taken from the expression, '
                                 f'the document or the context outside any handler for '
                                 f'ValueError: a malformed authority such as "http://[x" '
                                 f'escapes as a bare ValueError'))
    counts['url_parse_sites'] = sites
    if sites < 10:
        raise AnalysisError(f'only {sites} URL parse sites located')
    return res


# --------------------------------------------------------------------------------------------
# R03.9 numeric overflow in the math:* functions and the division family
# --------------------------------------------------------------------------------------------
OVERFLOW_CATCH = {'OverflowError', 'ArithmeticError', 'Exception', 'BaseException'}
BIGINT_SAFE_MATH = {'log', 'log10', 'log2', 'copysign'}        # accept ints of any size


def r03_9(ctx, counts) -> RuleResult:
    model: Model = ctx.model
    res = RuleResult(
        'R03.9', 'OVERFLOW-GUARD',
        'In the evaluate methods of the math:* functions, of div/idiv/mod and of the range '
        'operator `to` (list(range(a, b)) needs a length that fits a C ssize_t), every operation '
        'on an evaluated operand that converts to a C double or can exceed its range — '
        'math.f(x) other than log/log10 (which take big ints), float(x), x ** y, and /, //, % — '
        'is inside a try with a handler for OverflowError (or ArithmeticError), or its operand '
        'is bounded on both sides by dominating comparisons with constants. xs:integer is '
        'unbounded here, so `math.sin(10**400)` or `1 mod 10**400` otherwise escape as a bare '
        'OverflowError.')
    reg = ctx.reg
    funcs: dict[FuncInfo, str] = {}
    for rec in reg.all_records():
        ns = rec.get(model, 'namespace')
        fam = None
        if isinstance(ns, str) and ns.endswith('/xpath-functions/math'):
            fam = f'math:{rec.symbol}'
        elif rec.symbol in ('div', 'idiv', 'mod', 'to'):
            fam = rec.symbol
        if fam:
            ref = rec.method('evaluate')
            if ref is not None and ref.func is not None and ref.origin != 'class':
                funcs.setdefault(ref.func, fam)
    if len(funcs) < 12:
        raise AnalysisError(f'math/division family functions located: {len(funcs)} < 12')
    n_ops = 0
    for f, fam in sorted(funcs.items(), key=lambda kv: kv[0].key):
        cfg = CFG(f.node, calls_may_raise)
        facts = branch_facts(cfg)
        emap = enclosing_map(f.node)
        operands: set[str] = set()
        for n in walk_local(f.node):
            if isinstance(n, (ast.Assign, ast.AnnAssign)) and isinstance(n.value, ast.Call) and \
                    dotted(n.value.func).split('.')[-1] in EVAL_SOURCES:
                tgts = n.targets if isinstance(n, ast.Assign) else [n.target]
                for t in tgts:
                    for x in (t.elts if isinstance(t, ast.Tuple) else [t]):
                        if isinstance(x, ast.Name):
                            operands.add(x.id)

        def mentions(e: ast.AST) -> set[str]:
            return {x.id for x in ast.walk(e) if isinstance(x, ast.Name)} & operands

        ops: list[tuple[ast.AST, str, set[str]]] = []
        for n in walk_local(f.node):
            if isinstance(n, ast.Call):
                d = dotted(n.func)
                if d.startswith('math.') and d.split('.')[-1] not in BIGINT_SAFE_MATH:
                    m = set().union(*[mentions(a) for a in n.args]) if n.args else set()
                    if m:
                        ops.append((n, d, m))
                elif d == 'float' and n.args and mentions(n.args[0]) and \
                        not isinstance(n.args[0], ast.Constant):
                    ops.append((n, 'float()', mentions(n.args[0])))
                elif d == 'int' and len(n.args) == 1 and fam in ('div', 'idiv', 'mod') and any(
                        isinstance(st, ast.Assign) and isinstance(st.value, ast.BinOp)
                        and isinstance(st.value.op, (ast.Div, ast.FloorDiv, ast.Mod))
                        and mentions(st.value)
                        and any(isinstance(t, ast.Name) and isinstance(n.args[0], ast.Name)
                                and t.id == n.args[0].id for t in st.targets)
                        for st in walk_local(f.node)):
                    # int(q) where q = a // b: an infinite or NaN float quotient cannot be
                    # converted (OverflowError / ValueError)
                    ops.append((n, 'int() of a quotient', {n.args[0].id}))
                elif d.split('.')[-1] in ('list', 'xlist', 'tuple', 'len') and n.args and \
                        isinstance(n.args[0], ast.Call) and dotted(n.args[0].func) == 'range' \
                        and mentions(n.args[0]):
                    # a range over unbounded xs:integer operands materialised as a sequence:
                    # its length must fit a C ssize_t
                    ops.append((n, 'materialised range', mentions(n.args[0])))
            elif isinstance(n, ast.BinOp) and isinstance(
                    n.op, (ast.Pow, ast.Div, ast.FloorDiv, ast.Mod)) and mentions(n) and not (
                    not isinstance(n.op, ast.Pow) and isinstance(n.right, ast.Constant)
                    and isinstance(n.right.value, int)):
                # (x % 2, x // 2 with an int constant never convert x to a double)
                # a float()/math call wrapping it is reported once, on the inner operation
                ops.append((n, type(n.op).__name__, mentions(n)))
        seen_inner: set[int] = set()
        for n, what, names in ops:
            if isinstance(n, ast.Call) and n.args and any(
                    o is not n and any(y is o for y in ast.walk(n.args[0])) for o, _, _ in ops):
                continue        # wrapper of an inner operation which carries the obligation
            # `isinstance(x, float) and math.f(x)`: a float argument is already a double
            guarded_float = False
            for bo in [b for b in walk_local(f.node) if isinstance(b, ast.BoolOp)
                       and isinstance(b.op, ast.And)]:
                for i, v in enumerate(bo.values):
                    if any(y is n for y in ast.walk(v)):
                        for prev in bo.values[:i]:
                            if isinstance(prev, ast.Call) and dotted(prev.func) == 'isinstance' \
                                    and len(prev.args) == 2 and stmt_text(prev.args[1]) == 'float' \
                                    and isinstance(prev.args[0], ast.Name) \
                                    and names == {prev.args[0].id}:
                                guarded_float = True
            if guarded_float:
                continue
            # float(<Decimal>) never raises (it saturates to inf): a conversion inside
            # `if isinstance(x, Decimal):` is not an overflow site
            if what == 'float()' and len(names) == 1 and \
                    established_class(f.node, n, next(iter(names)), 'Decimal'):
                continue
            n_ops += 1
            caught = False
            for enc in emap[id(n)]:
                if isinstance(enc, ast.Try) and any(any(y is n for y in ast.walk(b))
                                                    for b in enc.body):
                    for h in enc.handlers:
                        if {x.split('.')[-1] for x in handler_names(model, f.module, h)} \
                                & OVERFLOW_CATCH:
                            caught = True
            bounded = False
            if not caught:
                holder = None
                for nd in cfg.nodes:
                    if nd.ast is not None and nd.kind in ('stmt', 'test') and any(
                            x is n for x in ast.walk(
                                nd.ast.test if isinstance(nd.ast, (ast.If, ast.While))
                                else nd.ast)):
                        holder = nd
                        break
                if holder is not None:
                    bounded = True
                    for nm in names:
                        lo = hi = False
                        for fact in facts[holder.id]:
                            m = re.match(rf'^-{re.escape(nm)} (<|<=|>|>=) (-?[\d.]+)$', fact)
                            if m:
                                if m.group(1) in ('<', '<='):
                                    lo = True
                                else:
                                    hi = True
                        bounded = bounded and lo and hi
            res.instances.append(f'{f.key} [{fam}]: `{stmt_text(n)[:40]}` '
                                 f'overflow handler={caught} operand bounded={bounded}')
            if caught or bounded:
                res.ok()
            else:
                res.fail(finding('R03.9', f, n, f'{stmt_text(n)[:40]}',
                                 f'`{stmt_text(n)[:50]}` in {fam} works on an evaluated operand '
                                 f'outside any handler for OverflowError and without a two-sided '
                                 f'bound: an xs:integer beyond the double range, or a result '
                                 f'beyond it, escapes as a bare OverflowError'))
    counts['overflow_ops'] = n_ops
    if n_ops < 12:
        raise AnalysisError(f'only {n_ops} overflow-prone operations located')
    return res


# --------------------------------------------------------------------------------------------
# R03.10 index bounded by `<= len(x)` and then used as a subscript of x
# --------------------------------------------------------------------------------------------
def r03_10(ctx, counts) -> RuleResult:
    model: Model = ctx.model
    res = RuleResult(
        'R03.10', 'INDEX-BOUND-OFF-BY-ONE',
        'Contradiction rule: where the only established upper bound of an index i is '
        '`i <= len(s)` (a dominating branch fact, or an earlier operand of the same `and` chain) '
        'the subscript `s[i]` raises IndexError for i == len(s). Scope: the parser/token/context '
        'layers. A subscript inside a try that catches IndexError is accepted.')
    n = 0
    for f in sorted(model.all_functions(), key=lambda q: q.key):
        if not in_scope(f):
            continue
        subs = [x for x in walk_local(f.node) if isinstance(x, ast.Subscript)
                and isinstance(x.ctx, ast.Load) and isinstance(x.slice, ast.Name)
                and isinstance(x.value, (ast.Name, ast.Attribute))]
        if not subs:
            continue
        cfg = None
        facts = None
        emap = enclosing_map(f.node)
        parents: dict[int, ast.AST] = {}
        for a in ast.walk(f.node):
            for c in ast.iter_child_nodes(a):
                parents[id(c)] = a
        for x in subs:
            idx, seq = x.slice.id, stmt_text(x.value)                 # type: ignore[attr-defined]
            weak = {f'{idx} <= len({seq})', f'len({seq}) >= {idx}'}
            strong = {f'{idx} < len({seq})', f'len({seq}) > {idx}'}
            found_weak = found_strong = False
            # earlier operands of an enclosing `and`
            cur: ast.AST = x
            while id(cur) in parents:
                par = parents[id(cur)]
                if isinstance(par, ast.BoolOp) and isinstance(par.op, ast.And):
                    for v in par.values:
                        if v is cur or any(y is cur for y in ast.walk(v)):
                            break
                        for y in ast.walk(v):
                            if isinstance(y, ast.Compare):
                                parts = [stmt_text(y.left)] + [stmt_text(c_) for c_ in y.comparators]
                                for i_, op in enumerate(y.ops):
                                    t = f'{parts[i_]} {{}} {parts[i_ + 1]}'
                                    if isinstance(op, ast.LtE) and t.format('<=') in weak:
                                        found_weak = True
                                    if isinstance(op, ast.GtE) and t.format('>=') in weak:
                                        found_weak = True
                                    if isinstance(op, ast.Lt) and t.format('<') in strong:
                                        found_strong = True
                                    if isinstance(op, ast.Gt) and t.format('>') in strong:
                                        found_strong = True
                cur = par
                if isinstance(par, ast.stmt):
                    break
            if not (found_weak or found_strong):
                if cfg is None:
                    cfg = CFG(f.node)
                    facts = branch_facts(cfg)
                for nd in cfg.nodes:
                    if nd.ast is None or nd.kind not in ('stmt', 'test'):
                        continue
                    root = nd.ast.test if isinstance(nd.ast, (ast.If, ast.While)) else nd.ast
                    if any(y is x for y in ast.walk(root)):
                        fs = facts[nd.id]
                        if any('+' + w in fs for w in weak):
                            found_weak = True
                        if any('+' + st_ in fs for st_ in strong) or \
                                any('-' + w.replace('<=', '>').replace('>=', '<') in fs for w in ()):
                            found_strong = True
                        break
            if not found_weak:
                continue
            n += 1
            caught = any(isinstance(enc, ast.Try) and any(
                'IndexError' in {q.split('.')[-1] for q in handler_names(model, f.module, h)} |
                ({'IndexError'} if {q.split('.')[-1] for q in handler_names(model, f.module, h)} &
                 {'LookupError', 'Exception', 'BaseException'} else set())
                for h in enc.handlers) and any(any(y is x for y in ast.walk(b)) for b in enc.body)
                for enc in emap[id(x)])
            res.instances.append(f'{f.key}: {stmt_text(x)} with {idx} <= len({seq}); '
                                 f'strict bound={found_strong} IndexError handled={caught}')
            if found_strong or caught:
                res.ok()
            else:
                res.fail(finding('R03.10', f, x, f'{stmt_text(x)} after {idx} <= len',
                                 f'`{stmt_text(x)}` is evaluated where only `{idx} <= len({seq})` '
                                 f'is established: for {idx} == len({seq}) it raises a bare '
                                 f'IndexError (e.g. a source text that ends right after the token)'))
    counts['weak_index_bounds'] = n
    return res


# --------------------------------------------------------------------------------------------
# R03.11 document text fed to a datatype constructor
# --------------------------------------------------------------------------------------------
DOC_ATTRS = {'text', 'tail', 'attrib', 'name', 'namespace', 'tag', 'node_name'}
DOC_CALLS = {'etree_iter_strings', 'get_namespace', 'split_expanded_name'}
NOT_DOC_RECEIVERS = ('self', 'self.parser', 'cls', 'token', 'self.parser.schema')


def r03_11(ctx, counts) -> RuleResult:
    model: Model = ctx.model
    cg: CallGraph = ctx.memo('callgraph', lambda: CallGraph(model, ctx.reg))
    dyn, par = ctx.memo('phases', lambda: cg.phases())
    res = RuleResult(
        'R03.11', 'DOCUMENT-TEXT-TO-CONSTRUCTOR',
        'Text that comes from the input document or from the caller-supplied context — element '
        'text/tail/attributes (etree_iter_strings, .text, .tail, .attrib), node names and '
        'namespaces (.name, .namespace, .tag, .node_name, split_expanded_name) — is '
        'unvalidated (ElementTree accepts any string as a tag). In the dynamic-phase code of the function layers, a call of a datatype '
        'class of elementpath.datatypes (their constructors raise ValueError/TypeError for text '
        'outside the lexical space) whose first argument derives from such text is inside a try '
        'with a handler for ValueError.')
    n = 0
    for f in sorted(dyn, key=lambda q: q.key):
        if f.module.name.startswith(('elementpath.datatypes', 'elementpath.regex',
                                     'elementpath.xpath_nodes', 'elementpath.tree_builders',
                                     'elementpath.decoder', 'elementpath.schema_proxy')):
            continue

        def doc_derived(e: ast.AST, names: set[str]) -> bool:
            for x in ast.walk(e):
                if isinstance(x, ast.Attribute) and x.attr in DOC_ATTRS and \
                        dotted(x.value) not in NOT_DOC_RECEIVERS and \
                        not dotted(x.value).startswith('self['):
                    return True     # (self[i]… are token operands, validated by the parser)
                if isinstance(x, ast.Call) and dotted(x.func).split('.')[-1] in DOC_CALLS:
                    return True
                if isinstance(x, ast.Name) and x.id in names:
                    return True
            return False
        def names_before(line: int) -> set[str]:
            names: set[str] = set()
            for _ in range(2):
                for st in walk_local(f.node):
                    if isinstance(st, (ast.Assign, ast.AnnAssign)) and st.value is not None and \
                            st.lineno < line and doc_derived(st.value, names):
                        tg = st.targets[0] if isinstance(st, ast.Assign) else st.target
                        for x in ast.walk(tg):
                            if isinstance(x, ast.Name):
                                names.add(x.id)
            return names
        emap = None
        for call in walk_local(f.node):
            if not isinstance(call, ast.Call) or not call.args or \
                    not isinstance(call.func, (ast.Name, ast.Attribute)):
                continue
            kind, val = model.resolve_expr(f.module, call.func)
            if kind != 'class' or not isinstance(val, ClassInfo) or \
                    not val.module.name.startswith('elementpath.datatypes'):
                continue
            names = names_before(call.lineno)
            if not any(doc_derived(a, names) for a in call.args):
                continue
            n += 1
            if emap is None:
                emap = enclosing_map(f.node)
            caught = False
            for enc in emap[id(call)]:
                if isinstance(enc, ast.Try) and any(any(y is call for y in ast.walk(b))
                                                    for b in enc.body):
                    for h in enc.handlers:
                        if {x.split('.')[-1] for x in handler_names(model, f.module, h)} & \
                                {'ValueError', 'Exception', 'BaseException'}:
                            caught = True
            res.instances.append(f'{f.key}: {stmt_text(call)[:50]} guarded={caught}')
            if caught:
                res.ok()
            else:
                res.fail(finding('R03.11', f, call, f'{stmt_text(call)[:50]}',
                                 f'`{stmt_text(call)[:60]}` builds a {val.name} from text of the '
                                 f'input document/context outside any handler for ValueError: '
                                 f'text outside the lexical space of the type (an element in the '
                                 f'namespace "http://[x", <boolean>maybe</boolean>) escapes as a '
                                 f'bare ValueError'))
    counts['doc_text_constructor_sites'] = n
    if n < 5:
        raise AnalysisError(f'only {n} document-text constructor sites located')
    return res


def r03_12(ctx, counts) -> RuleResult:
    """nud/led return a token on every path"""
    res = RuleResult(
        'R03.12', 'NUD-LED-RETURN-TOKEN',
        'The Pratt loop stores what nud()/led() return as the operand of the enclosing token: '
        '`self[:] = left, self.parser.expression(rbp)`. A nud/led that reaches a bare `return`, '
        '`return None`, or the end of its body hands None to the parent, whose next attribute '
        'access (`self[1].name`) raises AttributeError during parsing. Every function bound to a '
        'nud or led slot through the registration DSL returns a non-None expression on every '
        'normal path (paths that end in `raise` are not concerned).')
    reg = ctx.reg
    funcs: dict[FuncInfo, set[str]] = {}
    for rec in reg.all_records():
        for slot in ('nud', 'led'):
            ref = rec.method(slot)
            if ref is not None and ref.func is not None and ref.origin != 'class':
                funcs.setdefault(ref.func, set()).add(f'{slot} {rec.symbol}')
    model: Model = ctx.model
    for c in model.all_classes():
        if c.module.name.startswith('elementpath.xpath_tokens') or c.module.name == 'elementpath.tdop':
            for slot in ('nud', 'led'):
                m = c.methods.get(slot)
                if m is not None:
                    funcs.setdefault(m, set()).add(f'{slot} of class {c.name}')
    if len(funcs) < 40:
        raise AnalysisError(f'only {len(funcs)} nud/led functions located')
    n = 0
    for f, what in sorted(funcs.items(), key=lambda kv: kv[0].key):
        n += 1
        cfg = CFG(f.node)
        bad = []
        for nd in cfg.nodes:
            if nd.kind == 'stmt' and isinstance(nd.ast, ast.Return):
                v = nd.ast.value
                if v is None or (isinstance(v, ast.Constant) and v.value is None):
                    bad.append(nd.ast)
        # falling off the end: a predecessor of the exit that is neither return nor raise
        for lb, p in cfg.exit.preds:
            if p.kind == 'stmt' and isinstance(p.ast, (ast.Return, ast.Raise)):
                continue
            if p is cfg.entry and not f.node.body:
                continue
            if p.ast is not None and not isinstance(p.ast, (ast.Return, ast.Raise)):
                bad.append(p.ast)
        if not bad:
            res.ok()
        else:
            res.instances.append(f'{f.key} [{sorted(what)[0]}]: {len(bad)} path(s) return None')
            res.fail(finding('R03.12', f, bad[0], 'returns None',
                             f'{f.name} ({", ".join(sorted(what))[:60]}) can return None '
                             f'(`{stmt_text(bad[0])[:40]}`): the parent token stores it as an '
                             f'operand and the next attribute access raises AttributeError '
                             f'("a" => xs:NOTATION())'))
    res.instances.append(f'{n} nud/led functions examined')
    counts['nud_led_functions'] = n
    return res


def r03_13(ctx, counts) -> RuleResult:
    """set operators: node check before hashing"""
    from ..engine.dataflow import branch_facts
    res = RuleResult(
        'R03.13', 'SETOP-NODE-CHECK-BEFORE-HASHING',
        'The operands of |, union, intersect and except may be any sequence; maps, arrays and '
        'function items are not hashable. In the select functions bound to those operators no '
        'result of an operand enters a set — set(…), a set comprehension, or .add(x) — before it '
        'is established to be an XPathNode (branch fact at the .add; a set built directly from '
        'the operand\'s select cannot have been checked). Otherwise `. | abs#1` raises a bare '
        'TypeError instead of XPTY0004.')
    funcs: dict[FuncInfo, set[str]] = {}
    for rec in ctx.reg.all_records():
        if rec.symbol in ('|', 'union', 'intersect', 'except'):
            ref = rec.method('select')
            if ref is not None and ref.func is not None and ref.origin != 'class':
                funcs.setdefault(ref.func, set()).add(rec.symbol)
    if len(funcs) < 2:
        raise AnalysisError(f'set operator functions located: {len(funcs)} < 2')
    n = 0
    # closures nested in a set-operator function evaluate operands too
    for f, syms in list(funcs.items()):
        for g in f.module.functions.values():
            if g.parent is f:
                funcs.setdefault(g, set()).update(syms)
    for f, syms in sorted(funcs.items(), key=lambda kv: kv[0].key):
        cfg = CFG(f.node)
        facts = branch_facts(cfg)

        def from_select(e: ast.AST) -> bool:
            return any(isinstance(c, ast.Call) and isinstance(c.func, ast.Attribute)
                       and c.func.attr in ('select', 'evaluate') for c in ast.walk(e))
        for x in walk_local(f.node):
            if isinstance(x, ast.SetComp) and any(from_select(g.iter) for g in x.generators) or \
                    isinstance(x, ast.Call) and dotted(x.func) in ('set', 'frozenset') and x.args \
                    and from_select(x.args[0]):
                n += 1
                res.instances.append(f'{f.key} [{"/".join(sorted(syms))}]: `{stmt_text(x)[:50]}` '
                                     f'hashes unchecked operand results')
                res.fail(finding('R03.13', f, x, 'operand results hashed unchecked',
                                 f'`{stmt_text(x)[:60]}` puts the results of an operand into a '
                                 f'set before the node check: an array, map or function item '
                                 f'raises a bare TypeError (unhashable) instead of XPTY0004'))
        for nd in cfg.nodes:
            a = nd.ast
            if nd.kind == 'stmt' and isinstance(a, ast.Expr) and isinstance(a.value, ast.Call) \
                    and isinstance(a.value.func, ast.Attribute) and a.value.func.attr == 'add' \
                    and a.value.args and isinstance(a.value.args[0], ast.Name):
                v = a.value.args[0].id
                n += 1
                ok = f'+isinstance({v}, XPathNode)' in facts[nd.id]
                res.instances.append(f'{f.key} [{"/".join(sorted(syms))}]: `{stmt_text(a)}` after '
                                     f'the node check={ok}')
                if ok:
                    res.ok()
                else:
                    res.fail(finding('R03.13', f, a, f'{v} added unchecked',
                                     f'`{stmt_text(a)}` hashes `{v}` on a path on which it is not '
                                     f'established to be an XPathNode'))
    counts['setop_hash_sites'] = n
    if n < 2:
        raise AnalysisError(f'only {n} hashing sites located in the set operators')
    return res


def r03_14(ctx, counts) -> RuleResult:
    """decimal.Decimal(text) raises InvalidOperation, which is not a ValueError"""
    model: Model = ctx.model
    res = RuleResult(
        'R03.14', 'DECIMAL-TEXT-CONVERSION',
        'decimal.Decimal("x") raises decimal.InvalidOperation — an ArithmeticError, not a '
        'ValueError — while int("x") and float("x") raise ValueError. The evaluation layers '
        'convert ValueError into FORG0001/FOCA0002. (a) A try whose handlers name ValueError and '
        'whose body constructs a Decimal from a non-literal argument also names '
        'InvalidOperation, DecimalException or ArithmeticError. (b) In UntypedAtomic._operator '
        '(the conversion of an untyped value to the type of the other operand of a comparison, '
        'whose callers convert ValueError) a constructor chosen at run time — `type(other)(text)` '
        '— can be Decimal, so it sits in a try that turns ArithmeticError into ValueError. '
        'Otherwise `<b>x</b> = 2.5` escapes as a bare decimal.InvalidOperation.')
    n = 0
    arith = {'InvalidOperation', 'DecimalException', 'ArithmeticError', 'Exception', 'BaseException'}
    for f in sorted(model.all_functions(), key=lambda q: q.key):
        if not f.module.name.startswith('elementpath.') or f.module.name.startswith('elementpath.regex'):
            continue
        for tr in [x for x in walk_local(f.node) if isinstance(x, ast.Try)]:
            names = set()
            for h in tr.handlers:
                names |= {nm.split('.')[-1] for nm in handler_names(model, f.module, h)}
            if 'ValueError' not in names:
                continue
            decs = [c for st in tr.body for c in ast.walk(st) if isinstance(c, ast.Call)
                    and dotted(c.func).split('.')[-1] == 'Decimal' and c.args
                    and not isinstance(c.args[0], ast.Constant)
                    and not (isinstance(c.args[0], ast.Call)
                             and dotted(c.args[0].func) in ('int', 'len', 'round'))]
            # Decimal(<int>) cannot fail: drop calls whose argument an enclosing test
            # establishes to be an int
            emap_f = enclosing_map(f.node)
            decs = [c for c in decs if not (isinstance(c.args[0], ast.Name) and any(
                isinstance(enc, ast.If) and any(
                    isinstance(t, ast.Call) and dotted(t.func) == 'isinstance' and len(t.args) == 2
                    and stmt_text(t.args[0]) == c.args[0].id and stmt_text(t.args[1]) == 'int'
                    for t in ast.walk(enc.test)) for enc in emap_f[id(c)]))]
            if not decs:
                continue
            n += 1
            ok = bool(names & arith)
            res.instances.append(f'{f.key}: try at L{tr.lineno} converts ValueError and builds '
                                 f'`{stmt_text(decs[0])[:40]}`; covers InvalidOperation={ok}')
            if ok:
                res.ok()
            else:
                res.fail(finding('R03.14', f, decs[0], 'Decimal(text) under ValueError only',
                                 f'`{stmt_text(decs[0])[:50]}` sits in a try that handles '
                                 f'{sorted(names)} but not decimal.InvalidOperation: malformed '
                                 f'text escapes as a bare decimal error'))
    cls = model.find_class('UntypedAtomic')
    op = cls.methods.get('_operator')
    if op is None:
        raise AnalysisError('UntypedAtomic._operator vanished')
    emap = enclosing_map(op.node)
    for c in walk_local(op.node):
        if isinstance(c, ast.Call) and isinstance(c.func, ast.Call) \
                and dotted(c.func.func) == 'type' and c.args:
            n += 1
            covered = False
            for enc in emap[id(c)]:
                if isinstance(enc, ast.Try) and any(any(y is c for y in ast.walk(b))
                                                    for b in enc.body):
                    for h in enc.handlers:
                        if {nm.split('.')[-1] for nm in handler_names(model, op.module, h)} & arith:
                            covered = True
            res.instances.append(f'{op.key}: `{stmt_text(c)[:40]}` (constructor chosen at run '
                                 f'time) under an ArithmeticError handler={covered}')
            if covered:
                res.ok()
            else:
                res.fail(finding('R03.14', op, c, 'type(other)(text) may be Decimal',
                                 f'`{stmt_text(c)[:50]}` builds a value of the class of the other '
                                 f'operand from the untyped text; for a decimal operand that is '
                                 f'Decimal("x"), whose InvalidOperation is not the ValueError the '
                                 f'callers convert: `<b>x</b> = 2.5` raises a bare decimal error'))
    counts['decimal_text_conversions'] = n
    if n < 1:
        raise AnalysisError('no Decimal-from-text conversion located')
    return res


def r03_15(ctx, counts) -> RuleResult:
    """function conversion rules: untypedAtomic -> expected type through the lexical constructor"""
    model: Model = ctx.model
    res = RuleResult(
        'R03.15', 'UNTYPED-ARGUMENT-LEXICAL-CAST',
        'The function conversion rules cast an xs:untypedAtomic argument to the expected atomic '
        'type. Most datatype classes take the text as their single constructor argument, but the '
        'date/time and duration classes take FIELDS (Duration(months, seconds), '
        'DateTime(year, month, …)) and offer a `fromstring` class method for text. '
        '`cls(value)` with an UntypedAtomic then builds a Duration whose `months` IS the untyped '
        'value (years-from-duration(@x) raised a bare TypeError) or fails with a TypeError that '
        'is read as XPTY0004. In XPathToken.validated_value the branch for UntypedAtomic values '
        'calls the class directly only where `fromstring` has been tried or excluded '
        '(a hasattr/getattr test on \'fromstring\' in the same branch). The classes concerned '
        'are listed from the class hierarchy on every run.')
    tok = model.find_class('XPathToken')
    f = tok.methods.get('validated_value')
    if f is None:
        raise AnalysisError('XPathToken.validated_value vanished')
    cls_param = f.params()[2] if len(f.params()) > 2 else 'cls'
    base = model.find_class('AnyAtomicType')
    field_built = sorted(c.name for c in model.subclasses_of(base)
                         if any(g.cls is c and g.name == 'fromstring'
                                for g in c.module.functions.values()))
    res.instances.append(f'datatype classes with a fromstring() constructor: {field_built[:8]}')
    if len(field_built) < 2:
        raise AnalysisError('no datatype class with a fromstring constructor located')
    res.ok()
    n = 0
    for br in [x for x in walk_local(f.node) if isinstance(x, ast.If)
               and 'isinstance(' in stmt_text(x.test) and 'UntypedAtomic' in stmt_text(x.test)]:
        calls = [c for st in br.body for c in ast.walk(st) if isinstance(c, ast.Call)
                 and isinstance(c.func, ast.Name) and c.func.id == cls_param]
        for c in calls:
            n += 1
            tried = any(isinstance(k, ast.Constant) and k.value == 'fromstring'
                        or isinstance(k, ast.Attribute) and k.attr == 'fromstring'
                        for st in br.body for k in ast.walk(st))
            res.instances.append(f'{f.key}: `{stmt_text(c)}` for an untyped value; fromstring '
                                 f'considered={tried}')
            if tried:
                res.ok()
            else:
                res.fail(finding('R03.15', f, c, 'cls(untyped) for field-built classes',
                                 f'`{stmt_text(c)}` converts an untyped argument by calling the '
                                 f'expected class with the value: for {field_built[:3]}… the '
                                 f'constructor takes fields, so years-from-duration(@x) computes '
                                 f'on a Duration whose months is the UntypedAtomic (bare '
                                 f'TypeError) and year-from-date(@d) answers XPTY0004'))
    counts['untyped_argument_casts'] = n
    if n < 1:
        raise AnalysisError(f'{f.key}: the conversion of untyped arguments was not located')
    return res


def r03_16(ctx, counts) -> RuleResult:
    """an argument that may be the empty sequence is not used as a number"""
    from ..engine.dataflow import branch_facts
    model: Model = ctx.model
    res = RuleResult(
        'R03.16', 'EMPTY-ARGUMENT-USED-AS-NUMBER',
        '`self.get_argument(context, …)` returns None for an empty sequence unless it is called '
        'with required=True (XPTY0004), a default, or default_to_context. In the evaluate/select '
        'functions of the function layers a name bound to such a call is passed to a numeric '
        'primitive — math.*(x), float(x), int(x), abs(x), round(x), len(x) or an arithmetic '
        'operator — only where it is established not to be None (branch facts `x is not None`, '
        '`isinstance(x, …)`, truthiness; an `isinstance(x, T) and …` conjunct counts). Otherwise '
        'subsequence((1,2), ()) and math:atan2((), 1) raise a bare TypeError ("must be real '
        'number, not NoneType").')
    n = 0
    prims = ('math.', )
    for f in sorted(model.all_functions(), key=lambda q: q.key):
        if not f.module.name.startswith(('elementpath.xpath1._', 'elementpath.xpath2._',
                                         'elementpath.xpath30._', 'elementpath.xpath31._')):
            continue
        maybe: dict[str, ast.AST] = {}
        for st in walk_local(f.node):
            if isinstance(st, (ast.Assign, ast.AnnAssign)) and isinstance(st.value, ast.Call) \
                    and dotted(st.value.func).endswith('get_argument'):
                kws = {k.arg for k in st.value.keywords}
                if kws & {'required', 'default', 'default_to_context'}:
                    continue
                tg = st.targets[0] if isinstance(st, ast.Assign) else st.target
                if isinstance(tg, ast.Name):
                    maybe[tg.id] = st
        if not maybe:
            continue
        cfg = CFG(f.node)
        facts = branch_facts(cfg)
        reported: set[str] = set()
        for nd in cfg.nodes:
            if nd.ast is None or nd.kind not in ('stmt', 'test'):
                continue
            root = nd.ast.test if isinstance(nd.ast, (ast.If, ast.While)) else nd.ast
            for x in ast.walk(root):
                use = None
                if isinstance(x, ast.Call) and x.args and (
                        dotted(x.func).startswith(prims) or
                        dotted(x.func) in ('float', 'int', 'abs', 'round', 'len')):
                    cands = x.args if dotted(x.func).startswith(prims) else x.args[:1]
                    for a in cands:
                        if isinstance(a, ast.Name) and a.id in maybe and a.id not in reported:
                            use = a.id
                if isinstance(x, ast.BinOp) and isinstance(
                        x.op, (ast.Add, ast.Sub, ast.Mult, ast.Div, ast.Mod, ast.FloorDiv)) \
                        and not isinstance(x.left, ast.Constant):
                    for side in (x.left, x.right):
                        if isinstance(side, ast.Name) and side.id in maybe:
                            use = side.id
                if use is None or getattr(x, 'lineno', 0) < maybe[use].lineno or use in reported:
                    continue
                # another definition of the name between the call and the use (`if x is None:
                # x = …`, normalisation): the value used is not the raw argument
                redefined = any(
                    isinstance(st, (ast.Assign, ast.AnnAssign, ast.AugAssign))
                    and st is not maybe[use]
                    and maybe[use].lineno < st.lineno <= getattr(x, 'lineno', 0)
                    and any(isinstance(t, ast.Name) and t.id == use for t in ast.walk(
                        st.targets[0] if isinstance(st, ast.Assign) else st.target))
                    for st in walk_local(f.node))
                if redefined:
                    continue
                n += 1
                fs = facts[nd.id]
                ok = any(fa in (f'-{use} is None', f'+{use}', f'-not {use}')
                         or fa.startswith(f'+isinstance({use},') for fa in fs)
                if not ok:      # `isinstance(x, T) and prim(x)` / `x is not None and …`
                    for bo in [b for b in ast.walk(root) if isinstance(b, ast.BoolOp)
                               and isinstance(b.op, ast.And)]:
                        for i, v in enumerate(bo.values):
                            if any(y is x for y in ast.walk(v)):
                                for prev in bo.values[:i]:
                                    t = stmt_text(prev)
                                    if t.startswith(f'isinstance({use},') or t == f'{use} is not None' \
                                            or t == use:
                                        ok = True
                if not ok:      # `x is None or prim(x)`
                    for bo in [b for b in ast.walk(root) if isinstance(b, ast.BoolOp)
                               and isinstance(b.op, ast.Or)]:
                        for i, v in enumerate(bo.values):
                            if any(y is x for y in ast.walk(v)):
                                for prev in bo.values[:i]:
                                    if stmt_text(prev) in (f'{use} is None', f'not {use}'):
                                        ok = True
                if ok:
                    res.ok()
                else:
                    reported.add(use)
                    res.instances.append(f'{f.key}: `{stmt_text(x)[:40]}` on `{use}`, which may be '
                                         f'None')
                    res.fail(finding('R03.16', f, x, f'{use} may be None',
                                     f'`{stmt_text(x)[:50]}` uses `{use}`, bound to '
                                     f'`{stmt_text(maybe[use])[:60]}` (None for an empty sequence), '
                                     f'as a number without a None test: an empty-sequence '
                                     f'argument raises a bare TypeError'))
    res.instances.append(f'{n} numeric uses of possibly-empty arguments examined')
    counts['maybe_none_numeric_uses'] = n
    if n < 5:
        raise AnalysisError(f'only {n} numeric uses of get_argument results located')
    return res


def r03_17(ctx, counts) -> RuleResult:
    """Decimal %, // and ** can raise decimal.InvalidOperation"""
    from ..engine.dataflow import branch_facts
    model: Model = ctx.model
    res = RuleResult(
        'R03.17', 'DECIMAL-OPERATOR-CAN-FAIL',
        'On decimal.Decimal operands `%` and `//` raise InvalidOperation (DivisionImpossible) as '
        'soon as the integer quotient has more digits than the context precision, and `**` '
        'raises it for 0 ** 0 and for a negative base with a fractional exponent. In the '
        'evaluate functions of fn:avg, fn:sum and math:pow (aggregates and powers over values '
        'that may be xs:decimal) every such operator is under a handler for '
        'InvalidOperation/ArithmeticError, or its operands are established not to be Decimal: a '
        'branch fact `all(isinstance(x, int) …)`/`isinstance(n, (int, float))`, or a preceding '
        '`if isinstance(n, Decimal): n = float(n)` promotion of the operand.')
    funcs: dict[FuncInfo, set[str]] = {}
    for rec in ctx.reg.all_records():
        if rec.symbol in ('avg', 'sum', 'pow'):
            ref = rec.method('evaluate')
            if ref is not None and ref.func is not None and ref.origin != 'class':
                funcs.setdefault(ref.func, set()).add(rec.symbol)
    if len(funcs) < 3:
        raise AnalysisError(f'avg/sum/pow functions located: {len(funcs)} < 3')
    arith = {'InvalidOperation', 'DecimalException', 'ArithmeticError', 'Exception'}
    n = 0
    for f, syms in sorted(funcs.items(), key=lambda kv: kv[0].key):
        cfg = CFG(f.node)
        facts = branch_facts(cfg)
        emap = enclosing_map(f.node)
        promoted = set()
        for b in walk_local(f.node):
            if isinstance(b, ast.Assign) and isinstance(b.targets[0], ast.Name) \
                    and isinstance(b.value, ast.Call) and dotted(b.value.func) == 'float' \
                    and established_class(f.node, b, b.targets[0].id, 'Decimal'):
                promoted.add(b.targets[0].id)
        for nd in cfg.nodes:
            if nd.ast is None or nd.kind not in ('stmt', 'test'):
                continue
            root = nd.ast.test if isinstance(nd.ast, (ast.If, ast.While)) else nd.ast
            for x in ast.walk(root):
                if not (isinstance(x, ast.BinOp) and isinstance(x.op, (ast.Mod, ast.FloorDiv, ast.Pow))):
                    continue
                if isinstance(x.left, ast.Constant) and isinstance(x.left.value, str):
                    continue        # string formatting
                names = {y.id for y in ast.walk(x) if isinstance(y, ast.Name)}
                n += 1
                covered = False
                for enc in emap.get(id(x), []):
                    if isinstance(enc, ast.Try) and any(any(y is x for y in ast.walk(b))
                                                        for b in enc.body):
                        for h in enc.handlers:
                            if {nm.split('.')[-1] for nm in handler_names(model, f.module, h)} & arith:
                                covered = True
                fs = facts[nd.id]
                if isinstance(x.op, ast.Pow) and isinstance(x.left, ast.Name):
                    # int ** int is exact and unbounded in time and memory: the base must have
                    # been promoted to float under a test that includes int
                    base_float = any(
                        isinstance(b, ast.Assign) and isinstance(b.targets[0], ast.Name)
                        and b.targets[0].id == x.left.id and isinstance(b.value, ast.Call)
                        and dotted(b.value.func) == 'float'
                        and established_class(f.node, b, x.left.id, 'int')
                        for b in walk_local(f.node))
                    res.instances.append(f'{f.key}: base of `{stmt_text(x)[:30]}` promoted from '
                                         f'int to float={base_float}')
                    if base_float:
                        res.ok()
                    else:
                        res.fail(finding('R03.17', f, x, 'integer power with unbounded exponent',
                                         f'`{stmt_text(x)[:40]}`: the base can still be an int, so '
                                         f'with an integer exponent Python computes the exact '
                                         f'power: math:pow(7, 10**34) does not terminate'))
                not_decimal = all(nm in promoted for nm in names if nm not in ('len',)) and bool(names) \
                    or any(fa.startswith('+all(') and 'isinstance(' in fa and ', int)' in fa for fa in fs)
                res.instances.append(f'{f.key} [{"/".join(sorted(syms))}]: `{stmt_text(x)[:40]}` '
                                     f'handler={covered} operands not Decimal={not_decimal}')
                if covered or not_decimal:
                    res.ok()
                else:
                    res.fail(finding('R03.17', f, x, f'{stmt_text(x)[:30]} on possible decimals',
                                     f'`{stmt_text(x)[:50]}` can be applied to xs:decimal values '
                                     f'outside any handler for decimal.InvalidOperation: '
                                     f'avg(xs:integer("99999999999999999999999999999999")) and '
                                     f'math:pow(xs:decimal("0"), xs:decimal("0")) escape as bare '
                                     f'decimal errors'))
    counts['decimal_operator_sites'] = n
    if n < 2:
        raise AnalysisError(f'only {n} %, // or ** operators located in avg/sum/pow')
    return res


FLOAT_SOURCES = {'float', 'get_double', 'number_value', 'cast_to_double', 'fabs'}


def r03_18(ctx, counts) -> RuleResult:
    """math.isnan / isinf / isfinite convert an int to a C double first"""
    model: Model = ctx.model
    res = RuleResult(
        'R03.18', 'FLOAT-PREDICATE-ON-UNBOUNDED-INTEGER',
        'math.isnan(v), math.isinf(v) and math.isfinite(v) convert an int argument to a C double '
        'and raise OverflowError beyond 1.8e308; xs:integer is unbounded here. In the functions '
        'of the xpath1/xpath2/xpath30/xpath31 function and operator modules and of helpers.py every such call on '
        'a name is either (a) preceded in the same `and` by isinstance(v, float) (or in the same '
        '`or` by its negation, or by isinstance(v, int)), (b) under a branch fact '
        'isinstance(v, float / Float / DoubleProxy) or not isinstance(v, int), (c) inside a try that handles '
        'OverflowError / ArithmeticError, or (d) v is only ever assigned from float(..), '
        'get_double, number_value, cast_to_double or get_argument(.., cls=float), or is a '
        'parameter annotated float. Otherwise ceiling(10^400), substring("abc", 10^400) or '
        'format-number(10^400, "0") escape as a bare OverflowError.')
    n = 0
    for f in sorted(model.all_functions(), key=lambda q: q.key):
        mn = f.module.name
        if not (mn.startswith('elementpath.xpath') and ('_functions' in mn or '_operators' in mn)) \
                and mn != 'elementpath.helpers':
            continue
        calls = [c for c in walk_local(f.node) if isinstance(c, ast.Call)
                 and dotted(c.func) in ('math.isnan', 'math.isinf', 'math.isfinite')
                 and len(c.args) == 1]
        if not calls:
            continue
        cfg = CFG(f.node, calls_may_raise)
        facts = branch_facts(cfg)
        tctx = try_context(f.node)
        parent_of = {id(ch): par for par in ast.walk(f.node) for ch in ast.iter_child_nodes(par)}
        # float-only names
        defs: dict[str, list[ast.AST]] = {}
        for x in walk_local(f.node):
            if isinstance(x, (ast.Assign, ast.AnnAssign)) and x.value is not None:
                for t in (x.targets if isinstance(x, ast.Assign) else [x.target]):
                    for nm in (t.elts if isinstance(t, ast.Tuple) else [t]):
                        if isinstance(nm, ast.Name):
                            defs.setdefault(nm.id, []).append(
                                x.value if not isinstance(t, ast.Tuple) else ast.Tuple())
            elif isinstance(x, (ast.For, ast.comprehension)):
                for nm in ast.walk(x.target):
                    if isinstance(nm, ast.Name):
                        defs.setdefault(nm.id, []).append(ast.Tuple())
            elif isinstance(x, ast.AugAssign) and isinstance(x.target, ast.Name):
                defs.setdefault(x.target.id, []).append(x.value)

        def is_float_expr(v: ast.AST) -> bool:
            if isinstance(v, ast.Constant):
                return isinstance(v.value, float)
            if isinstance(v, ast.Call):
                last = dotted(v.func).split('.')[-1]
                if last in FLOAT_SOURCES:
                    return True
                if last == 'get_argument':
                    return any(k.arg == 'cls' and dotted(k.value) == 'float' for k in v.keywords)
                if last == 'cast' and len(v.args) == 2:
                    return dotted(v.args[0]) == 'float' and isinstance(v.args[1], ast.Call) \
                        and dotted(v.args[1].func).split('.')[-1].startswith(('DoubleProxy', 'float'))
            if isinstance(v, ast.IfExp):
                return is_float_expr(v.body) and is_float_expr(v.orelse)
            return False
        ann = {a.arg: stmt_text(a.annotation) for a in f.node.args.args + f.node.args.kwonlyargs
               if a.annotation is not None}
        for c in calls:
            n += 1
            arg = c.args[0]
            label = f'{f.key}: L{c.lineno} `{stmt_text(c)[:40]}`'
            ok_reason = None
            if not isinstance(arg, ast.Name):
                if is_float_expr(arg):
                    ok_reason = 'argument is a float expression'
                else:
                    name = stmt_text(arg)
            if isinstance(arg, ast.Name):
                name = arg.id
                if name in defs and all(is_float_expr(v) for v in defs[name]):
                    ok_reason = 'only assigned floats'
                elif name not in defs and ann.get(name) == 'float':
                    ok_reason = 'parameter annotated float'
            if ok_reason is None:
                # the guard or the body of `case float():` in a match on the same name
                for mt in walk_local(f.node):
                    if isinstance(mt, ast.Match) and stmt_text(mt.subject) == name:
                        for case in mt.cases:
                            pats = case.pattern.patterns if isinstance(
                                case.pattern, ast.MatchOr) else [case.pattern]
                            if pats and all(isinstance(p_, ast.MatchClass) and dotted(
                                    p_.cls).split('.')[-1] in ('float', 'Float', 'DoubleProxy')
                                    for p_ in pats):
                                inside = (case.guard is not None and any(
                                    y is c for y in ast.walk(case.guard))) or any(
                                    y is c for b in case.body for y in ast.walk(b))
                                if inside:
                                    ok_reason = 'case float()'
            if ok_reason is None:
                # (a) same `and`
                par = parent_of.get(id(c))
                node = c
                while par is not None and isinstance(par, (ast.UnaryOp, ast.BoolOp)) and ok_reason is None:
                    if isinstance(par, ast.BoolOp) and isinstance(par.op, ast.And):
                        idx = [i for i, v in enumerate(par.values) if v is node][0]
                        for v in par.values[:idx]:
                            if isinstance(v, ast.Call) and dotted(v.func) == 'isinstance' \
                                    and stmt_text(v.args[0]) == name \
                                    and 'int' not in stmt_text(v.args[1]).lower().replace('float', ''):
                                ok_reason = 'isinstance conjunct'
                    elif isinstance(par, ast.BoolOp) and isinstance(par.op, ast.Or):
                        idx = [i for i, v in enumerate(par.values) if v is node][0]
                        for v in par.values[:idx]:
                            neg = isinstance(v, ast.UnaryOp) and isinstance(v.op, ast.Not)
                            t = v.operand if neg else v
                            if isinstance(t, ast.Call) and dotted(t.func) == 'isinstance' \
                                    and stmt_text(t.args[0]) == name:
                                cls_txt = stmt_text(t.args[1])
                                if neg and 'int' not in cls_txt.lower().replace('float', ''):
                                    ok_reason = 'not isinstance(.., float) disjunct'
                                elif not neg and cls_txt in ('int', '(int, bool)', '(bool, int)'):
                                    ok_reason = 'isinstance(.., int) disjunct'
                    node, par = par, parent_of.get(id(par))
            if ok_reason is None:
                holder = None
                for nd in cfg.nodes:
                    if nd.ast is not None and nd.kind in ('stmt', 'test') and any(
                            y is c for e in nd.exprs() for y in ast.walk(e)):
                        holder = nd
                        break
                fs = facts[holder.id] if holder is not None else frozenset()
                for fa in fs:
                    if fa.startswith('+') and f'isinstance({name}, ' in fa and (
                            'float' in fa or 'Float' in fa or 'DoubleProxy' in fa) \
                            and 'int' not in fa.lower().replace('float', '').replace('isinstance', ''):
                        ok_reason = f'fact {fa}'
                    elif fa in (f'-isinstance({name}, int)', f'-isinstance({name}, (int, bool))'):
                        ok_reason = f'fact {fa}'
            if ok_reason is None:
                for tr, part in tctx.get(id(c), []):
                    if part == 'body' and any(
                            nm.split('.')[-1] in ('OverflowError', 'ArithmeticError', 'Exception')
                            for h in tr.handlers for nm in handler_names(model, f.module, h)):
                        ok_reason = 'try/except OverflowError'
            res.instances.append(f'{label}: {ok_reason or "UNGUARDED"}')
            if ok_reason:
                res.ok()
            else:
                res.fail(finding('R03.18', f, c, f'{stmt_text(c)[:30]} on a possible integer',
                                 f'`{stmt_text(c)[:50]}`: `{name}` can be an xs:integer beyond the '
                                 f'range of a C double (no isinstance(.., float) guard, no float '
                                 f'conversion, no OverflowError handler): e.g. an argument 10^400 '
                                 f'escapes as a bare OverflowError'))
    counts['float_predicates'] = n
    if n < 10:
        raise AnalysisError(f'math.isnan/isinf calls located in the function modules: {n} < 10')
    return res


def r03_19(ctx, counts) -> RuleResult:
    """a token that can stay in the tree defines evaluate or select"""
    res = RuleResult(
        'R03.19', 'EVALUABLE-TOKENS',
        'XPathToken.evaluate() is xlist(self.select()) and XPathToken.select() iterates '
        'self.evaluate(): a token class that overrides neither recurses until RecursionError, '
        'which is not an ElementPathError. Every registered symbol whose nud or led can return '
        'the token itself (a `return self`, or the inherited XPathFunction.nud) therefore has an '
        'evaluate or a select of its own (registered method, or defined by a class other than '
        'XPathToken / Token). `empty-sequence() and lt` ended in a RecursionError.')
    n = 0

    def is_default(ref) -> bool:
        return ref is None or ref.func is None or (
            ref.func.cls is not None and ref.func.cls.name in ('XPathToken', 'Token'))

    def returns_self(ref) -> bool:
        if ref is None or ref.func is None:
            return False
        fn = ref.func
        if fn.cls is not None and fn.cls.name == 'Token':
            return False          # the defaults raise a syntax error
        if fn.cls is not None and fn.cls.name == 'ProxyToken':
            return False          # replaced by the resolved function token
        me = fn.params()[0] if fn.params() else 'self'
        return any(isinstance(x, ast.Return) and isinstance(x.value, ast.Name) and x.value.id == me
                   for x in walk_local(fn.node))
    seen: set[tuple[str, str]] = set()
    for rec in ctx.reg.all_records():
        stays = returns_self(rec.method('nud')) or returns_self(rec.method('led'))
        if not stays:
            continue
        key = (rec.symbol, rec.lookup_name)
        if key in seen:
            continue
        seen.add(key)
        n += 1
        ok = not (is_default(rec.method('evaluate')) and is_default(rec.method('select')))
        if ok:
            res.ok()
        else:
            res.instances.append(f'{rec.symbol!r} ({"/".join(rec.label_values)}): neither evaluate '
                                 f'nor select')
            ref = rec.method('nud') or rec.method('led')
            res.fail(finding('R03.19', ref.func, ref.func.node, f'{rec.symbol} not evaluable',
                             f'the symbol {rec.symbol!r} ({"/".join(rec.label_values) or "token"}) '
                             f'is parsed into the tree ({ref.func.key} returns the token) but '
                             f'defines neither evaluate nor select: the mutually recursive '
                             f'defaults of XPathToken end in a RecursionError, e.g. for '
                             f'`{rec.symbol}() and lt`'))
    res.instances.append(f'{n} symbols that stay in the tree checked for evaluate/select')
    counts['evaluable_symbols'] = n
    if n < 150:
        raise AnalysisError(f'symbols whose nud/led returns the token: {n} < 150')
    return res


def r03_20(ctx, counts) -> RuleResult:
    """the JSON decoder raises more than JSONDecodeError"""
    model: Model = ctx.model
    res = RuleResult(
        'R03.20', 'JSON-DECODER-ERRORS',
        'json.JSONDecoder.decode / json.loads raise JSONDecodeError for malformed text, a plain '
        'ValueError for a number with more digits than the interpreter\'s int conversion limit '
        '(4300) and RecursionError for deeply nested arrays/objects. Every such call in the '
        'package lies in a try whose handlers cover ValueError (the superclass; or Exception) '
        'and RecursionError and raise self.error(..). parse-json of a 5000-digit number escaped '
        'as a bare ValueError, of 100000 nested arrays as a RecursionError.')
    n = 0
    for f in sorted(model.all_functions(), key=lambda q: q.key):
        calls = [c for c in walk_local(f.node) if isinstance(c, ast.Call) and (
            dotted(c.func) in ('json.loads', 'json.load')
            or (isinstance(c.func, ast.Attribute) and c.func.attr == 'decode'
                and 'JSONDecoder' in stmt_text(c.func.value)))]
        if not calls:
            continue
        tctx = try_context(f.node)
        for c in calls:
            n += 1
            covered: set[str] = set()
            for tr, part in tctx.get(id(c), []):
                if part != 'body':
                    continue
                for h in tr.handlers:
                    for nm in handler_names(model, f.module, h):
                        covered.add(nm.split('.')[-1])
            need = []
            if not covered & {'ValueError', 'Exception', 'BaseException'}:
                need.append('ValueError')
            if not covered & {'RecursionError', 'RuntimeError', 'Exception', 'BaseException'}:
                need.append('RecursionError')
            res.instances.append(f'{f.key}: L{c.lineno} {stmt_text(c)[:40]} handlers '
                                 f'{sorted(covered)}: missing {need}')
            if not need:
                res.ok()
            else:
                res.fail(finding('R03.20', f, c, f'JSON decode without {"/".join(need)}',
                                 f'`{stmt_text(c)[:50]}` can raise {" and ".join(need)} (a number '
                                 f'beyond the int conversion limit / too many nested levels) and '
                                 f'the enclosing handlers cover only {sorted(covered)}: the error '
                                 f'escapes as it is'))
    counts['json_decode_calls'] = n
    if n < 2:
        raise AnalysisError(f'JSON decoder calls located: {n} < 2')
    return res


def r03_21(ctx, counts) -> RuleResult:
    """a scanning loop over a string advances its index on every iteration"""
    from ..engine.cfg import CFG, node_writes
    model: Model = ctx.model
    res = RuleResult(
        'R03.21', 'SCAN-INDEX-PROGRESS',
        '"No call hangs": a loop `while I < N` that scans a string by position (I is used in the '
        'loop as a subscript, slice bound or start position of a string operation, N is a name or '
        'len(..) that the loop does not write) terminates because I grows. (a) every path from '
        'the loop test back to the loop test passes a write of I; (b) no write of I in the loop '
        'is a decrement (`I -= ..`, `I = I - ..`), a constant, or the result of str.find / rfind '
        '/ index / rindex (-1 or a position that may not be ahead of I), directly or through a '
        'local assigned from such a call, unless that value is compared with 0 or -1 in the '
        'function. blank_comments with `k = source.find(quote, k)` restarts from 0 for ever on '
        'an unterminated string literal.')
    SENTINEL = ('find', 'rfind', 'index', 'rindex')
    n = 0
    for f in sorted(model.all_functions(), key=lambda q: q.key):
        if '.validators' in f.module.name:
            continue
        whiles = [w for w in walk_local(f.node) if isinstance(w, ast.While)]
        if not whiles:
            continue
        cfg = None
        for w in whiles:
            tests = w.test.values if isinstance(w.test, ast.BoolOp) \
                and isinstance(w.test.op, ast.And) else [w.test]
            idx = None
            for t in tests:
                if isinstance(t, ast.Compare) and len(t.ops) == 1 and \
                        isinstance(t.ops[0], (ast.Lt, ast.LtE)) and isinstance(t.left, ast.Name):
                    bound = t.comparators[0]
                    if isinstance(bound, ast.Name) or (
                            isinstance(bound, ast.Call) and dotted(bound.func) == 'len'):
                        idx = t.left.id
                        break
            if idx is None:
                continue
            body_nodes = [x for b in w.body for x in ast.walk(b)]
            positional = any(
                (isinstance(x, ast.Subscript) and any(
                    isinstance(y, ast.Name) and y.id == idx for y in ast.walk(x.slice))
                 and isinstance(x.ctx, ast.Load))
                or (isinstance(x, ast.Call) and isinstance(x.func, ast.Attribute)
                    and x.func.attr in ('startswith', 'match', 'find', 'search')
                    and any(isinstance(y, ast.Name) and y.id == idx
                            for a_ in x.args[1:] for y in ast.walk(a_)))
                for x in body_nodes + list(ast.walk(w.test)))
            if not positional:
                continue
            n += 1
            if cfg is None:
                cfg = CFG(f.node)
            label = f'{f.key}: while {stmt_text(w.test)[:40]} (L{w.lineno})'
            head = [nd for nd in cfg.nodes if nd.kind == 'test' and nd.ast is w.test]
            if not head:
                raise AnalysisError(f'{label}: loop test not located in the CFG')
            inside = {id(x) for x in body_nodes}

            def writes_idx(nd) -> bool:
                return any(t == idx for t, _ in node_writes(nd))
            path = cfg.path_avoiding(
                head, lambda q: q is head[0],
                lambda q: writes_idx(q) or (q.ast is not None and q is not head[0]
                                            and id(q.ast) not in inside
                                            and not any(id(y) in inside for y in ast.walk(q.ast))),
                follow=lambda lb: lb != 'exc')
            # sentinel-valued locals of the function
            checked: set[str] = set()
            for x in walk_local(f.node):
                if isinstance(x, ast.Compare) and len(x.ops) == 1 and isinstance(x.left, ast.Name):
                    c0 = x.comparators[0]
                    v0 = c0.value if isinstance(c0, ast.Constant) else (
                        -c0.operand.value if isinstance(c0, ast.UnaryOp)
                        and isinstance(c0.op, ast.USub) and isinstance(c0.operand, ast.Constant)
                        else None)
                    if v0 in (0, -1):
                        checked.add(x.left.id)

            def sentinel(e: ast.AST) -> bool:
                return isinstance(e, ast.Call) and isinstance(e.func, ast.Attribute) \
                    and e.func.attr in SENTINEL
            sent_locals = {t.id for x in walk_local(f.node) if isinstance(x, ast.Assign)
                           and sentinel(x.value) for t in x.targets if isinstance(t, ast.Name)}
            bad: list[tuple[ast.AST, str]] = []
            for x in body_nodes:
                if isinstance(x, ast.AugAssign) and isinstance(x.target, ast.Name) \
                        and x.target.id == idx:
                    if isinstance(x.op, ast.Sub) or (
                            isinstance(x.value, ast.Constant) and isinstance(x.value.value, int)
                            and x.value.value <= 0):
                        bad.append((x, 'moves the index backwards or not at all'))
                elif isinstance(x, (ast.Assign, ast.NamedExpr)):
                    tg = x.targets if isinstance(x, ast.Assign) else [x.target]
                    if not any(isinstance(t, ast.Name) and t.id == idx for t in tg):
                        continue
                    v = x.value
                    if isinstance(v, ast.Constant):
                        bad.append((x, 'resets the index to a constant'))
                    elif isinstance(v, ast.BinOp) and isinstance(v.op, ast.Sub) \
                            and isinstance(v.left, ast.Name) and v.left.id == idx:
                        bad.append((x, 'moves the index backwards'))
                    elif any(sentinel(y) for y in ast.walk(v)) and idx not in checked:
                        bad.append((x, 'takes the result of a search that is -1 when nothing '
                                       'is found, and the index is never compared with 0 / -1'))
                    elif any(isinstance(y, ast.Name) and y.id in sent_locals - checked
                             for y in ast.walk(v)):
                        bad.append((x, 'takes an unchecked search result (-1 when nothing is '
                                       'found)'))
            res.instances.append(f'{label}: every iteration writes `{idx}`: {path is None}; '
                                 f'writes that may not advance: {len(bad)}')
            if path is None and not bad:
                res.ok()
            if path is not None:
                res.fail(finding('R03.21', f, w, f'iteration without progress of {idx}',
                                 f'an iteration of `while {stmt_text(w.test)[:40]}` can return to '
                                 f'the test without writing `{idx}` '
                                 f'({cfg.fmt_path(path)[:5]}): the loop does not terminate on '
                                 f'that input'))
            for node, why in bad:
                res.fail(finding('R03.21', f, node, f'scan index {stmt_text(node)[:30]}',
                                 f'in the scanning loop `while {stmt_text(w.test)[:40]}` the '
                                 f'statement `{stmt_text(node)[:60]}` {why}: the scan can restart '
                                 f'behind its position and never end'))
    counts['scan_loops'] = n
    if n < 4:
        raise AnalysisError(f'string scanning loops located: {n} < 4')
    return res


def r03_22(ctx, counts) -> RuleResult:
    """the text of a type operand is expanded as a QName under handlers for both of its errors"""
    from .common import try_context, handler_names
    model: Model = ctx.model
    res = RuleResult(
        'R03.22', 'SOURCE-TEXT-QNAME-EXPANSION',
        'namespaces.get_expanded_name raises KeyError for an undeclared prefix and ValueError for '
        'text that is not a QName (a second colon, an empty part). Where its argument is taken '
        'from the *source text* of an operand (`X.source`, directly or through a local, e.g. '
        '`self[1].source.rstrip("*+?")`) the text is not limited to names: the operand of '
        '`instance of` / `treat as` / `cast as` / `castable as` and the argument of '
        'schema-element() / schema-attribute() can be a constructor call whose string argument '
        'contains colons. Every such call lies in the body of a try whose handlers cover KeyError '
        'and ValueError. `1 instance of xs:time("10:00:00")` escaped as a bare ValueError.')
    n = 0
    for f in sorted(model.all_functions(), key=lambda q: q.key):
        if '.validators' in f.module.name:
            continue
        calls = [c for c in walk_local(f.node) if isinstance(c, ast.Call) and c.args
                 and dotted(c.func).split('.')[-1] == 'get_expanded_name']
        if not calls:
            continue
        from_source: set[str] = set()
        for _ in range(2):
            for x in walk_local(f.node):
                if isinstance(x, (ast.Assign, ast.AnnAssign)) and x.value is not None:
                    tg = x.targets if isinstance(x, ast.Assign) else [x.target]
                    if any((isinstance(y, ast.Attribute) and y.attr == 'source')
                           or (isinstance(y, ast.Name) and y.id in from_source)
                           for y in ast.walk(x.value)):
                        from_source |= {t.id for t in tg if isinstance(t, ast.Name)}
        tc = try_context(f.node)
        for c in calls:
            a0 = c.args[0]
            if not any((isinstance(y, ast.Attribute) and y.attr == 'source')
                       or (isinstance(y, ast.Name) and y.id in from_source)
                       for y in ast.walk(a0)):
                continue
            n += 1
            covered: set[str] = set()
            for tr, part in tc.get(id(c), []):
                if part == 'body':
                    for h in tr.handlers:
                        covered |= {x.split('.')[-1] for x in handler_names(model, f.module, h)}
            if covered & {'Exception', 'BaseException'}:
                covered |= {'KeyError', 'ValueError'}
            if 'LookupError' in covered:
                covered.add('KeyError')
            need = [e for e in ('KeyError', 'ValueError') if e not in covered]
            res.instances.append(f'{f.key}: L{c.lineno} `{stmt_text(c)[:50]}` on source text; '
                                 f'handlers cover {sorted(covered)}')
            if not need:
                res.ok()
            else:
                res.fail(finding('R03.22', f, c, f'QName expansion of source text without '
                                                 f'{"/".join(need)}',
                                 f'`{stmt_text(c)[:60]}` expands the source text of an operand; '
                                 f'{" and ".join(need)} from get_expanded_name is not handled here: '
                                 f'a constructor call with colons in its argument in the place of '
                                 f'a type name (xs:time("10:00:00")) escapes as a bare '
                                 f'{need[0]}'))
    counts['source_text_expansions'] = n
    if n < 4:
        raise AnalysisError(f'QName expansions of source text located: {n} < 4')
    return res


ASSERT_SAMPLE = """
class T:
    body = None
    def nud(self):
        if self.parser.next_token.symbol == '*':
            self.label = 'test'
            return self
        self.body = self.parser.expression()
        return self
    def __call__(self, *args):
        assert self.body is not None
        return self.body.evaluate()
"""


def unset_after_nud(cls_node: ast.ClassDef, attr: str) -> Optional[list[str]]:
    """A path of the class's nud from its entry to a `return` that assigns no self.<attr> — or
    None when every returning path assigns it (or the class has no nud)."""
    from ..engine.cfg import CFG, node_writes
    nuds = [b for b in cls_node.body if isinstance(b, ast.FunctionDef) and b.name == 'nud']
    if not nuds:
        return None
    cfg = CFG(nuds[0])
    rets = [nd for nd in cfg.nodes if nd.kind == 'stmt' and isinstance(nd.ast, ast.Return)]
    path = cfg.path_avoiding(
        [cfg.entry], lambda q: q in rets,
        lambda q: any(t == f'self.{attr}' and not (isinstance(v, ast.Constant) and v.value is None)
                      for t, v in node_writes(q)),
        follow=lambda lb: lb != 'exc', skip_start=False)
    return None if path is None else cfg.fmt_path(path)


def r03_23(ctx, counts) -> RuleResult:
    """an attribute the parser may leave unset is not asserted at evaluation time"""
    model: Model = ctx.model
    res = RuleResult(
        'R03.23', 'PARSE-VARIANT-ASSERT',
        'A token class whose nud() builds several variants of the construct (inline function / '
        'function test) leaves an attribute None in some of them. `assert self.A is not None` in '
        'an evaluation method (evaluate, select, __call__, and what they call on self) of such a '
        'class is then a reachable AssertionError, not an invariant: the assert is accepted only '
        'if every path of the class\'s own nud() from its entry to a `return` assigns self.A a '
        'value (CFG must-pass-through), or the assert is reached under a fact that names the '
        'variant (a test of self.label / self.symbol). `for-each(1, function(*))` failed '
        '`assert self.body is not None` in _InlineFunction.__call__.')
    sample = [c for c in ast.walk(ast.parse(ASSERT_SAMPLE)) if isinstance(c, ast.ClassDef)][0]
    if unset_after_nud(sample, 'body') is None:
        raise AnalysisError('R03.23: the unset path of the built-in sample is not recognised')
    from ..engine.cfg import CFG
    from ..engine.dataflow import branch_facts
    n = nc = 0
    for mod in sorted(model.modules.values(), key=lambda q: q.name):
        if '.validators' in mod.name:
            continue
        for cls_node in [c for c in ast.walk(mod.tree) if isinstance(c, ast.ClassDef)]:
            if not any(isinstance(b, ast.FunctionDef) and b.name == 'nud' for b in cls_node.body):
                continue
            nc += 1
            for meth in [b for b in cls_node.body if isinstance(b, ast.FunctionDef)
                         and b.name not in ('nud', 'led', '__init__')]:
                asserts = [a for a in walk_local(meth) if isinstance(a, ast.Assert)
                           and isinstance(a.test, ast.Compare) and len(a.test.ops) == 1
                           and isinstance(a.test.ops[0], ast.IsNot)
                           and isinstance(a.test.comparators[0], ast.Constant)
                           and a.test.comparators[0].value is None
                           and isinstance(a.test.left, ast.Attribute)
                           and isinstance(a.test.left.value, ast.Name)
                           and a.test.left.value.id == 'self']
                if not asserts:
                    continue
                cfg = CFG(meth)
                facts = branch_facts(cfg)
                for a in asserts:
                    n += 1
                    attr = a.test.left.attr
                    path = unset_after_nud(cls_node, attr)
                    hn = [nd for nd in cfg.nodes if nd.ast is a]
                    variant = bool(hn) and any('self.label' in fa or 'self.symbol' in fa
                                               for fa in facts[hn[0].id])
                    label = f'{mod.name}:{cls_node.name}.{meth.name}: assert self.{attr} is not None'
                    res.instances.append(f'{label}: nud always sets it: {path is None}; under a '
                                         f'variant test: {variant}')
                    if path is None or variant:
                        res.ok()
                    else:
                        fi = [g for g in model.all_functions() if g.node is meth]
                        res.fail(finding('R03.23', fi[0] if fi else None, a,
                                         f'assert self.{attr} is not None',
                                         f'{cls_node.name}.nud() can return the token without '
                                         f'assigning self.{attr} ({path[:4]}), so `assert self.'
                                         f'{attr} is not None` in {meth.name}() is a reachable '
                                         f'AssertionError for that variant of the construct',
                                         **({} if fi else {'module': mod})))
    counts['token_classes_with_nud'] = nc
    counts['parse_variant_asserts'] = n
    if nc < 10:
        raise AnalysisError(f'token classes with their own nud located: {nc} < 10')
    return res


def r03_24(ctx, counts) -> RuleResult:
    """a value is not rebuilt in the class of a numeric argument unless it fits that class"""
    from ..engine.cfg import CFG
    from ..engine.dataflow import branch_facts
    from .common import try_context, handler_names
    model: Model = ctx.model
    res = RuleResult(
        'R03.24', 'DYNAMIC-CLASS-RANGE',
        '`type(X)(E)` rebuilds a result in the class of the argument X. For a numeric argument '
        'that class can be a type derived from xs:integer with a range (xs:byte, '
        'xs:positiveInteger, ..) whose constructor raises ValueError for a value outside it. '
        'Every such call in the evaluation code is (a) under a fact that X is not an int '
        '(`isinstance(X, float)`, `not isinstance(X, int)`, the else-arm of a conditional '
        'expression on `isinstance(X, int)`), or (b) E is an integral identity image of X — X '
        'itself, math.floor(X), math.ceil(X), or N.to_integral_value(..) with N = Decimal(X): the '
        'value of an integer is unchanged by them — or (c) inside a try whose handlers cover '
        'ValueError. round(xs:byte(125), -1) rebuilt 130 as an xs:byte.')
    n = 0
    for f in sorted(model.all_functions(), key=lambda q: q.key):
        if not f.module.name.startswith('elementpath.xpath'):
            continue
        calls = [c for c in walk_local(f.node) if isinstance(c, ast.Call) and len(c.args) == 1
                 and isinstance(c.func, ast.Call) and dotted(c.func.func) == 'type'
                 and len(c.func.args) == 1 and isinstance(c.func.args[0], ast.Name)]
        if not calls:
            continue
        cfg = CFG(f.node)
        facts = branch_facts(cfg)
        tc = try_context(f.node)
        parent = {id(ch): p_ for p_ in ast.walk(f.node) for ch in ast.iter_child_nodes(p_)}
        decimals = {t.id: stmt_text(x.value.args[0]) for x in walk_local(f.node)
                    if isinstance(x, ast.Assign) and isinstance(x.value, ast.Call)
                    and dotted(x.value.func).split('.')[-1] == 'Decimal' and len(x.value.args) == 1
                    for t in x.targets if isinstance(t, ast.Name)}
        for c in calls:
            x = c.func.args[0].id
            e = c.args[0]
            n += 1
            holder = [nd for nd in cfg.nodes if nd.ast is not None and nd.kind in ('stmt', 'test')
                      and any(y is c for y in ast.walk(nd.ast))]
            fs = facts[holder[0].id] if holder else set()
            not_int = any(fa in (f'+isinstance({x}, float)', f'-isinstance({x}, int)',
                                 f'+isinstance({x}, Decimal)', f'+isinstance({x}, decimal.Decimal)')
                          for fa in fs)
            p_ = parent.get(id(c))
            while p_ is not None and not isinstance(p_, ast.stmt):
                if isinstance(p_, ast.IfExp) and stmt_text(p_.test) == f'isinstance({x}, int)' \
                        and any(y is c for y in ast.walk(p_.orelse)):
                    not_int = True
                p_ = parent.get(id(p_))
            et = stmt_text(e)
            identity = et == x or et in (f'math.floor({x})', f'math.ceil({x})') or (
                isinstance(e, ast.Call) and isinstance(e.func, ast.Attribute)
                and e.func.attr == 'to_integral_value' and isinstance(e.func.value, ast.Name)
                and decimals.get(e.func.value.id) == x)
            covered: set[str] = set()
            for tr, part in tc.get(id(c), []):
                if part == 'body':
                    for h in tr.handlers:
                        covered |= {z.split('.')[-1] for z in handler_names(model, f.module, h)}
            handled = bool(covered & {'ValueError', 'Exception', 'BaseException'})
            why = 'not an int' if not_int else 'identity image' if identity else \
                'ValueError handled' if handled else None
            res.instances.append(f'{f.key}: L{c.lineno} `{stmt_text(c)[:40]}`: {why}')
            if why:
                res.ok()
            else:
                res.fail(finding('R03.24', f, c, f'type({x})(..) of a computed value',
                                 f'`{stmt_text(c)[:50]}` rebuilds a computed value in the class of '
                                 f'`{x}`, which can be a type derived from xs:integer with a range '
                                 f'(xs:byte, xs:positiveInteger): its constructor raises a bare '
                                 f'ValueError when the value is outside (round(xs:byte(125), -1) '
                                 f'= 130)'))
    counts['dynamic_class_constructions'] = n
    if n < 4:
        raise AnalysisError(f'type(X)(..) constructions located: {n} < 4')
    return res


def run(ctx) -> dict:
    counts: dict[str, int] = {}
    results = [r03_1(ctx, counts), r03_2(ctx, counts), r03_3(ctx, counts), r03_4(ctx, counts),
               r03_5(ctx, counts), r03_6(ctx, counts), r03_7(ctx, counts),
               r03_8(ctx, counts), r03_9(ctx, counts), r03_10(ctx, counts),
               r03_11(ctx, counts), r03_12(ctx, counts), r03_13(ctx, counts),
               r03_14(ctx, counts), r03_15(ctx, counts),
               r03_16(ctx, counts), r03_17(ctx, counts), r03_18(ctx, counts),
               r03_19(ctx, counts), r03_20(ctx, counts),
               r03_21(ctx, counts), r03_22(ctx, counts), r03_23(ctx, counts),
               r03_24(ctx, counts)]
    # "no call hangs": the lock discipline of C19 is a necessary condition (a lock left held on
    # an error path blocks every later evaluation that needs it)
    from . import c19_global
    results += [c19_global.r19_1(ctx, counts), c19_global.r19_2(ctx, counts)]
    return {
        'results': results, 'counts': counts,
        'explanation':
            'Decided statically: (1) every error code used exists and maps to an '
            'ElementPathError class; (2) explicit raise statements in the parser/token/context '
            'layers raise ElementPathError or are converted by an enclosing handler (triaged '
            'exceptions named in the allow table); (3) no assert guards evaluation-derived data '
            'unless a dominating test implies it (class lattice + branch facts on the CFG); '
            '(4) Parser.parse resets every cursor slot in its finally and parse-phase code '
            'restores any other parser attribute it changes; (5) the generated tokenizer is '
            'total (catch-all group + \\s+ residue), its group arity matches advance() and the '
            'whitespace skip test accepts the whole residue language; (6) for "no call hangs": '
            'every lock acquired is released on every exit, error exits included, and no yield '
            'or re-entrant evaluation happens while it is held (rules R19.1/R19.2); (7) every '
            'collection sorted by node position holds nodes only; (8) the division family '
            'covers ZeroDivisionError and decimal.InvalidOperation; (9) URL parsing of evaluated '
            'strings is guarded against ValueError; (10) the math:* functions and div/idiv/mod '
            'guard every double conversion against OverflowError.',
        'not_decided':
            'Implicit exceptions from builtins in general (subscripts, attribute access on '
            'unexpected types, int/float conversions outside the families named above, e.g. '
            'number(10^400), substring("abc", 10^400), count(1 to 10^400)), RecursionError on '
            'deep input (thousands of nested comments, `empty-sequence() and lt`) and termination '
            '(round(1.5, 10^400)) need value reasoning and are not decided.',
        'assumptions': ['phase map from the resolved call graph',
                        'the evaluation sources enumerated in EVAL_SOURCES'],
    }
