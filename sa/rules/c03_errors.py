"""
C03 — only ElementPathError escapes; parsers stay reusable.

R03.1 CODE-TABLE        every error code literal exists in XPATH_ERROR_CODES and maps to an
                        ElementPathError subclass
R03.2 RAISE-DISCIPLINE  explicit raises in the evaluation layers raise ElementPathError (or are
                        caught and converted by the enclosing try)
R03.3 ASSERT-REACH      no assert guards a value that derives from evaluation results unless a
                        dominating test implies it
R03.4 PARSE-STATE       a failed parse leaves no per-instance parser state behind
"""
from __future__ import annotations

import ast
import re
from typing import Optional

from ..engine.srcmodel import AnalysisError, ClassInfo, FuncInfo, Model, dotted, stmt_text, \
    walk_local
from ..engine.cfg import CFG, Node, calls_may_raise
from ..engine.dataflow import branch_facts
from ..engine.taint import Taint, State
from ..engine.callgraph import CallGraph
from ..engine.report import RuleResult, Finding
from .common import finding, try_context, handler_names

CODE = re.compile(r'^(?:err:)?([A-Z]{4}[0-9]{4})$')
FACTORIES = {'error', 'xpath_error', 'wrong_syntax', 'wrong_type', 'wrong_value',
             'missing_context', 'wrong_context_type', 'wrong_sequence_type'}
EVAL_SOURCES = {'select', 'evaluate', 'get_argument', 'atomization', 'get_atomized_operand',
                'get_operands', 'iter_select', 'select_results', 'get_results', 'data_value',
                'number_value', 'string_value', 'select_data_values', 'iter_flatten',
                'select_flatten'}
SCOPE = ('elementpath.tdop', 'elementpath.xpath1', 'elementpath.xpath2', 'elementpath.xpath30',
         'elementpath.xpath31', 'elementpath.xpath_tokens', 'elementpath.xpath_context',
         'elementpath.collations', 'elementpath.compare', 'elementpath.sequence_types',
         'elementpath.serialization', 'elementpath.xpath_selectors')


def in_scope(f: FuncInfo) -> bool:
    return any(f.module.name == s or f.module.name.startswith(s + '.') for s in SCOPE)


# --------------------------------------------------------------------------- R03.1
def r03_1(ctx, counts) -> RuleResult:
    model: Model = ctx.model
    res = RuleResult(
        'R03.1', 'CODE-TABLE',
        'Every string literal of the form AAAA0000 (optionally err:-prefixed) in the package '
        'source, outside the table itself and docstrings, is a key of the XPATH_ERROR_CODES '
        'literal; every class in that table is a subclass of ElementPathError in the class '
        'hierarchy.')
    exm = model.module('elementpath.exceptions')
    table = exm.assigns.get('XPATH_ERROR_CODES')
    if not isinstance(table, ast.Dict):
        raise AnalysisError('XPATH_ERROR_CODES literal not found')
    epe = model.find_class('ElementPathError')
    keys = set()
    for k, v in zip(table.keys, table.values):
        if not isinstance(k, ast.Constant):
            raise AnalysisError('XPATH_ERROR_CODES has a non-literal key')
        keys.add(k.value)
        cls_e = v.elts[0] if isinstance(v, ast.Tuple) else v
        kind, val = model.resolve_expr(exm, cls_e)
        if kind == 'class' and val.is_subclass_of(epe):
            res.ok()
        else:
            res.fail(Finding('R03.1', exm.relpath, '', f'{k.value} class',
                             f'error code {k.value} maps to {stmt_text(cls_e)}, which is not an '
                             f'ElementPathError subclass', k.lineno))
    counts['error_codes_in_table'] = len(keys)
    in_table = {id(n) for n in ast.walk(table)}
    used = 0
    for mod in model.modules.values():
        doc_ids = set()
        for n in ast.walk(mod.tree):
            if isinstance(n, (ast.FunctionDef, ast.ClassDef, ast.Module)) and n.body \
                    and isinstance(n.body[0], ast.Expr) \
                    and isinstance(n.body[0].value, ast.Constant):
                doc_ids.add(id(n.body[0].value))
        for n in ast.walk(mod.tree):
            if isinstance(n, ast.Constant) and isinstance(n.value, str) \
                    and id(n) not in in_table and id(n) not in doc_ids:
                m = CODE.match(n.value)
                if m:
                    used += 1
                    if m.group(1) in keys:
                        res.ok()
                    else:
                        res.fail(Finding('R03.1', mod.relpath, '', f'code {n.value}',
                                         f'error code {n.value!r} is not in XPATH_ERROR_CODES: '
                                         f'xpath_error() raises "unknown XPath error code" '
                                         f'instead of the intended error', n.lineno))
    counts['error_code_literals'] = used
    res.instances.append(f'{len(keys)} codes in the table, {used} code literals in the package')
    return res


# --------------------------------------------------------------------------- R03.2
def r03_2(ctx, counts) -> RuleResult:
    model: Model = ctx.model
    res = RuleResult(
        'R03.2', 'RAISE-DISCIPLINE',
        'Scope: tdop, xpath1/2/30/31, xpath_tokens, xpath_context, collations, compare, '
        'sequence_types, serialization, xpath_selectors. Every `raise` there is (a) an error '
        'factory of the token/exception layer (error, xpath_error, wrong_syntax, wrong_type, '
        'wrong_value, missing_context, …), (b) the construction of an ElementPathError '
        'subclass, (c) a bare re-raise or the re-raise of the caught name inside a handler, or '
        '(d) lexically inside a try whose handler for that class raises (a)/(b). Anything else '
        'is triaged by name in sa/allow.json (definition-time checks, abstract methods, '
        'generic TDOP layer) or reported.')
    epe = model.find_class('ElementPathError')
    tdop_token = model.find_class('Token')
    xtoken = model.find_class('XPathToken')
    cg: CallGraph = ctx.memo('callgraph', lambda: CallGraph(model, ctx.reg))
    dyn, par = ctx.memo('phases', lambda: cg.phases())
    # factories used through `self.` in the generic TDOP layer dispatch to XPathToken overrides
    overridden = {name for name in FACTORIES if name in xtoken.methods}
    res.notes.append(f'TDOP factories overridden by XPathToken: {sorted(overridden)}')

    def converted_lexically(f: FuncInfo, node: ast.AST, cls_name: str, tc=None) -> bool:
        tc = tc if tc is not None else try_context(f.node)
        for tr, part in tc.get(id(node), []):
            if part != 'body':
                continue
            for h in tr.handlers:
                names = [x.split('.')[-1] for x in handler_names(model, f.module, h)]
                if cls_name in names or 'Exception' in names or 'BaseException' in names \
                        or (cls_name in ('KeyError', 'IndexError') and 'LookupError' in names) \
                        or (cls_name == 'NotImplementedError' and 'RuntimeError' in names):
                    return True
        return False

    def converted_by_callers(f: FuncInfo, cls_name: str, depth: int = 0,
                             seen: Optional[set] = None) -> bool:
        """every resolved call site of f (in the analysed phases) converts cls_name."""
        seen = seen if seen is not None else set()
        if f in seen or depth > 3:
            return False
        seen.add(f)
        callers = [c for c in cg.callers.get(f, ()) if c in dyn or c in par]
        if not callers:
            return False
        for c in callers:
            for site in cg.sites.get(c, ()):
                if f not in site.targets:
                    continue
                if converted_lexically(c, site.node, cls_name):
                    continue
                if not converted_by_callers(c, cls_name, depth + 1, seen):
                    return False
        return True

    n = 0
    for f in model.all_functions():
        if not in_scope(f) or not (f in dyn or f in par):
            continue
        tc = try_context(f.node)
        for r in walk_local(f.node):
            if not isinstance(r, ast.Raise):
                continue
            n += 1
            cls_name: Optional[str] = None
            if r.exc is None:
                res.ok()
                continue
            e = r.exc
            if isinstance(e, ast.Name):
                res.ok()
                continue
            if isinstance(e, ast.Call):
                fn = dotted(e.func)
                last = fn.split('.')[-1]
                if last in FACTORIES:
                    in_generic = f.cls is not None and (f.cls is tdop_token
                                                       or f.cls.name in ('Parser',))
                    if in_generic and last != 'error' and last not in overridden:
                        cls_name = f'{last}() of the generic TDOP layer'
                    else:
                        res.ok()
                        continue
                if cls_name is None and isinstance(e.func, (ast.Name, ast.Attribute)):
                    kind, val = model.resolve_expr(f.module, e.func)
                    if kind == 'class':
                        if val.is_subclass_of(epe):
                            res.ok()
                            continue
                        cls_name = val.name
                    else:
                        cls_name = last
            if cls_name is None:
                cls_name = stmt_text(e)[:30]
            # abstract stub: the method body is only the raise
            body = [b for b in f.node.body
                    if not (isinstance(b, ast.Expr) and isinstance(b.value, ast.Constant))]
            if cls_name == 'NotImplementedError' and len(body) == 1 and body[0] is r \
                    and f.cls is not None:
                res.instances.append(f'{f.key}: abstract stub')
                res.ok()
                continue
            conv = converted_lexically(f, r, cls_name, tc)
            how = 'lexically'
            if not conv:
                conv = converted_by_callers(f, cls_name)
                how = 'by every resolved caller'
            res.instances.append(f'{f.key}: raise {cls_name} converted='
                                 f'{how if conv else "NO"}')
            if conv:
                res.ok()
            else:
                res.fail(finding('R03.2', f, r, f'raise {cls_name}',
                                 f'`{stmt_text(r)[:70]}` raises {cls_name}, which is not an '
                                 f'ElementPathError and is converted neither by an enclosing '
                                 f'handler nor by every caller'))
    counts['raise_sites_in_scope'] = n
    return res


# --------------------------------------------------------------------------- R03.3
def class_set(model: Model, mod, e: ast.expr) -> Optional[list]:
    """Resolve the 2nd argument of isinstance to a list of ClassInfo/str, else None."""
    elts = e.elts if isinstance(e, ast.Tuple) else [e]
    out = []
    for x in elts:
        if isinstance(x, (ast.Name, ast.Attribute)):
            kind, val = model.resolve_expr(mod, x)
            if kind == 'class':
                out.append(val)
            elif kind == 'const' and isinstance(val[1], ast.Tuple):
                sub = class_set(model, val[0], val[1])
                if sub is None:
                    return None
                out.extend(sub)
            else:
                out.append(dotted(x))
        else:
            return None
    return out


def implies(model: Model, have: list, want: list) -> bool:
    """every class of `have` is a subclass of some class of `want`."""
    for h in have:
        ok = False
        for w in want:
            if h is w or h == w:
                ok = True
            elif isinstance(h, ClassInfo) and isinstance(w, ClassInfo) and h.is_subclass_of(w):
                ok = True
            elif isinstance(h, ClassInfo) and isinstance(w, str) and h.is_subclass_of(w):
                ok = True
        if not ok:
            return False
    return bool(have)


def r03_3(ctx, counts) -> RuleResult:
    model: Model = ctx.model
    res = RuleResult(
        'R03.3', 'ASSERT-REACH',
        'All assert statements of the package are enumerated. An assert whose subject derives '
        'from evaluation results (forward taint from select/evaluate/get_argument/atomization/'
        'get_operands/…, context.item, context.variables and the value parameters of the '
        'comparison helpers) must be implied by the facts that dominate it in the same function: '
        '`isinstance(x, S)` on the true edge (or its negation leaving by raise/return/continue) '
        'discharges `assert isinstance(x, T)` iff every class of S is a subclass of a class of T '
        '(class lattice of the source model); an XOR of two isinstance tests establishes '
        'membership in the union only. Asserts on other subjects are listed as internal.')
    cg: CallGraph = ctx.memo('callgraph', lambda: CallGraph(model, ctx.reg))
    dyn, par = ctx.memo('phases', lambda: cg.phases())
    total = internal = 0
    for f in model.all_functions():
        asserts = [n for n in walk_local(f.node) if isinstance(n, ast.Assert)]
        if not asserts:
            continue
        cfg = CFG(f.node, calls_may_raise)

        def gen(nd: Node) -> set[str]:
            # x = self.get_argument(…, cls=C, required=True) establishes isinstance(x, C)
            a_ = nd.ast
            if nd.kind == 'stmt' and isinstance(a_, (ast.Assign, ast.AnnAssign)) \
                    and isinstance(a_.value, ast.Call) \
                    and dotted(a_.value.func).endswith('get_argument'):
                tg = a_.targets[0] if isinstance(a_, ast.Assign) else a_.target
                kw = {k.arg: k.value for k in a_.value.keywords}
                if isinstance(tg, ast.Name) and 'cls' in kw \
                        and isinstance(kw.get('required'), ast.Constant) \
                        and kw['required'].value is True:
                    return {f'+isinstance({tg.id}, {stmt_text(kw["cls"])})'}
            return set()
        facts = branch_facts(cfg, gen)
        helper_params: set[str] = set()
        if f in dyn and f.cls is None and f not in cg.bound:
            a = f.node.args
            for p in a.args + a.kwonlyargs:
                if p.annotation is not None and any(
                        t in stmt_text(p.annotation)
                        for t in ('Any', 'ItemType', 'ValueType', 'AtomicType', 'Iterable')):
                    helper_params.add(p.arg)

        def expr_taint(e: ast.AST, st: State, n: Node) -> set[str]:
            if isinstance(e, ast.Call):
                last = dotted(e.func).split('.')[-1]
                if last in EVAL_SOURCES:
                    return {'eval'}
                if last in ('next', 'iter', 'list', 'xlist', 'tuple') and e.args:
                    return T.value_taint(e.args[0], st, n) | T2(e.args[0], st, n)
                return set()
            if isinstance(e, ast.Attribute):
                d = dotted(e)
                if d.endswith('context.item') or d.endswith('.variables'):
                    return {'eval'}
                if isinstance(e.value, ast.Name) and 'eval' in st.get(e.value.id, ()):
                    return {'eval'}      # attribute of an evaluation result (node.value, …)
                return set()
            if isinstance(e, ast.Name) and e.id in helper_params:
                return {'eval'}
            if isinstance(e, ast.Subscript):
                out = T.value_taint(e.value, st, n)
                if not isinstance(e.slice, ast.Slice):
                    for x in ast.walk(e.slice):
                        if isinstance(x, (ast.Name, ast.Attribute)):
                            out = out | T.value_taint(x, st, n)
                return out
            return set()

        def T2(e: ast.AST, st: State, n: Node) -> set[str]:
            return iter_taint(e, st, n)

        def iter_taint(e: ast.AST, st: State, n: Node) -> set[str]:
            out = set(expr_taint(e, st, n))
            if isinstance(e, ast.Name):
                out |= {k for k in st.get(e.id, ()) if k == 'eval'}
            if isinstance(e, ast.Call):
                last = dotted(e.func).split('.')[-1]
                if last in ('zip', 'zip_longest', 'enumerate', 'reversed', 'sorted', 'filter',
                            'map', 'chain', 'iter_object'):
                    for a in e.args:
                        out |= iter_taint(a, st, n)
            return out

        T = Taint.__new__(Taint)
        T.cfg = cfg
        T.expr_taint = expr_taint
        T.iter_taint = iter_taint
        T.state_in = {}
        T._run()

        for a in asserts:
            total += 1
            holder = [n for n in cfg.nodes if n.ast is a]
            if not holder:
                raise AnalysisError(f'{f.key}: assert not located in the CFG')
            hn = holder[0]
            st = T.at(hn)
            fs = facts[hn.id]
            test = a.test
            subj: Optional[ast.AST] = None
            want: Optional[list] = None
            kind = 'other'
            if isinstance(test, ast.Call) and dotted(test.func) == 'isinstance' \
                    and len(test.args) == 2:
                subj, kind = test.args[0], 'isinstance'
                want = class_set(model, f.module, test.args[1])
            elif isinstance(test, ast.Compare) and len(test.ops) == 1 \
                    and isinstance(test.ops[0], ast.IsNot) \
                    and isinstance(test.comparators[0], ast.Constant) \
                    and test.comparators[0].value is None:
                subj, kind = test.left, 'not-none'
            elif isinstance(test, ast.BoolOp):
                subj = test
                kind = 'bool'
            else:
                subj = test
            tainted = False
            for x in ast.walk(subj):
                if isinstance(x, (ast.Name, ast.Attribute, ast.Subscript, ast.Call)):
                    if 'eval' in T.value_taint(x, st, hn):
                        tainted = True
            label = f'{f.key}: assert {stmt_text(test)[:60]}'
            if not tainted:
                internal += 1
                res.instances.append(label + ' [internal]')
                res.ok()
                continue
            discharged = False

            def known_classes(name: str) -> list[list]:
                """class sets S with a dominating fact isinstance(name, S)."""
                out = []
                for fact in fs:
                    if fact.startswith(f'+isinstance({name}, '):
                        try:
                            call = ast.parse(fact[1:], mode='eval').body
                        except SyntaxError:
                            continue
                        have = class_set(model, f.module, call.args[1])  # type: ignore[attr-defined]
                        if have is not None:
                            out.append(have)
                # x = self.get_argument(…, cls=C, required=True) establishes isinstance(x, C)
                for nn in walk_local(f.node):
                    if isinstance(nn, (ast.Assign, ast.AnnAssign)) \
                            and isinstance(nn.value, ast.Call) \
                            and dotted(nn.value.func).endswith('get_argument'):
                        tg = nn.targets[0] if isinstance(nn, ast.Assign) else nn.target
                        if isinstance(tg, ast.Name) and tg.id == name:
                            kw = {k.arg: k.value for k in nn.value.keywords}
                            if 'cls' in kw and isinstance(kw.get('required'), ast.Constant) \
                                    and kw['required'].value is True:
                                have = class_set(model, f.module, kw['cls'])
                                others = [x for x in walk_local(f.node)
                                          if isinstance(x, (ast.Assign, ast.AnnAssign, ast.For))
                                          and x is not nn and any(
                                              isinstance(t, ast.Name) and t.id == name
                                              for t in ast.walk(
                                                  x.targets[0] if isinstance(x, ast.Assign)
                                                  else x.target))]
                                if have is not None and not others and \
                                        cfg.dominated_by(hn, lambda q, nn=nn: q.ast is nn):
                                    out.append(have)
                return out

            if kind == 'isinstance' and want is not None:
                sname = stmt_text(subj)
                for have in known_classes(sname):
                    if implies(model, have, want):
                        discharged = True
                # same class as another value: -X.__class__ != Y.__class__
                for fact in fs:
                    for a_, b_ in ((sname, None),):
                        pass
                    m1 = re.match(r'^-(\w+)\.__class__ != (\w+)\.__class__$', fact)
                    m2 = re.match(r'^\+(\w+)\.__class__ == (\w+)\.__class__$', fact)
                    mm = m1 or m2
                    if mm and sname in mm.groups():
                        other = mm.group(1) if mm.group(2) == sname else mm.group(2)
                        for have in known_classes(other):
                            if implies(model, have, want):
                                discharged = True
                    # XOR over one class set S: not (isinstance(a,S) ^ isinstance(b,S))
                    m3 = re.match(r'^-isinstance\((\w+), (.+)\) \^ isinstance\((\w+), (.+)\)$',
                                  fact)
                    if m3 and m3.group(2) == m3.group(4) and sname in (m3.group(1), m3.group(3)):
                        other = m3.group(1) if m3.group(3) == sname else m3.group(3)
                        try:
                            sset = class_set(model, f.module,
                                             ast.parse(m3.group(2), mode='eval').body)
                        except SyntaxError:
                            sset = None
                        if sset is not None and any(implies(model, have, sset)
                                                    for have in known_classes(other)):
                            # both are in S: implied only if S itself implies `want`
                            if implies(model, sset, want):
                                discharged = True
            elif kind == 'not-none':
                sname = stmt_text(subj)
                if f'-{sname} is None' in fs:
                    discharged = True
            res.instances.append(label + (' [eval-derived, implied]' if discharged
                                          else ' [eval-derived, NOT implied]'))
            res.samples.append({'rule': 'R03.3', 'function': f.key,
                                'assert': stmt_text(test)[:80], 'implied': discharged,
                                'dominating_facts': sorted(fs)[:6]})
            if discharged:
                res.ok()
            else:
                res.fail(finding('R03.3', f, a, f'assert {stmt_text(test)[:50]}',
                                 f'`assert {stmt_text(test)[:70]}` guards a value that comes from '
                                 f'evaluating user expressions and no dominating test implies '
                                 f'it: an ill-typed expression escapes as AssertionError'))
    counts['asserts'] = total
    counts['asserts_internal'] = internal
    return res


# --------------------------------------------------------------------------- R03.4
CURSOR_OK = {'token', 'next_token', 'next_match', 'tokens'}


def r03_4(ctx, counts) -> RuleResult:
    model: Model = ctx.model
    res = RuleResult(
        'R03.4', 'PARSE-STATE',
        '(a) The finally of Parser.parse assigns every slot of Parser.__slots__ other than '
        'source and _start_token. (b) Every assignment to an attribute of the parser instance '
        '(self.parser.X = …, or self.X in a Parser method reachable from parse) in parse-phase '
        'code, where X is not a cursor slot reset by (a), is inside a try whose finally assigns '
        'the same attribute again (restore), or X is a class-level cache documented in the '
        'allow table. (c) Overriding parse methods reach super().parse.')
    parser = model.find_class('Parser')
    parse = parser.methods.get('parse')
    if parse is None:
        raise AnalysisError('Parser.parse vanished')
    slots = model.try_fold(parser.module, parser.attrs.get('__slots__'))   # type: ignore[arg-type]
    if not isinstance(slots, tuple):
        raise AnalysisError('Parser.__slots__ not a literal tuple')
    tries = [n for n in walk_local(parse.node) if isinstance(n, ast.Try) and n.finalbody]
    if not tries:
        res.fail(finding('R03.4', parse, parse.node, 'no finally',
                         'Parser.parse has no try/finally: a failed parse leaves the cursor '
                         'state of the failed expression on the instance'))
        reset: set[str] = set()
    else:
        outer = max(tries, key=lambda t: len(list(ast.walk(t))))
        reset = set()
        for s in outer.finalbody:
            for n in ast.walk(s):
                if isinstance(n, ast.Assign):
                    for t in n.targets:
                        for x in (t.elts if isinstance(t, ast.Tuple) else [t]):
                            if isinstance(x, ast.Attribute) and dotted(x.value) == 'self':
                                reset.add(x.attr)
        # the finally must enclose the tokenisation and the expression() call
        body_calls = {stmt_text(c.func) for s in outer.body for c in ast.walk(s)
                      if isinstance(c, ast.Call)}
        if {'self.advance', 'self.expression'} <= body_calls:
            res.ok()
        else:
            res.fail(finding('R03.4', parse, outer, 'finally scope',
                             'the try/finally of Parser.parse no longer encloses advance() and '
                             'expression()'))
    for s in slots:
        if s in ('source', '_start_token'):
            continue
        res.instances.append(f'Parser slot {s}: reset in finally={s in reset}')
        if s in reset:
            res.ok()
        else:
            res.fail(finding('R03.4', parse, parse.node, f'slot {s} not reset',
                             f'Parser.parse does not reset `{s}` in its finally block: after a '
                             f'failed parse the instance keeps state of the failed expression'))
    counts['parser_slots'] = len(slots)
    # (b) parse-phase writes to parser attributes
    cg: CallGraph = ctx.memo('callgraph', lambda: CallGraph(model, ctx.reg))
    dyn, par = ctx.memo('phases', lambda: cg.phases())
    writes = 0
    parser_classes = [c for c in model.all_classes() if c.is_subclass_of(parser)]
    for f in sorted(par, key=lambda q: q.key):
        is_parser_method = f.cls is not None and f.cls in parser_classes
        if f.name in ('__init__', 'build', 'create_tokenizer') and is_parser_method:
            continue
        tc = try_context(f.node)
        for n in walk_local(f.node):
            tgts: list[ast.AST] = []
            if isinstance(n, ast.Assign):
                for t in n.targets:
                    tgts.extend(t.elts if isinstance(t, ast.Tuple) else [t])
            elif isinstance(n, (ast.AugAssign, ast.AnnAssign)):
                tgts = [n.target]
            elif isinstance(n, ast.For):
                tgts = [n.target]
            for t in tgts:
                if not isinstance(t, ast.Attribute):
                    continue
                recv = dotted(t.value)
                is_parser_recv = recv.endswith('.parser') or recv == 'parser' or \
                    (recv == 'self' and is_parser_method)
                if not is_parser_recv:
                    continue
                writes += 1
                attr = t.attr
                where = f'{f.key}: {recv}.{attr} = …'
                if attr == 'source' and f is parse:
                    res.instances.append(where + ' [source: overwritten by every parse()]')
                    res.ok()
                    continue
                if attr in reset and attr in CURSOR_OK:
                    res.instances.append(where + ' [cursor slot, reset by parse finally]')
                    res.ok()
                    continue
                restored = False
                for tr, part in tc.get(id(n), []):
                    if part in ('body', 'handler', 'orelse') and tr.finalbody:
                        for s in tr.finalbody:
                            for x in ast.walk(s):
                                if isinstance(x, ast.Attribute) and x.attr == attr \
                                        and isinstance(x.ctx, ast.Store):
                                    restored = True
                    if part == 'finalbody':
                        restored = True
                if not restored:
                    # idiom: the write is immediately followed by a try whose finally restores
                    for parent in ast.walk(f.node):
                        for fld in ('body', 'orelse', 'finalbody'):
                            seq = getattr(parent, fld, None)
                            if isinstance(seq, list) and n in seq:
                                i = seq.index(n)
                                if i + 1 < len(seq) and isinstance(seq[i + 1], ast.Try) \
                                        and seq[i + 1].finalbody:
                                    for s2 in seq[i + 1].finalbody:
                                        for x in ast.walk(s2):
                                            if isinstance(x, ast.Attribute) and x.attr == attr \
                                                    and isinstance(x.ctx, ast.Store):
                                                restored = True
                res.instances.append(where + (' [restored in finally]' if restored
                                              else ' [NOT restored]'))
                if restored:
                    res.ok()
                else:
                    res.fail(finding('R03.4', f, n, f'parser.{attr} write',
                                     f'`{stmt_text(n)[:60]}` changes per-instance parser state '
                                     f'in the parse phase and no finally restores it: an error '
                                     f'raised before the matching reset leaves the parser '
                                     f'behaving differently on the next parse() call'))
    counts['parse_phase_parser_writes'] = writes
    # (c) overriding parse methods
    for c in parser_classes:
        if c is parser or 'parse' not in c.methods:
            continue
        m = c.methods['parse']
        sup = any(isinstance(n, ast.Call) and stmt_text(n.func) in ('super().parse',)
                  or (isinstance(n, ast.Call) and stmt_text(n.func).endswith('.parse')
                      and 'super(' in stmt_text(n.func))
                  for n in walk_local(m.node))
        res.instances.append(f'{m.key}: reaches super().parse={sup}')
        if sup:
            res.ok()
        else:
            res.fail(finding('R03.4', m, m.node, 'parse override',
                             f'{c.name}.parse does not call super().parse: the state reset of '
                             f'Parser.parse is bypassed'))
    return res


def run(ctx) -> dict:
    counts: dict[str, int] = {}
    results = [r03_1(ctx, counts), r03_2(ctx, counts), r03_3(ctx, counts), r03_4(ctx, counts)]
    return {
        'results': results, 'counts': counts,
        'explanation':
            'Decided statically: (1) every error code used exists and maps to an '
            'ElementPathError class; (2) explicit raise statements in the parser/token/context '
            'layers raise ElementPathError or are converted by an enclosing handler (triaged '
            'exceptions named in the allow table); (3) no assert guards evaluation-derived data '
            'unless a dominating test implies it (class lattice + branch facts on the CFG); '
            '(4) Parser.parse resets every cursor slot in its finally and parse-phase code '
            'restores any other parser attribute it changes.',
        'not_decided':
            'Implicit exceptions from builtins (int(), subscripts, attribute access on '
            'unexpected types), RecursionError on deep input and termination need value '
            'reasoning and are not decided.',
        'assumptions': ['phase map from the resolved call graph',
                        'the evaluation sources enumerated in EVAL_SOURCES'],
    }
