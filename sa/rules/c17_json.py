"""
C17 — JSON/XML round trips: three table/idiom clauses of the xml-to-json direction only.

R17.1 NUMBER-TEXT       trailing zeros of number text are stripped on exponent-free text only
                        (shared rule, see zerostrip.py) in the JSON/serialization code
R17.2 JSON-ESCAPE-TABLE escape_json_string: every character that RFC 8259 forbids raw in a
                        string is covered; each short escape is the RFC's; the backslash is
                        doubled before any replacement that inserts backslashes
R17.3 UNESCAPE-ONE-PASS unescape_json_string is not a chain of str.replace that contains
                        the escape character's own escape together with other escapes
                        (no order of such a chain is correct)

The round-trip equalities themselves are not decided.
"""
from __future__ import annotations

import ast
from typing import Optional

from ..engine.srcmodel import AnalysisError, FuncInfo, Model, dotted, stmt_text, walk_local
from ..engine.report import RuleResult
from .common import finding
from .zerostrip import zero_strip_rule

RFC8259_SHORT = {'"': '"', '\\': '\\', '/': '/', '\b': 'b', '\f': 'f', '\n': 'n', '\r': 'r',
                 '\t': 't'}
MUST_ESCAPE = {'"', '\\'} | {chr(c) for c in range(1, 0x20)}     # U+0000 is not an XML char


def replace_chain(model: Model, f: FuncInfo) -> list[tuple[ast.Call, object, object]]:
    """all X.replace(A, B) calls of the function in execution order (receiver first)"""
    out = []
    for n in walk_local(f.node):
        if isinstance(n, ast.Call) and isinstance(n.func, ast.Attribute) and \
                n.func.attr == 'replace' and len(n.args) >= 2:
            a = model.try_fold(f.module, n.args[0])
            b = model.try_fold(f.module, n.args[1])
            out.append((n, a, b))

    def depth(c: ast.Call) -> int:
        d = 0
        cur: ast.AST = c.func.value                                   # type: ignore[attr-defined]
        while isinstance(cur, ast.Call) and isinstance(cur.func, ast.Attribute):
            d += 1
            cur = cur.func.value
        return d
    # execution order: by statement line, then inner receiver before outer call
    stmt_line: dict[int, int] = {}
    for st in walk_local(f.node):
        if isinstance(st, ast.stmt):
            for x in ast.walk(st):
                stmt_line.setdefault(id(x), st.lineno)
    out.sort(key=lambda t: (stmt_line.get(id(t[0]), t[0].lineno), depth(t[0])))
    return out


def _single_pass_escape(model: Model, f, res: RuleResult) -> bool:
    """The other form of the escaper: `return P.sub(callback, s)` with a regex that selects the
    characters to escape. Decided on the regex AST: the choice of a character must not depend on
    its neighbours (no look-around, no anchor: the doubling of the backslashes has already run,
    so a quotation mark after a backslash is as much a quotation mark as any other), and the
    characters the pattern can match cover the quotation mark and U+0001-U+001F."""
    import re._parser as sre_parse      # noqa
    import re._constants as sre_c       # noqa
    subs = [c for c in walk_local(f.node) if isinstance(c, ast.Call)
            and isinstance(c.func, ast.Attribute) and c.func.attr == 'sub' and len(c.args) == 2]
    if len(subs) != 1:
        return False
    recv = subs[0].func.value
    pat: Optional[str] = None
    if isinstance(recv, ast.Attribute):
        for cls in model.all_classes():
            if cls.name == dotted(recv.value).split('.')[-1] and recv.attr in cls.attrs:
                v = cls.attrs[recv.attr]
                if isinstance(v, ast.Call) and v.args and isinstance(v.args[0], ast.Constant) \
                        and isinstance(v.args[0].value, str):
                    pat = v.args[0].value
    elif isinstance(recv, ast.Name):
        v = f.module.consts.get(recv.id) if hasattr(f.module, 'consts') else None
        if isinstance(v, ast.Call) and v.args and isinstance(v.args[0], ast.Constant):
            pat = v.args[0].value
    if pat is None:
        return False
    tree = sre_parse.parse(pat)
    context_dependent: list[str] = []
    chars: set[int] = set()

    def visit(items) -> None:
        for op, av in items:
            if op in (sre_c.ASSERT, sre_c.ASSERT_NOT, sre_c.AT):
                context_dependent.append(str(op))
            elif op is sre_c.LITERAL:
                chars.add(av)
            elif op is sre_c.IN:
                for o2, a2 in av:
                    if o2 is sre_c.LITERAL:
                        chars.add(a2)
                    elif o2 is sre_c.RANGE:
                        chars.update(range(a2[0], a2[1] + 1))
            elif op is sre_c.BRANCH:
                for br in av[1]:
                    visit(br)
            elif op is sre_c.SUBPATTERN:
                visit(av[3])
    visit(tree)
    res.instances.append(f'single-pass form: pattern {pat!r}; context-dependent constructs: '
                         f'{context_dependent or None}; characters selected: {len(chars)}')
    need = {ord(c) for c in MUST_ESCAPE if c != '\\'}
    missing = sorted(need - chars)
    if context_dependent:
        res.fail(finding('R17.2', f, subs[0], 'escape pattern with look-around',
                         f'the pattern {pat!r} that selects the characters to escape uses '
                         f'{context_dependent[0]}: whether a character is escaped depends on its '
                         f'neighbour, but RFC 8259 forbids it raw wherever it stands (a quotation '
                         f'mark after a doubled backslash is written raw: "\\\\"" is not JSON)'))
    else:
        res.ok()
    if missing:
        res.fail(finding('R17.2', f, subs[0], f'uncovered U+{missing[0]:04X}',
                         f'the pattern {pat!r} does not select U+{missing[0]:04X}, which RFC 8259 '
                         f'forbids raw in a string'))
    else:
        res.ok()
    return True


def r17_2(ctx, counts) -> RuleResult:
    model: Model = ctx.model
    res = RuleResult(
        'R17.2', 'JSON-ESCAPE-TABLE',
        'helpers.escape_json_string: (a) the characters replaced by its str.replace chain '
        'together with the code-point ranges of its \\uXXXX comprehension cover the double '
        'quote, the backslash and U+0001–U+001F (RFC 8259 §7); (b) every replacement of the '
        'form backslash+letter is the RFC\'s short escape for that character; (c) the '
        'replacement that doubles the backslash is executed before every replacement that '
        'inserts a backslash (otherwise the inserted ones are doubled too).')
    f = model.module('elementpath.helpers').toplevel_function('escape_json_string')
    if f is None:
        raise AnalysisError('helpers.escape_json_string vanished')
    chain = replace_chain(model, f)
    if len(chain) < 4:
        single = _single_pass_escape(model, f, res)
        if single:
            counts['escape_pairs'] = len(chain)
            return res
        raise AnalysisError(f'escape_json_string: replace chain not recognised ({len(chain)})')
    covered: set[str] = set()
    doubled_at: Optional[int] = None
    first_insert: Optional[int] = None
    for i, (call, a, b) in enumerate(chain):
        if not isinstance(a, str) or not isinstance(b, str):
            raise AnalysisError(f'escape_json_string: `{stmt_text(call)[:50]}` not foldable')
        if a == '\\' and b == '\\\\':
            doubled_at = i
            covered.add('\\')
            continue
        if len(a) == 1 and len(b) == 2 and b[0] == '\\':
            covered.add(a)
            if first_insert is None:
                first_insert = i
            want = RFC8259_SHORT.get(a)
            res.instances.append(f'replace {a!r} -> {b!r} (RFC 8259: {("\\" + want) if want else "none"!r})')
            if want is not None and b == '\\' + want:
                res.ok()
            else:
                res.fail(finding('R17.2', f, call, f'escape of {a!r}',
                                 f'`{stmt_text(call)[-40:]}`: {a!r} is replaced by {b!r}; RFC 8259 '
                                 f'defines {("\\" + want) if want else "no short escape"!r} for it, so '
                                 f'an independent JSON parser reads a different string'))
        # other pairs (e.g. un-escaping '\\"' for already escaped input) are not table rows
    ranges: list[tuple[int, int]] = []
    for n in walk_local(f.node):
        if isinstance(n, ast.Compare) and len(n.ops) == 2 and \
                all(isinstance(o, ast.LtE) for o in n.ops) and \
                isinstance(n.comparators[0], ast.Call) and \
                dotted(n.comparators[0].func) == 'ord':
            lo = model.try_fold(f.module, n.left)
            hi = model.try_fold(f.module, n.comparators[1])
            if isinstance(lo, int) and isinstance(hi, int):
                ranges.append((lo, hi))
    for lo, hi in ranges:
        covered |= {chr(c) for c in range(lo, hi + 1)}
    res.instances.append(f'\\uXXXX ranges: {ranges}; replace chain covers '
                         f'{sorted(repr(c) for c in covered if ord(c) > 31 or c in "\b\f\n\r\t")}')
    missing = sorted(MUST_ESCAPE - covered)
    if missing:
        res.fail(finding('R17.2', f, f.node, f'uncovered {[hex(ord(c)) for c in missing][:4]}',
                         f'escape_json_string leaves {len(missing)} character(s) that RFC 8259 '
                         f'forbids raw in a string unescaped, e.g. U+{ord(missing[0]):04X}: the '
                         f'output is not JSON'))
    else:
        res.ok()
    if doubled_at is None:
        res.fail(finding('R17.2', f, f.node, 'backslash not doubled',
                         'no replacement doubles the backslash of unescaped input'))
    elif first_insert is not None and doubled_at > first_insert:
        res.fail(finding('R17.2', f, chain[doubled_at][0], 'backslash doubled late',
                         'the backslash is doubled after a replacement that inserts '
                         'backslashes: those are doubled too (\\n becomes \\\\n)'))
    else:
        res.ok()
    counts['escape_pairs'] = len(chain)
    return res


def r17_3(ctx, counts) -> RuleResult:
    model: Model = ctx.model
    res = RuleResult(
        'R17.3', 'UNESCAPE-ONE-PASS',
        'helpers.unescape_json_string decodes escapes in one left-to-right pass (re.sub with a '
        'callback, or a scanner). A chain of str.replace calls that contains the pair for the '
        'escaped backslash together with any other backslash escape is wrong in every order: '
        'the text backslash-backslash-n (an escaped backslash followed by n) is turned into '
        'backslash + newline.')
    f = model.module('elementpath.helpers').toplevel_function('unescape_json_string')
    if f is None:
        raise AnalysisError('helpers.unescape_json_string vanished')
    chain = replace_chain(model, f)
    pairs = [(a, b) for _, a, b in chain if isinstance(a, str) and isinstance(b, str)]
    has_bs = any(a == '\\\\' for a, _ in pairs)
    others = [a for a, _ in pairs if a != '\\\\' and a.startswith('\\') and len(a) == 2]
    subs = [n for n in walk_local(f.node) if isinstance(n, ast.Call)
            and isinstance(n.func, ast.Attribute) and n.func.attr == 'sub']
    res.instances.append(f'unescape_json_string: {len(pairs)} replace pairs '
                         f'(escaped backslash in chain: {has_bs}, other escapes: {len(others)}), '
                         f'{len(subs)} regex sub call(s)')
    if has_bs and others:
        res.fail(finding('R17.3', f, chain[0][0], 'sequential replace chain',
                         f'unescape_json_string undoes {len(others)} escapes and the escaped '
                         f'backslash with sequential str.replace calls: no order of such a '
                         f'chain is correct (\\\\n decodes to backslash+newline), so distinct '
                         f'keys collide in xml-to-json'))
    elif not pairs and not subs:
        raise AnalysisError('unescape_json_string: neither a replace chain nor a regex pass')
    else:
        # a single-pass decoder: its short-escape table must be the RFC's
        table = None
        for n in ast.walk(model.module('elementpath.helpers').tree):
            if isinstance(n, ast.Dict) and n.keys and all(
                    isinstance(k, ast.Constant) and isinstance(k.value, str) and len(k.value) == 1
                    for k in n.keys) and {'n', 't'} <= {k.value for k in n.keys}:    # type: ignore[union-attr]
                table = {k.value: model.try_fold(model.module('elementpath.helpers'), v)    # type: ignore[union-attr]
                         for k, v in zip(n.keys, n.values)}
        if table is not None:
            want = {v: k for k, v in RFC8259_SHORT.items()}
            bad = {k: v for k, v in table.items() if want.get(k) != v}
            res.instances.append(f'short-escape table: {table}')
            if bad or set(want) - set(table):
                res.fail(finding('R17.3', f, f.node, 'short escape table',
                                 f'the short-escape table differs from RFC 8259: wrong {bad}, '
                                 f'missing {sorted(set(want) - set(table))}'))
            else:
                res.ok()
        res.ok()
    counts['unescape_pairs'] = len(pairs) + len(subs)
    return res


def r17_4(ctx, counts) -> RuleResult:
    from ..engine.cfg import CFG
    model: Model = ctx.model
    res = RuleResult(
        'R17.4', 'DUPLICATE-KEY-NORMAL-FORM',
        'In xml-to-json the duplicate-key test compares keys in one normal form: the text given '
        'to unescape_json_string is the result of escape_json_string (honouring escaped-key), '
        'i.e. on the CFG the definition of its argument that reaches the call is an assignment '
        'from escape_json_string(…). Unescaping the raw attribute value instead makes the '
        'unescaped key "a\\\\nb" collide with "a<newline>b" (false FOJS0006) .')
    mod = model.module('elementpath.xpath31._xpath31_functions')
    n = 0
    for f in sorted(mod.functions.values(), key=lambda q: q.key):
        calls = [c for c in walk_local(f.node) if isinstance(c, ast.Call)
                 and dotted(c.func).split('.')[-1] == 'unescape_json_string' and c.args]
        if not calls:
            continue
        cfg = CFG(f.node)
        for c in calls:
            n += 1
            arg = c.args[0]
            ok = False
            why = ''
            if isinstance(arg, ast.Call) and dotted(arg.func).split('.')[-1] == 'escape_json_string':
                ok, why = True, 'direct composition'
            elif isinstance(arg, ast.Name):
                here = next((nd for nd in cfg.nodes if nd.ast is not None and nd.kind in ('stmt', 'test')
                             and any(y is c for y in ast.walk(
                                 nd.ast.test if isinstance(nd.ast, (ast.If, ast.While)) else nd.ast))),
                            None)
                defs = [nd for nd in cfg.nodes if nd.kind in ('stmt', 'for')
                        and isinstance(nd.ast, (ast.Assign, ast.AnnAssign, ast.For))
                        and any(isinstance(t, ast.Name) and t.id == arg.id for t in ast.walk(
                            nd.ast.targets[0] if isinstance(nd.ast, ast.Assign) else nd.ast.target))]
                if here is None or not defs:
                    raise AnalysisError(f'{f.key}: definitions of `{arg.id}` not located')
                reaching = [d for d in defs if d is not here and cfg.path_avoiding(
                    [d], lambda q: q is here, lambda q, d=d: q in defs and q is not d) is not None]
                kinds = []
                for d in reaching:
                    v = getattr(d.ast, 'value', None)
                    kinds.append(isinstance(v, ast.Call) and
                                 dotted(v.func).split('.')[-1] == 'escape_json_string')
                ok = bool(kinds) and all(kinds)
                why = f'{len(reaching)} reaching definition(s), from escape_json_string: {kinds}'
            res.instances.append(f'{f.key}: {stmt_text(c)[:50]}: {why}')
            if ok:
                res.ok()
            else:
                res.fail(finding('R17.4', f, c, 'unescape of a non-normalised key',
                                 f'`{stmt_text(c)[:50]}` unescapes a key that has not passed '
                                 f'escape_json_string ({why}): keys are compared in two different '
                                 f'forms and distinct keys are reported as duplicates'))
    counts['unescape_calls'] = n
    if n < 1:
        raise AnalysisError('no call of unescape_json_string located in the xpath31 functions')
    return res


def r17_5(ctx, counts) -> RuleResult:
    model: Model = ctx.model
    res = RuleResult(
        'R17.5', 'SERIALIZER-NO-ROUNDING',
        'Serialization writes the value it is given: in elementpath/serialization.py no numeric '
        'value passes a rounding operation — `.quantize(…)`, `round(…)`, or a format '
        'specification with a fixed precision (`%.2f`, `{:.2f}`, format(x, ".2f")). A rounding '
        'step in the serializer changes every value with more digits (serialize(3.14159, json) '
        'gave 3.15), so parse-json(serialize($v)) differs from $v.')
    mod = model.modules.get('elementpath.serialization')
    if mod is None:
        raise AnalysisError('elementpath/serialization.py vanished')
    import re as _re
    prec = _re.compile(r'%[-+ 0#]*\d*\.\d+[feEgG]|\{[^{}]*:[^{}]*\.\d+[feEgG%]?\}|^[^{}]*\.\d+[feEgG%]$')
    n = 0
    funcs = [f for f in model.all_functions() if f.module is mod]
    for f in sorted(funcs, key=lambda q: q.key):
        n += 1
        bad = []
        for x in walk_local(f.node):
            if isinstance(x, ast.Call):
                nm = dotted(x.func).split('.')[-1] if not isinstance(x.func, ast.Attribute) \
                    else x.func.attr
                if nm in ('quantize', 'round', '__round__'):
                    bad.append((x, f'{nm}()'))
                if nm == 'format' and any(isinstance(a, ast.Constant) and isinstance(a.value, str)
                                          and prec.search(a.value) for a in x.args[1:2]):
                    bad.append((x, 'format() with a fixed precision'))
            if isinstance(x, ast.Constant) and isinstance(x.value, str) and prec.search(x.value) \
                    and ('%' in x.value or '{' in x.value):
                bad.append((x, f'format string {x.value!r}'))
            if isinstance(x, ast.FormattedValue) and x.format_spec is not None and \
                    prec.search(stmt_text(x.format_spec).strip("f'\"")):
                bad.append((x, 'f-string with a fixed precision'))
        res.instances.append(f'{f.key}: {len(bad)} rounding operation(s)')
        if not bad:
            res.ok()
        for x, what in bad:
            res.fail(finding('R17.5', f, x, f'{what} in serializer',
                             f'`{stmt_text(x)[:60]}`: {what} in the serializer rounds the value '
                             f'being written (serialize(3.14159, map{{"method":"json"}}) gave '
                             f'3.15): the output no longer denotes the value'))
    counts['serializer_functions'] = n
    if n < 4:
        raise AnalysisError(f'only {n} functions located in elementpath/serialization.py')
    return res


def r17_6(ctx, counts) -> RuleResult:
    model: Model = ctx.model
    res = RuleResult(
        'R17.6', 'SERIALIZER-TEXT-SURGERY',
        'Two idioms that edit serialized text in elementpath/serialization.py are wrong for '
        'every input that is not tiny: (a) `str.rstrip/lstrip/strip(<non-literal>)` removes a SET '
        'of characters, not a suffix — `text.rstrip(elem.tail)` eats the end of the element '
        'when the tail shares characters with it and leaves the escaped form of `&`, `<`, `>` '
        'behind; (b) the chunks returned by `tostringlist()` are arbitrary pieces of the output '
        '(about 8 KiB each for ElementTree): they are joined with the empty string, a separator '
        'lands inside tags and text. Every strip call in the module takes a string literal or '
        'nothing; every join applied to a tostringlist() result uses an empty separator; (c) a '
        'run-time string of the tree matched against serialized text (endswith/startswith/'
        'removesuffix with a non-literal) is matched in its escaped form: the function, or every '
        'caller for it, applies an XML escape function.')
    mod = model.modules.get('elementpath.serialization')
    if mod is None:
        raise AnalysisError('elementpath/serialization.py vanished')
    n = 0
    for f in sorted((g for g in model.all_functions() if g.module is mod), key=lambda q: q.key):
        chunk_names = {t.id for st in walk_local(f.node) if isinstance(st, ast.Assign)
                       and isinstance(st.value, ast.Call)
                       and dotted(st.value.func).split('.')[-1] == 'tostringlist'
                       for t in st.targets if isinstance(t, ast.Name)}
        for c in walk_local(f.node):
            if not (isinstance(c, ast.Call) and isinstance(c.func, ast.Attribute)):
                continue
            if c.func.attr in ('rstrip', 'lstrip', 'strip') and c.args:
                n += 1
                lit = isinstance(c.args[0], ast.Constant)
                res.instances.append(f'{f.key}: `{stmt_text(c)[-50:]}` literal character set={lit}')
                if lit:
                    res.ok()
                else:
                    res.fail(finding('R17.6', f, c, f'{c.func.attr}({stmt_text(c.args[0])[:20]})',
                                     f'`…{stmt_text(c)[-60:]}` strips the characters of a run-time '
                                     f'string as a set: serialize(b) for <a><b>x</b>a&amp;b</a> '
                                     f'gave `<b>x</b>a&amp;`'))
            if c.func.attr == 'join' and c.args and isinstance(c.args[0], ast.Name) \
                    and c.args[0].id in chunk_names:
                n += 1
                sep = c.func.value
                empty = isinstance(sep, ast.Constant) and sep.value in ('', b'')
                res.instances.append(f'{f.key}: tostringlist() chunks joined with '
                                     f'{stmt_text(sep)}: empty={empty}')
                if empty:
                    res.ok()
                else:
                    res.fail(finding('R17.6', f, c, f'chunks joined with {stmt_text(sep)}',
                                     f'`{stmt_text(c)[:50]}` joins the pieces returned by '
                                     f'tostringlist() with {stmt_text(sep)}: the separator lands '
                                     f'inside tags and text of any document larger than one chunk'))
    # (c) a run-time suffix/prefix cut from serialized text is matched in its escaped form
    m = 0
    funcs = [g for g in model.all_functions() if g.module is mod]
    for f in sorted(funcs, key=lambda q: q.key):
        params = [a.arg for a in f.node.args.args]
        for c in walk_local(f.node):
            if not (isinstance(c, ast.Call) and isinstance(c.func, ast.Attribute)
                    and c.func.attr in ('endswith', 'startswith', 'removesuffix', 'removeprefix')
                    and c.args and not isinstance(c.args[0], (ast.Constant, ast.JoinedStr))):
                continue
            recv = stmt_text(c.func.value)
            cuts = c.func.attr.startswith('remove') or any(
                isinstance(y, ast.Subscript) and stmt_text(y.value) == recv
                and isinstance(y.slice, ast.Slice) and 'len(' in stmt_text(y.slice)
                for y in walk_local(f.node))
            if not cuts:
                continue            # a test, not a cut of the text
            m += 1

            def is_escape(e: ast.AST) -> bool:
                return isinstance(e, ast.Call) and 'escape' in dotted(e.func).split('.')[-1]
            inside = any(is_escape(y) for y in walk_local(f.node))
            # or: every caller in the module passes an escaped string for each str parameter
            callers = [y for g in funcs for y in walk_local(g.node) if isinstance(y, ast.Call)
                       and dotted(y.func).split('.')[-1] == f.name and g is not f]
            outside = bool(callers) and all(any(is_escape(a) for a in y.args) or any(
                is_escape(k.value) for k in y.keywords) for y in callers)
            res.instances.append(f'{f.key}: `{stmt_text(c)[:40]}` on serialized text; escaped '
                                 f'form considered in the function={inside} by every caller='
                                 f'{outside} ({len(callers)} callers, parameters {params})')
            if inside or outside:
                res.ok()
            else:
                res.fail(finding('R17.6', f, c, f'raw {c.func.attr}({stmt_text(c.args[0])[:20]})',
                                 f'`{stmt_text(c)[:50]}` matches a string of the tree against '
                                 f'serialized text without its escaped form: a tail containing '
                                 f'& < > is written as &amp; &lt; &gt; and is not removed, so '
                                 f'serialize(b) for <a><b>x</b>a&amp;b</a> keeps the tail and the '
                                 f'output does not parse back'))
    counts['serializer_text_edits'] = n
    counts['serializer_suffix_matches'] = m
    if n < 2:
        raise AnalysisError(f'only {n} strip/join sites located in the serializer')
    if m < 1:
        raise AnalysisError('the tail-removing suffix match of the serializer was not located')
    return res


def _shared(ctx, counts) -> list:
    """is_xml_codepoint decides which characters parse-json / json-to-xml replace (R09.3)"""
    from .c09_strings import r09_3, r09_6
    return [r09_3(ctx, counts), r09_6(ctx, counts)]


def r17_7(ctx, counts) -> RuleResult:
    """NaN / Infinity are rejected by the JSON parsers unless liberal"""
    from ..engine.cfg import CFG
    from ..engine.dataflow import branch_facts
    model: Model = ctx.model
    res = RuleResult(
        'R17.7', 'JSON-CONSTANTS-STRICT',
        'Python\'s json module accepts NaN, Infinity and -Infinity unless a parse_constant hook '
        'rejects them; RFC 7159 (the grammar of fn:parse-json and fn:json-to-xml) does not. In '
        'every function that builds a json.JSONDecoder / calls json.loads, a raising '
        'parse_constant hook is installed on every path on which the `liberal` option is not '
        'established true: the statement that installs it is unconditional or under the fact '
        '`not liberal`, never under `liberal`. (The test was inverted: parse-json("NaN") '
        'returned NaN and parse-json("NaN", map{"liberal": true()}) raised.)')
    n = 0
    for f in sorted(model.all_functions(), key=lambda q: q.key):
        uses = [c for c in walk_local(f.node) if isinstance(c, ast.Call)
                and dotted(c.func) in ('json.JSONDecoder', 'json.loads', 'json.load')]
        if not uses:
            continue
        cfg = CFG(f.node)
        facts = branch_facts(cfg)
        installs = [nd for nd in cfg.nodes if nd.kind == 'stmt' and isinstance(nd.ast, ast.Assign)
                    and any(isinstance(t, ast.Subscript) and isinstance(t.slice, ast.Constant)
                            and t.slice.value == 'parse_constant' for t in nd.ast.targets)]
        kw = [c for c in uses if any(k.arg == 'parse_constant' for k in c.keywords)]
        n += 1
        if kw:
            res.instances.append(f'{f.key}: parse_constant passed as a keyword')
            res.ok()
            continue
        if not installs:
            res.instances.append(f'{f.key}: no parse_constant hook')
            res.fail(finding('R17.7', f, uses[0], 'no parse_constant hook',
                             f'`{stmt_text(uses[0])[:50]}` parses JSON without a parse_constant '
                             f'hook: NaN / Infinity are accepted as numbers'))
            continue
        for nd in installs:
            fs = facts[nd.id]
            pos = [fa for fa in fs if fa.startswith('+') and 'liberal' in fa and ' or ' not in fa]
            ok = not pos
            res.instances.append(f'{f.key}: L{nd.ast.lineno} hook installed under '
                                 f'{sorted(x for x in fs if "liberal" in x)}: strict by '
                                 f'default: {ok}')
            if ok:
                res.ok()
            else:
                res.fail(finding('R17.7', f, nd.ast, 'parse_constant only when liberal',
                                 f'the hook that rejects NaN / Infinity is installed only under '
                                 f'{pos[0]}: without the liberal option the non-JSON constants '
                                 f'are accepted, with it they are rejected'))
    counts['json_parsers'] = n
    if n < 2:
        raise AnalysisError(f'functions that parse JSON located: {n} < 2')
    return res


def r17_8(ctx, counts) -> RuleResult:
    """JSON output: map entries and array members are written by the same rules"""
    model: Model = ctx.model
    res = RuleResult(
        'R17.8', 'JSON-MEMBER-SIBLINGS',
        'In the JSON output method a map entry value and an array member are the same kind of '
        'thing (Serialization 3.1 §9.1.? : an empty sequence is written as null). In the encoder '
        'of serialization.serialize_to_json the branch for XPathMap and the branch for XPathArray '
        'both map an empty sequence to None: each contains a conditional that yields None for '
        'an empty list, or both call the same local helper that does. (The array branch did, the '
        'map branch did not: serialize(map{"a": ()}) was {"a":[]}.) Duplicate names are detected '
        'on the names as written: the membership test of the duplicate check is applied to a '
        'string form of the key, not to the key itself (1 and "1" are both "1").')
    mod = model.module('elementpath.serialization')
    top = mod.toplevel_function('serialize_to_json')
    if top is None:
        raise AnalysisError('serialization.serialize_to_json vanished')
    default = [g for g in mod.functions.values() if g.name == 'default' and g.cls is not None
               and g.parent is top or (g.name == 'default' and g.cls is not None
                                       and g.cls.name == 'XPathEncoder')]
    if not default:
        raise AnalysisError('serialize_to_json: XPathEncoder.default not located')
    d = default[0]
    helpers = {g.name: g for g in mod.functions.values() if g.parent is top and g.cls is None}

    def yields_none_for_empty(node: ast.AST) -> bool:
        for x in ast.walk(node):
            if isinstance(x, ast.IfExp) and any(
                    isinstance(b, ast.Constant) and b.value is None for b in (x.body, x.orelse)):
                return True
            if isinstance(x, ast.If) and any(
                    isinstance(c_, ast.Constant) and c_.value is None
                    for b in x.body + x.orelse for st_ in ast.walk(b)
                    for c_ in ([st_.value] if isinstance(st_, (ast.Return, ast.Assign))
                               and st_.value is not None else
                               (st_.args if isinstance(st_, ast.Call) else []))):
                return True
        return False
    helper_ok = {n_: yields_none_for_empty(g.node) for n_, g in helpers.items()}
    branches = {}
    for st in ast.walk(d.node):
        if isinstance(st, ast.If) and isinstance(st.test, ast.Call) \
                and dotted(st.test.func) == 'isinstance' and len(st.test.args) == 2:
            cname = stmt_text(st.test.args[1])
            if cname in ('XPathMap', 'XPathArray'):
                branches[cname] = st.body
    if set(branches) != {'XPathMap', 'XPathArray'}:
        raise AnalysisError(f'XPathEncoder.default: branches located {sorted(branches)}')
    n = 0
    for cname, body in sorted(branches.items()):
        n += 1
        own = any(yields_none_for_empty(b) for b in body)
        via = [c for b in body for c in ast.walk(b) if isinstance(c, ast.Call)
               and isinstance(c.func, ast.Name) and helper_ok.get(c.func.id)]
        ok = own or bool(via)
        res.instances.append(f'{d.key}: branch {cname}: empty sequence -> null: {ok}')
        if ok:
            res.ok()
        else:
            res.fail(finding('R17.8', d, body[0], f'{cname}: empty sequence not written as null',
                             f'the {cname} branch of the JSON encoder writes its members as they '
                             f'are: an empty sequence becomes [] instead of null, unlike in the '
                             f'sibling branch'))
    # duplicate names on the written form
    mb = branches['XPathMap']
    tests = [x for b in mb for x in ast.walk(b) if isinstance(x, ast.Compare) and len(x.ops) == 1
             and isinstance(x.ops[0], (ast.In, ast.NotIn))]
    loop_keys = {t.elts[0].id for b in mb for lp in ast.walk(b) if isinstance(lp, ast.For)
                 for t in [lp.target] if isinstance(t, ast.Tuple) and t.elts
                 and isinstance(t.elts[0], ast.Name)}
    for t in tests:
        n += 1
        raw = isinstance(t.left, ast.Name) and t.left.id in loop_keys
        res.instances.append(f'{d.key}: duplicate check `{stmt_text(t)[:40]}` on the written '
                             f'name: {not raw}')
        if not raw:
            res.ok()
        else:
            res.fail(finding('R17.8', d, t, 'duplicate names checked on the keys',
                             f'`{stmt_text(t)[:40]}` looks the key itself up: the keys 1 and "1" '
                             f'are different keys but the same JSON name, so {{"1":..,"1":..}} is '
                             f'written without SERE0022'))
    counts['json_member_rules'] = n
    return res


def run(ctx) -> dict:
    counts: dict[str, int] = {}

    def json_scope(f: FuncInfo) -> bool:
        return f.module.name in ('elementpath.serialization',
                                 'elementpath.xpath31._xpath31_functions',
                                 'elementpath.xpath30._xpath30_functions')
    r1 = zero_strip_rule(ctx, 'R17.1', json_scope, counts)
    if not r1.instances:
        raise AnalysisError('R17.1: no trailing-zero strip located in the JSON/serialization code')
    # the JSON/serialization functions are pure functions of their arguments: no store on the
    # function token (R05.1 restricted to them) and no process-wide state in the serializer
    from .c05_purity import r05_1
    from .c19_global import r19_5
    json_funcs: set[str] = set()
    for rec in ctx.reg.all_records():
        if rec.symbol in ('serialize', 'parse-json', 'json-doc', 'xml-to-json', 'json-to-xml'):
            for slot in ('evaluate', 'select'):
                ref = rec.method(slot)
                if ref is not None and ref.func is not None and ref.origin != 'class':
                    json_funcs.add(ref.func.key)
    if len(json_funcs) < 4:
        raise AnalysisError(f'only {len(json_funcs)} JSON/serialization functions located')
    pure = r05_1(ctx, counts, only=json_funcs, rule='R05.1')
    state = r19_5(ctx, counts, lambda f: f.module.name == 'elementpath.serialization', 0)
    return {
        'results': [r1, r17_2(ctx, counts), r17_3(ctx, counts), r17_4(ctx, counts), r17_5(ctx, counts),
                    r17_6(ctx, counts), r17_7(ctx, counts), r17_8(ctx, counts),
                    pure, state]
        + _shared(ctx, counts),
        'counts': counts,
        'explanation':
            'Three necessary conditions of "xml-to-json(json-to-xml(t)) denotes the same JSON '
            'value as t and is accepted by an independent JSON parser": number text keeps its '
            'exponent when insignificant zeros are stripped; the string escaper covers every '
            'character RFC 8259 forbids raw, with the RFC\'s short escapes, backslash first; '
            'the unescaper used for duplicate-key detection is a single pass.',
        'not_decided':
            'The round-trip equalities (parse-json∘serialize, xml-to-json∘json-to-xml, '
            'parse-xml∘serialize) relate independent implementations through the values they '
            'produce and are not decided; nor are the duplicates/escape/fallback options. Decided '
            'necessary conditions: no rounding and no text surgery (character-set strip, separator '
            'joins) in the serializer, escape tables, exponent-safe zero stripping, purity of the '
            'JSON functions.',
        'assumptions': ['RFC 8259 §7 short escapes and mandatory escapes (table in the rule module)'],
    }
