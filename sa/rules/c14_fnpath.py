"""
C14 — fn:path and node paths: necessary conditions for produced paths to parse back.

R14.1 NAME-POSITION  kind tests accept a name through the disambiguating parser.expected_next
R14.2 PATH-TEMPLATE  path/name_path properties interpolate their templates
"""
from __future__ import annotations

import ast
import re

from ..engine.srcmodel import AnalysisError, Model, dotted, stmt_text, walk_local
from ..engine.regmodel import RegModel
from ..engine.report import RuleResult
from .common import finding

TEMPLATE = re.compile(r'\{[A-Za-z_][A-Za-z_0-9.]*\}')


def r14_1(ctx, counts: dict[str, int]) -> RuleResult:
    model: Model = ctx.model
    reg: RegModel = ctx.reg
    res = RuleResult(
        'R14.1', 'NAME-POSITION',
        'In the nud of every kind-test token (label contains "kind test"; the node tests that '
        'fn:path emits), wherever the code states that a name is acceptable for the NEXT token '
        '(the literal \'(name)\' among the symbols of an expectation call whose receiver is the '
        'parser\'s next_token), the call must be parser.expected_next(…), which rewrites '
        'keyword-like tokens (div, mod, union, …, function proxies such as pi) into names, and '
        'not next_token.expected(…), which rejects them. Both helpers are re-read on every run '
        'to confirm that this is still what distinguishes them.')
    # confirm the helper semantics
    p1 = model.find_class('XPath1Parser')
    en = p1.methods.get('expected_next')
    if en is None:
        raise AnalysisError('XPath1Parser.expected_next vanished')
    rewrites = any(isinstance(n, ast.Assign) and any(dotted(t) == 'self.next_token'
                                                     for t in n.targets)
                   for n in walk_local(en.node))
    mentions_name = any(isinstance(n, ast.Constant) and n.value == '(name)'
                        for n in walk_local(en.node))
    if not (rewrites and mentions_name):
        raise AnalysisError('XPath1Parser.expected_next no longer replaces the next token by a '
                            '(name) token: rule R14.1 must be re-derived')
    tok = model.find_class('XPathToken')
    ex = tok.methods.get('expected')
    if ex is None:
        raise AnalysisError('XPathToken.expected vanished')
    if any(isinstance(n, ast.Assign) for n in walk_local(ex.node)) or \
            not any(isinstance(n, ast.Raise) for n in walk_local(ex.node)):
        raise AnalysisError('XPathToken.expected changed shape: rule R14.1 must be re-derived')
    res.notes.append('expected_next rewrites next_token into a (name) token; expected only '
                     'raises')
    nuds = {}
    for rec in reg.all_records():
        labels = rec.label_values or ((rec.get(model, 'label'),)
                                      if isinstance(rec.get(model, 'label'), str) else ())
        lab = rec.get(model, 'label')
        labs = lab if isinstance(lab, tuple) else (lab,)
        del labels
        if not any(isinstance(x, str) and 'kind test' in x for x in labs):
            continue
        nud = rec.method('nud')
        if nud is not None:
            nuds[nud.func] = nuds.get(nud.func, []) + [rec.symbol]
    counts['kind_test_nuds'] = len(nuds)
    sites = 0
    others = []
    for f, syms in sorted(nuds.items(), key=lambda kv: kv[0].key):
        aliases = {t.id for n in walk_local(f.node) if isinstance(n, ast.Assign)
                   and stmt_text(n.value).endswith('parser.next_token')
                   for t in n.targets if isinstance(t, ast.Name)}
        for n in walk_local(f.node):
            if not (isinstance(n, ast.Call) and isinstance(n.func, ast.Attribute)):
                continue
            if not any(isinstance(a, ast.Constant) and a.value == '(name)' for a in n.args):
                continue
            recv = dotted(n.func.value)
            if n.func.attr == 'expected_next':
                sites += 1
                res.instances.append(f'{f.key} ({",".join(sorted(set(syms)))}): '
                                     f'expected_next at L{n.lineno}')
                res.ok()
            elif n.func.attr == 'expected' and (recv.endswith('parser.next_token')
                                                or recv in aliases):
                sites += 1
                res.instances.append(f'{f.key}: next_token.expected at L{n.lineno}')
                res.fail(finding('R14.1', f, n, f'{sorted(set(syms))[0]}: next_token.expected',
                                 f'kind test {sorted(set(syms))}: a name is expected here but '
                                 f'next_token.expected(…) rejects names that are also keywords '
                                 f'or function proxies (e.g. '
                                 f'{sorted(set(syms))[0]}(div)); use parser.expected_next(…)'))
        res.samples.append({'rule': 'R14.1', 'nud': f.key, 'symbols': sorted(set(syms))})
    counts['name_positions'] = sites
    # informational: the same idiom outside kind tests
    for f in model.all_functions():
        if f in nuds:
            continue
        for n in walk_local(f.node):
            if isinstance(n, ast.Call) and isinstance(n.func, ast.Attribute) \
                    and n.func.attr == 'expected' \
                    and any(isinstance(a, ast.Constant) and a.value == '(name)' for a in n.args) \
                    and 'next_token' in dotted(n.func.value):
                others.append(f'{f.key}:L{n.lineno}')
    if others:
        res.notes.append(f'same idiom outside kind tests (not a C14 condition): {others}')
    return res


def r14_2(ctx, counts: dict[str, int]) -> RuleResult:
    model: Model = ctx.model
    res = RuleResult(
        'R14.2', 'PATH-TEMPLATE',
        'Every string returned by a property or function named path / name_path / '
        'extended_path (node classes, etree_iter_paths helpers) that contains a brace '
        'placeholder {identifier…} is an f-string (ast.JoinedStr) or the receiver of .format(); '
        'a plain constant would return the literal template text.')
    n = 0
    for f in model.all_functions():
        if f.name not in ('path', 'name_path', 'extended_path', 'etree_iter_paths'):
            continue
        for r in walk_local(f.node):
            if not isinstance(r, (ast.Return, ast.Yield)) or r.value is None:
                continue
            for c in ast.walk(r.value):
                if isinstance(c, ast.JoinedStr):
                    n += 1
                    res.ok()
                    res.instances.append(f'{f.key}: f-string at L{c.lineno}')
                elif isinstance(c, ast.Constant) and isinstance(c.value, str):
                    n += 1
                    if TEMPLATE.search(c.value) and not _is_format_receiver(r.value, c) \
                            and not _inside_joined(r.value, c):
                        res.fail(finding('R14.2', f, c, f'template {c.value[:40]}',
                                         f'{f.qualname} returns the plain string {c.value!r}: '
                                         f'the placeholder is never interpolated (missing f '
                                         f'prefix), so the path cannot select the node'))
                    else:
                        res.ok()
    counts['path_strings'] = n
    return res


def _is_format_receiver(root: ast.AST, c: ast.Constant) -> bool:
    for n in ast.walk(root):
        if isinstance(n, ast.Call) and isinstance(n.func, ast.Attribute) \
                and n.func.attr == 'format' and n.func.value is c:
            return True
        if isinstance(n, ast.BinOp) and isinstance(n.op, ast.Mod) and n.left is c:
            return True
    return False


def _inside_joined(root: ast.AST, c: ast.Constant) -> bool:
    for n in ast.walk(root):
        if isinstance(n, ast.JoinedStr) and any(v is c for v in n.values):
            return True
    return False


def r14_3(ctx, counts) -> RuleResult:
    model = ctx.model
    res = RuleResult(
        'R14.3', 'PREFIX-STRIP',
        'Where fn:path (and the path helpers) cut the path of the root off the path of a node, '
        'the prefix is removed by slicing (`p[len(prefix):]`), `str.removeprefix`, or '
        '`replace(prefix, "", 1)`: `str.replace(prefix, "")` removes every occurrence, so a '
        'nested element with the same name as the root (div/p/div) loses its own step and two '
        'nodes share one path.')
    n = 0
    funcs = [f for f in model.all_functions()
             if f.name in ('evaluate__path',) or (f.name in ('path', 'get_path') and
                                                  f.module.name == 'elementpath.xpath_nodes')]
    for f in sorted(funcs, key=lambda q: q.key):
        for c in walk_local(f.node):
            if isinstance(c, ast.Call) and isinstance(c.func, ast.Attribute) and \
                    c.func.attr == 'replace' and len(c.args) >= 2 and \
                    isinstance(c.args[1], ast.Constant) and c.args[1].value == '' and \
                    'path' in stmt_text(c.args[0]):
                n += 1
                bounded = len(c.args) >= 3 and isinstance(c.args[2], ast.Constant) and \
                    c.args[2].value == 1
                res.instances.append(f'{f.key}: {stmt_text(c)[:60]} count=1: {bounded}')
                if bounded:
                    res.ok()
                else:
                    res.fail(finding('R14.3', f, c, 'prefix removed with replace()',
                                     f'`{stmt_text(c)[:60]}` removes every occurrence of the root '
                                     f'path, not only the prefix: in <div><p><div/></p></div> the '
                                     f'inner div gets the path of <p>'))
        slices = [x for x in walk_local(f.node) if isinstance(x, ast.Subscript)
                  and isinstance(x.slice, ast.Slice) and x.slice.lower is not None
                  and 'len(' in stmt_text(x.slice.lower) and 'path' in stmt_text(x.slice.lower)]
        for x in slices:
            n += 1
            res.instances.append(f'{f.key}: {stmt_text(x)[:60]} (slice)')
            res.ok()
    counts['prefix_strips'] = n
    if n < 1:
        raise AnalysisError('fn:path: the removal of the root path prefix was not located')
    return res


NAMED_KINDS = ('ElementNode', 'ProcessingInstructionNode')


def r14_4(ctx, counts) -> RuleResult:
    """the [n] of a path step counts the preceding siblings the step itself would select"""
    from ..engine.cfg import CFG
    from ..engine.dataflow import branch_facts
    model: Model = ctx.model
    res = RuleResult(
        'R14.4', 'PATH-POSITION-SAME-STEP',
        'fn:path writes each step as <test>[n] where n is one plus the number of preceding '
        'siblings that the same test selects: elements with the same name, processing '
        'instructions with the same target, text nodes, comments. In get_child_position (the '
        'counter behind every path property) each increment of the position is therefore '
        'dominated by (a) a test of the KIND of the sibling — an isinstance whose subject is the '
        'loop variable — and (b), when the counted child can be of a named kind (element, '
        'processing instruction: the kinds whose path step carries a name), the equality of the '
        'two names. Without (a) <?pi?><pi/> gives Q{}pi[2]; without (b) the second of <?a?><?b?> '
        'is processing-instruction(b)[2]. In both cases the path selects nothing or another node.')
    f = None
    for c in model.all_classes():
        if c.name == 'XPathNode' and 'get_child_position' in c.methods:
            f = c.methods['get_child_position']
    if f is None:
        raise AnalysisError('XPathNode.get_child_position vanished')
    params = f.params()
    child = params[1]
    loops = [x for x in walk_local(f.node) if isinstance(x, ast.For) and isinstance(x.target, ast.Name)]
    if not loops:
        raise AnalysisError(f'{f.key}: no loop over the siblings')
    sibs = sorted({lp.target.id for lp in loops})                 # type: ignore[union-attr]
    # local aliases of the counted child's name (`name = child.name`)
    name_alias = [t.id for x in walk_local(f.node) if isinstance(x, ast.Assign)
                  and stmt_text(x.value) == f'{child}.name'
                  for t in x.targets if isinstance(t, ast.Name)]
    child_names = [f'{child}.name'] + name_alias
    cfg = CFG(f.node)
    facts = branch_facts(cfg)
    n = 0
    from ..engine.dataflow import cond_facts
    sites: list[tuple[ast.AST, frozenset]] = []
    for nd in cfg.nodes:
        a = nd.ast
        if nd.kind != 'stmt' or not isinstance(a, ast.AugAssign) or not isinstance(a.op, ast.Add):
            continue
        fs0 = facts[nd.id]
        # `flag = <condition>` in several branches, then `if flag: pos += 1`: every definition
        # of the flag is an increment site guarded by its own branch facts and its condition
        flags = [fa[1:] for fa in fs0 if fa.startswith('+') and fa[1:].isidentifier()]
        defs = [q for q in cfg.nodes if q.kind == 'stmt' and isinstance(q.ast, ast.Assign)
                and len(q.ast.targets) == 1 and isinstance(q.ast.targets[0], ast.Name)
                and q.ast.targets[0].id in flags]
        if defs:
            for q in defs:
                sites.append((q.ast, frozenset(facts[q.id]) | frozenset(cond_facts(q.ast.value, True))))
        else:
            sites.append((a, frozenset(fs0)))
    for a, fs in sites:
        n += 1
        kind = any(fa.startswith(f'+isinstance({sib}, ') for fa in fs for sib in sibs)
        named = any(f'+{sib}.name == {cn}' in fs or f'+{cn} == {sib}.name' in fs
                    for sib in sibs for cn in child_names)
        # kinds of `child` still possible at this increment
        excluded = {k for k in NAMED_KINDS if any(
            fa.startswith(f'-isinstance({child}, ') and k in fa for fa in fs)}
        selected = {k for k in NAMED_KINDS if any(
            fa.startswith(f'+isinstance({child}, ') and k in fa for fa in fs)}
        may_be_named = bool(selected) or len(excluded) < len(NAMED_KINDS)
        if any(f'+{cn} is None' in fs for cn in child_names):
            may_be_named = False        # a child without a name is not an element or a PI
        res.instances.append(f'{f.key}: `{stmt_text(a)}` sibling kind tested={kind} names equal='
                             f'{named} child may be element/PI={may_be_named}')
        if not kind:
            res.fail(finding('R14.4', f, a, 'sibling counted whatever its kind',
                             f'`{stmt_text(a)}` counts a sibling without testing its kind (facts: '
                             f'{sorted(fs)[:3]}): a processing instruction whose target equals the '
                             f'element name is counted, <a><?pi x?><pi/></a> gives Q{{}}pi[2]'))
        elif may_be_named and not named:
            res.fail(finding('R14.4', f, a, 'named kind counted whatever its name',
                             f'`{stmt_text(a)}` can count siblings of a named kind (element or '
                             f'processing instruction) without comparing the names: the second '
                             f'of <?a?><?b?> gets processing-instruction(b)[2]'))
        else:
            res.ok()
    counts['position_increments'] = n
    if n < 2:
        raise AnalysisError(f'{f.key}: only {n} position increments located')
    return res

def r14_7(ctx, counts) -> RuleResult:
    """etree_iter_paths: the counter behind `step[n]` is keyed by what the step names"""
    model: Model = ctx.model
    res = RuleResult(
        'R14.7', 'STEP-COUNTER-KEY',
        'etree_iter_paths writes `<step>[n]` with n read from a counter `C[K]`. When the text of '
        'the step interpolates a variable (the PI target in processing-instruction({name}), '
        'directly or through a local string built from it), two siblings with different values '
        'of that variable are selected by different steps and must not share a counter: the key '
        'K mentions that variable or the expression it was read from. A single counter keyed by '
        'child.tag (the same factory function for every PI) numbers <?a?><?b?> as a[1], b[2]: '
        'the second path selects nothing.')
    mod = model.modules.get('elementpath.etree')
    f = mod.toplevel_function('etree_iter_paths') if mod is not None else None
    if f is None:
        raise AnalysisError('elementpath.etree.etree_iter_paths vanished')
    assigns: dict[str, list[ast.expr]] = {}
    for x in walk_local(f.node):
        if isinstance(x, ast.Assign):
            for t in x.targets:
                if isinstance(t, ast.Name):
                    assigns.setdefault(t.id, []).append(x.value)

    def step_vars(e: ast.AST, depth: int = 0) -> set[str]:
        """variables a piece of step text depends on (through local string temporaries)"""
        out: set[str] = set()
        for y in ast.walk(e):
            if isinstance(y, ast.Name) and isinstance(y.ctx, ast.Load):
                defs = assigns.get(y.id, [])
                strs = [d for d in defs if isinstance(d, (ast.JoinedStr, ast.Constant))]
                if strs and len(strs) == len(defs) and depth < 3:
                    for d in strs:
                        out |= step_vars(d, depth + 1)
                else:
                    out.add(y.id)
        return out
    n = 0
    for js in [x for x in walk_local(f.node) if isinstance(x, ast.JoinedStr)]:
        parts = js.values
        for i, part in enumerate(parts):
            if not (isinstance(part, ast.FormattedValue) and isinstance(part.value, ast.Subscript)
                    and i > 0 and isinstance(parts[i - 1], ast.Constant)
                    and str(parts[i - 1].value).endswith('[')):
                continue
            key = stmt_text(part.value.slice)
            # the step: everything after the last '/' before the '['
            step_parts: list[ast.AST] = []
            for q in reversed(parts[:i]):
                if isinstance(q, ast.Constant) and '/' in str(q.value):
                    step_parts.append(ast.Constant(str(q.value).rsplit('/', 1)[1]))
                    break
                step_parts.append(q)
            names = set()
            for q in step_parts:
                names |= step_vars(q)
            names -= {'path'}
            n += 1
            missing = []
            for v in sorted(names):
                srcs = [stmt_text(d) for d in assigns.get(v, [])]
                origins = {stmt_text(a) for d in assigns.get(v, []) for a in ast.walk(d)
                           if isinstance(a, ast.Attribute)}
                if v not in key and not any(o in key for o in origins):
                    missing.append(v)
            res.instances.append(f'{f.key}: L{js.lineno} position read from `{stmt_text(part.value)}`'
                                 f'; step depends on {sorted(names)}; not in the key: {missing}')
            if missing:
                res.fail(finding('R14.7', f, js, f'counter key {key}',
                                 f'the step of `{stmt_text(js)[:60]}` depends on {missing} but its '
                                 f'position is counted per `{key}`: siblings that differ in '
                                 f'{missing} share one numbering, so <?a?><?b?> gives '
                                 f'processing-instruction(b)[2], which selects nothing'))
            else:
                res.ok()
    counts['step_counters'] = n
    if n < 2:
        raise AnalysisError(f'{f.key}: only {n} `[{{C[K]}}]` position parts located (2 confirmed)')
    return res


def run(ctx) -> dict:
    counts: dict[str, int] = {}
    results = [r14_1(ctx, counts), r14_2(ctx, counts), r14_3(ctx, counts), r14_4(ctx, counts)]
    # a name step of a generated path selects elements only (a PI whose target is the name of
    # a sibling element must not be counted): the axis/name-test domain rule of C01
    from .c01_paths import r01_6_names
    r5 = r01_6_names(ctx, counts)
    r5.title = 'NAME-TEST-KIND (R14.5 = R01.6(c)(d): name steps select by name and kind)'
    results.append(r5)
    # etree_iter_paths and node.path number siblings per level: an iterative walk keeps the
    # per-level counters on its stack
    from .c02_trees import r02_8
    r6 = r02_8(ctx, counts)
    r6.title = 'EXPLICIT-STACK-STATE-COMPLETE (R14.6 = R02.8)'
    results.append(r6)
    results.append(r14_7(ctx, counts))
    return {
        'results': results, 'counts': counts,
        'explanation':
            'Two necessary conditions for a path produced by fn:path / node.path to parse back '
            'are decided statically: the kind tests that such paths contain accept every NCName '
            'in their name positions (they use the disambiguating parser.expected_next), and '
            'the path templates of the node classes are interpolated (f-strings).',
        'not_decided':
            'That the path selects exactly the node in general (uniqueness under namespaces with '
            'unusual URIs, fragments, etree_iter_paths equality). Decided: the [n] of a step counts '
            'preceding siblings of the same kind and name only.',
        'assumptions': ['kind tests are the tokens whose label contains "kind test" in the '
                        'registration model'],
    }
