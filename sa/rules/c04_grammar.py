"""
C04 — token trees realise the grammar: precedence and associativity clause.

R04.1 BP-TABLE        binding powers recovered by the registration model vs the W3C EBNF levels
R04.2 NONASSOC-GUARD  non-associative levels reject chaining, left-associative ones accept it
"""
from __future__ import annotations

import ast
import json
import os
from typing import Any, Optional

from ..engine.srcmodel import AnalysisError, Unfoldable, dotted, stmt_text, walk_local
from ..engine.regmodel import RegModel, TokenRecord, UNFOLDED, MethodRef
from ..engine.report import RuleResult, Finding
from .common import finding

SPEC = os.path.join(os.path.dirname(os.path.dirname(os.path.abspath(__file__))),
                    'specs', 'precedence.json')


def _f(rule: str, ref: Optional[MethodRef], rec: Optional[TokenRecord], construct: str,
       msg: str, node: Optional[ast.AST] = None) -> Finding:
    if ref is not None:
        return finding(rule, ref.func, node or ref.func.node, construct, msg)
    assert rec is not None
    site = rec.decl_sites[0] if rec.decl_sites else ('elementpath', 0)
    return Finding(rule=rule, module=site[0], function='', construct=construct, message=msg,
                   line=site[1])


def guard_sets(reg: RegModel, ref: MethodRef) -> list[tuple[set[str], ast.If]]:
    """`if left.symbol in S: raise …` / `== 's'` guards of a led body, with S folded."""
    out = []
    params = ref.func.params()
    left = params[1] if len(params) > 1 else 'left'
    for n in walk_local(ref.func.node):
        if not isinstance(n, ast.If) or not isinstance(n.test, ast.Compare):
            continue
        t = n.test
        if stmt_text(t.left) != f'{left}.symbol' or len(t.ops) != 1:
            continue
        if not any(isinstance(x, ast.Raise) for s in n.body for x in ast.walk(s)):
            continue
        try:
            v = reg.model.fold(ref.func.module, t.comparators[0])
        except Unfoldable:
            # a dict whose values are not constants (e.g. operator functions): keys suffice
            kind, val = reg.model.resolve_expr(ref.func.module, t.comparators[0]) \
                if isinstance(t.comparators[0], (ast.Name, ast.Attribute)) else ('', None)
            if kind == 'const' and isinstance(val[1], ast.Dict):
                try:
                    v = {reg.model.fold(val[0], k): None for k in val[1].keys if k is not None}
                except Unfoldable:
                    continue
            else:
                continue
        if isinstance(t.ops[0], ast.In):
            if isinstance(v, dict):
                s = set(v.keys())
            elif isinstance(v, (set, frozenset, tuple, list)):
                s = set(v)
            else:
                continue
        elif isinstance(t.ops[0], ast.Eq) and isinstance(v, str):
            s = {v}
        else:
            continue
        out.append((s, n))
    return out


def r04_3(ctx, counts) -> RuleResult:
    """comment skipping keeps the current token"""
    from ..engine.cfg import CFG
    model = ctx.model
    res = RuleResult(
        'R04.3', 'COMMENT-TOKEN-FRAME',
        'In every Parser.advance override that consumes (: :) comments, the current token is '
        'saved once, before any call that advances the token stream while skipping, and '
        'restored from that saved value afterwards: on no path from an advancing call '
        '(advance / advance_until) does a re-assignment of the saved variable reach the restore '
        '`self.token = saved`. Otherwise a run of comments restores the `:)` of the previous '
        'comment as the current token and the expression no longer parses independently of its '
        'comments.')
    parser = model.find_class('Parser')
    n = 0
    for c in model.all_classes():
        if not c.is_subclass_of(parser) or c is parser:
            continue
        f = c.methods.get('advance')
        if f is None or "'(:'" not in f.module.source[f.node.col_offset:] or \
                not any(isinstance(x, ast.Constant) and x.value == '(:' for x in ast.walk(f.node)):
            continue
        cfg = CFG(f.node)
        restores = [nd for nd in cfg.nodes if nd.kind == 'stmt' and isinstance(nd.ast, ast.Assign)
                    and any(dotted(t) == 'self.token' for t in nd.ast.targets)
                    and isinstance(nd.ast.value, ast.Name)]
        if not restores:
            raise AnalysisError(f'{f.key}: restore `self.token = saved` not located')
        for r in restores:
            var = r.ast.value.id                                        # type: ignore[union-attr]
            saves = [nd for nd in cfg.nodes if nd.kind == 'stmt' and isinstance(nd.ast, ast.Assign)
                     and any(isinstance(t, ast.Name) and t.id == var for t in nd.ast.targets)]
            if not saves:
                raise AnalysisError(f'{f.key}: no save of `{var}` located')
            # advancing calls inside the comment branch (after the first save lexically)
            first_save = min(s_.ast.lineno for s_ in saves)
            advs = [nd for nd in cfg.nodes if nd.ast is not None and nd.kind in ('stmt', 'test')
                    and getattr(nd.ast, 'lineno', 0) >= first_save and any(
                        isinstance(x, ast.Call) and isinstance(x.func, ast.Attribute)
                        and x.func.attr in ('advance', 'advance_until', 'expression')
                        for x in ast.walk(nd.ast.test if isinstance(nd.ast, (ast.If, ast.While))
                                          else nd.ast))]
            n += 1
            bad = None
            for a in advs:
                for s_ in saves:
                    # path a -> s_ (a re-save after an advance) and then s_ -> restore
                    if cfg.path_avoiding([a], lambda q, s_=s_: q is s_, lambda q: False) is not None \
                            and (s_ is r or cfg.path_avoiding(
                                [s_], lambda q: q is r,
                                lambda q: q in saves and q is not s_) is not None):
                        bad = (a, s_)
                        break
                if bad:
                    break
            res.instances.append(f'{f.key}: token saved in `{var}` at L{first_save}, restored at '
                                 f'L{r.ast.lineno}; re-saved after an advance: {bad is not None}')
            if bad is None:
                res.ok()
            else:
                res.fail(finding('R04.3', f, bad[1].ast, f're-save of {var} after advance',
                                 f'`{stmt_text(bad[1].ast)}` can execute after '
                                 f'`{stmt_text(bad[0].ast)[:40]}` has advanced the token stream and '
                                 f'its value reaches `{stmt_text(r.ast)}`: after a run of two '
                                 f'comments the restored current token is the `:)` of the first '
                                 f'one (`1 (: a :)(: b :) + 2` does not parse)'))
    counts['comment_advance_overrides'] = n
    if n < 1:
        raise AnalysisError('no advance override handling (: :) comments located')
    return res


def r04_5(ctx, counts) -> RuleResult:
    """a binding power that instances override is not used as an operand's rbp"""
    model = ctx.model
    res = RuleResult(
        'R04.5', 'INSTANCE-BINDING-POWER',
        'A token class may change its own binding powers per instance (LookupOperatorToken sets '
        'self.lbp = self.rbp = 0 when `?` follows `(` or `,`, so that a placeholder does not bind '
        'to what precedes it). In such a class the nud and led methods pass constants to '
        'parser.expression(): `expression(self.rbp)` would parse the key of a unary lookup with '
        'rbp 0 in exactly those positions and swallow the rest of the argument list '
        '(`(?a, ?b)` becomes `?(a, ?b)`, `concat(?a, "-", ?b)` "too few arguments").')
    n = 0
    for cls in sorted(model.all_classes(), key=lambda c: c.name):
        methods = [f for f in cls.module.functions.values() if f.cls is cls]
        overriding = [f for f in methods if any(
            isinstance(x, (ast.Assign, ast.AugAssign)) and any(
                isinstance(t, ast.Attribute) and isinstance(t.value, ast.Name)
                and t.value.id == 'self' and t.attr in ('lbp', 'rbp')
                for t0 in (x.targets if isinstance(x, ast.Assign) else [x.target])
                for t in ast.walk(t0))
            for x in walk_local(f.node))]
        if not overriding:
            continue
        n += 1
        bad = []
        for f in methods:
            if f.name not in ('nud', 'led'):
                continue
            for c in walk_local(f.node):
                if isinstance(c, ast.Call) and isinstance(c.func, ast.Attribute) \
                        and c.func.attr == 'expression':
                    args = list(c.args) + [k.value for k in c.keywords]
                    for a in args:
                        if any(isinstance(y, ast.Attribute) and isinstance(y.value, ast.Name)
                               and y.value.id == 'self' and y.attr in ('lbp', 'rbp')
                               for y in ast.walk(a)):
                            bad.append((f, c))
        res.instances.append(f'{cls.name}: binding powers overridden per instance in '
                             f'{[f.name for f in overriding]}; expression() calls with a '
                             f'self.lbp/rbp argument: {len(bad)}')
        if not bad:
            res.ok()
        for f, c in bad:
            res.fail(finding('R04.5', f, c, f'{cls.name}.{f.name}: {stmt_text(c)[:40]}',
                             f'`{stmt_text(c)[:50]}` takes the right binding power from the '
                             f'instance, which {overriding[0].name}() may have set to 0: the '
                             f'operand then extends over every following operator and comma'))
    counts['classes_with_instance_binding_powers'] = n
    if n < 1:
        raise AnalysisError('no token class overrides its binding powers per instance (the '
                            'LookupOperatorToken idiom vanished)')
    return res


def r04_6(ctx, counts) -> RuleResult:
    """the source of a token is a function of the token tree"""
    model = ctx.model
    res = RuleResult(
        'R04.6', 'SOURCE-FROM-THE-TREE',
        'tree -> source -> parse is a round trip only if `source` is computed from the token '
        'tree. Parser.parse() overwrites the per-parse state of the parser (the attributes it '
        'assigns: source, tokens, token, next_token, next_match, ...) on every call, also on '
        'failing ones, and a tree outlives the parse that built it. No `source` property of a '
        'token class (nor a method of the class it calls) reads one of those attributes through '
        'self.parser. (`1.5 + @a` unparsed as `str + @a` after the same parser had parsed '
        'another expression, in a seeded change that sliced parser.source by the token span.)')
    tdop = model.module('elementpath.tdop')
    parser_cls = tdop.classes.get('Parser')
    if parser_cls is None or 'parse' not in parser_cls.methods:
        raise AnalysisError('tdop.Parser.parse vanished')
    per_parse = set()
    for x in ast.walk(parser_cls.methods['parse'].node):
        if isinstance(x, (ast.Assign, ast.AugAssign)):
            for t0 in (x.targets if isinstance(x, ast.Assign) else [x.target]):
                for t in ast.walk(t0):
                    if isinstance(t, ast.Attribute) and isinstance(t.value, ast.Name) \
                            and t.value.id == 'self':
                        per_parse.add(t.attr)
    if 'source' not in per_parse or len(per_parse) < 3:
        raise AnalysisError(f'Parser.parse: per-parse attributes located: {sorted(per_parse)}')
    token_cls = tdop.classes.get('Token')
    n = 0
    for cls in sorted(model.all_classes(), key=lambda c: (c.module.name, c.name)):
        if cls is not token_cls and not cls.is_subclass_of(token_cls):
            continue
        methods = {f.name: f for f in cls.module.functions.values() if f.cls is cls}
        src = methods.get('source')
        if src is None:
            continue
        n += 1
        scope = [src]
        for c in walk_local(src.node):
            if isinstance(c, ast.Attribute) and isinstance(c.value, ast.Name) \
                    and c.value.id == 'self' and c.attr in methods and methods[c.attr] not in scope:
                scope.append(methods[c.attr])
        bad = [(g, y) for g in scope for y in walk_local(g.node)
               if isinstance(y, ast.Attribute) and y.attr in per_parse
               and stmt_text(y.value) == 'self.parser']
        res.instances.append(f'{cls.module.name}:{cls.name}.source (+{len(scope) - 1} callees): '
                             f'reads of per-parse parser state: {len(bad)}')
        if not bad:
            res.ok()
        for g, y in bad:
            res.fail(finding('R04.6', g, y, f'{cls.name}.source reads parser.{y.attr}',
                             f'`{stmt_text(y)}` is per-parse state of the parser (assigned by '
                             f'Parser.parse()): the source of a token changes when the parser '
                             f'that built it parses, or fails to parse, another expression'))
    counts['source_properties'] = n
    if n < 5:
        raise AnalysisError(f'source properties of token classes located: {n} < 5')
    return res


def r04_7(ctx, counts) -> RuleResult:
    """comment text never reaches the tokenizer"""
    model = ctx.model
    res = RuleResult(
        'R04.7', 'COMMENTS-BEFORE-TOKENS',
        'An XPath 2.0+ comment is lexical whitespace whatever it contains. The tokenizer is one '
        'regular expression over the raw text: a quote inside a comment opens a string literal '
        'that swallows the `:)`, `::)` is read as `::` `)`. Skipping the tokens between `(:` and '
        '`:)` (the advance() override) therefore cannot be exact; the parser class that knows '
        'comments (XPath2Parser) overrides parse() and hands to the base parse() not its raw '
        '`source` parameter but the result of a call that takes it (the comment-blanking pass), '
        'and that pass tracks string literals (it compares characters with both quote '
        'characters). `(: it\'s :) 1 + (: it\'s :) 2` evaluated to 2.')
    mod = model.module('elementpath.xpath2.xpath2_parser')
    cls = mod.classes.get('XPath2Parser')
    if cls is None:
        raise AnalysisError('XPath2Parser vanished')
    methods = {f.name: f for f in mod.functions.values() if f.cls is cls}
    parse = methods.get('parse')
    n = 1
    if parse is None:
        res.instances.append('XPath2Parser.parse: not overridden')
        res.fail(finding('R04.7', None, cls.node, 'no comment pass before the tokenizer',
                         'XPath2Parser does not override parse(): the raw source, comments '
                         'included, is tokenized and the comment content is skipped token by '
                         'token (a quote or `::)` inside a comment breaks the expression)',
                         module=mod))
        counts['comment_pass'] = 0
        return res
    src = parse.params()[1]
    supers = [c for c in walk_local(parse.node) if isinstance(c, ast.Call)
              and isinstance(c.func, ast.Attribute) and c.func.attr == 'parse'
              and 'super' in stmt_text(c.func.value)]
    if not supers:
        raise AnalysisError('XPath2Parser.parse: no call of the base parse()')
    ok = True
    for c in supers:
        a = c.args[0] if c.args else None
        passes = isinstance(a, ast.Call) and any(isinstance(y, ast.Name) and y.id == src
                                                 for y in ast.walk(a))
        helper = None
        if passes:
            hname = dotted(a.func).split('.')[-1]
            helper = methods.get(hname) or mod.toplevel_function(hname)
        quotes = helper is not None and {"'", '"'} <= {
            ch for y in ast.walk(helper.node) if isinstance(y, ast.Constant)
            and isinstance(y.value, str) for ch in y.value if ch in '\'"'}
        res.instances.append(f'{parse.key}: base parse() receives `{stmt_text(a)[:40]}`; '
                             f'pre-pass tracks string literals: {bool(quotes)}')
        if passes and quotes:
            res.ok()
        else:
            ok = False
            res.fail(finding('R04.7', parse, c, 'raw source tokenized',
                             f'`{stmt_text(c)[:50]}` tokenizes the text with its comments (or '
                             f'after a pass that does not track string literals): the content '
                             f'of a comment is read as tokens'))
    counts['comment_pass'] = int(ok)
    return res


def run(ctx) -> dict:
    reg: RegModel = ctx.reg
    model = ctx.model
    spec = json.load(open(SPEC))
    r1 = RuleResult(
        'R04.1', 'BP-TABLE',
        'For every XPath version: (a) all symbols of one EBNF level have the same left binding '
        'power; (b) for every pair of levels i<j, every lbp of level i is below every lbp of '
        'level j; (c) the led of a binary operator makes exactly one recursive expression() '
        'call and its rbp equals the lbp (left-associative; non-associative levels rely on '
        'R04.2); (d) the rbp used by a prefix operator absorbs exactly the levels above it; '
        '(e) keyword expressions parse each sub-expression at the grammar level the EBNF names '
        '(Expr / ExprSingle); (f) function arguments are ExprSingle, predicates and parentheses '
        'are Expr.')
    r2 = RuleResult(
        'R04.2', 'NONASSOC-GUARD',
        'The led of every symbol on a non-associative level raises wrong_syntax when '
        'left.symbol belongs to that level (guard set folded through module constants); the '
        'led of a left-associative symbol has no such guard against its own level.')
    counts: dict[str, int] = {}
    pairs_checked = 0
    for parser in reg.PARSERS:
        ver = reg.VERSIONS[parser]
        table = reg.tables[parser]
        levels = spec[ver]['levels']
        bearing = [lv for lv in levels if lv['kind'] in ('binary', 'special', 'postfix')]

        def lbp_of(sym: str) -> int:
            if sym not in table:
                raise AnalysisError(f'{parser}: operator symbol {sym!r} of the EBNF is not in '
                                    f'the symbol table')
            v = table[sym].get(model, 'lbp')
            if not isinstance(v, int):
                raise AnalysisError(f'{parser}: lbp of {sym!r} is not a constant')
            return v

        # (a) uniformity
        for lv in bearing:
            vals = {s: lbp_of(s) for s in lv['symbols']}
            r1.instances.extend(f'{ver}:{s} lbp={v}' for s, v in vals.items())
            if lv.get('uniform', True):
                common = max(set(vals.values()), key=list(vals.values()).count)
                for s, v in vals.items():
                    if v != common:
                        r1.fail(_f('R04.1', None, table[s], f'{ver}:{lv["name"]}:{s}',
                                   f'XPath {ver}: {s!r} has lbp {v} but the other operators of '
                                   f'{lv["name"]} have {common}'))
                    else:
                        r1.ok()
        # (b) ordering of all pairs of levels
        for i, a in enumerate(bearing):
            for b in bearing[i + 1:]:
                bad = []
                for sa_ in a['symbols']:
                    for sb in b['symbols']:
                        pairs_checked += 1
                        if not lbp_of(sa_) < lbp_of(sb):
                            bad.append((sa_, sb))
                if bad:
                    sa_, sb = bad[0]
                    r1.fail(_f('R04.1', None, table[sa_], f'{ver}:{a["name"]}<{b["name"]}',
                               f'XPath {ver}: {a["name"]} must bind looser than {b["name"]} but '
                               f'lbp({sa_!r})={lbp_of(sa_)} >= lbp({sb!r})={lbp_of(sb)} '
                               f'({len(bad)} symbol pairs)'))
                else:
                    r1.ok()
        r1.samples.append({'rule': 'R04.1', 'version': ver,
                           'levels': [[lv['name'], [lbp_of(s) for s in lv['symbols']]]
                                      for lv in bearing]})
        # (c) binary operators: one recursive call with rbp == lbp ; R04.2 guards
        for li, lv in enumerate(levels):
            if lv['kind'] not in ('binary', 'special'):
                continue
            for s in lv['symbols']:
                rec = table[s]
                led = rec.method('led')
                if led is None or led.func.qualname == 'Token.led':
                    r1.fail(_f('R04.1', None, rec, f'{ver}:{s}:led', f'{s!r} has no led'))
                    continue
                if lv['kind'] == 'binary':
                    calls = reg.expression_calls(led)
                    if len(calls) != 1:
                        r1.fail(_f('R04.1', led, rec, f'{ver}:{s}:recursion',
                                   f'led of {s!r} makes {len(calls)} expression() calls, '
                                   f'expected one'))
                    elif calls[0].rbp != lbp_of(s):
                        r1.fail(_f('R04.1', led, rec, f'{ver}:{s}:rbp',
                                   f'led of {s!r} parses its right operand with rbp='
                                   f'{calls[0].rbp} but lbp={lbp_of(s)}: '
                                   f'{"right" if isinstance(calls[0].rbp, int) and calls[0].rbp < lbp_of(s) else "wrong"} '
                                   f'associativity', calls[0].node))
                    else:
                        r1.ok()
                # R04.2
                gs = guard_sets(reg, led)
                own = set(lv['symbols'])
                covered = set()
                for gset, _ in gs:
                    covered |= gset & own
                r2.instances.append(f'{ver}:{s} assoc={lv.get("assoc")} guard covers '
                                    f'{sorted(covered)}')
                if lv.get('assoc') == 'none':
                    if covered == own:
                        r2.ok()
                    else:
                        missing = sorted(own - covered)
                        r2.fail(_f('R04.2', led, rec, f'{ver}:{s} accepts {" ".join(missing)}',
                                   f'XPath {ver}: {lv["name"]} is non-associative but the led of '
                                   f'{s!r} accepts a left operand built by {missing}: chaining '
                                   f'such as `a {s} b {missing[0]} c`/`a {missing[0]} b {s} c` '
                                   f'parses'))
                elif lv.get('assoc') == 'left':
                    if covered:
                        r2.fail(_f('R04.2', led, rec,
                                   f'{ver}:{s} rejects {" ".join(sorted(covered))}',
                                   f'XPath {ver}: {lv["name"]} is left-associative but the led '
                                   f'of {s!r} rejects a left operand built by {sorted(covered)}: '
                                   f'`a {s} b {sorted(covered)[0]} c` is a syntax error here'))
                    else:
                        r2.ok()
        # (d) prefix operators
        for li, lv in enumerate(levels):
            if lv['kind'] != 'prefix':
                continue
            for s in lv['symbols']:
                rec = table[s]
                nud = rec.method('nud')
                if nud is None:
                    r1.fail(_f('R04.1', None, rec, f'{ver}:unary{s}', f'unary {s!r} has no nud'))
                    continue
                calls = reg.expression_calls(nud)
                if len(calls) != 1 or not isinstance(calls[0].rbp, int):
                    r1.fail(_f('R04.1', nud, rec, f'{ver}:unary{s}:recursion',
                               f'nud of unary {s!r}: expected one expression(rbp) call with a '
                               f'constant rbp'))
                    continue
                r = calls[0].rbp
                r1.instances.append(f'{ver}:unary {s} rbp={r}')
                for lj, other in enumerate(levels):
                    if other['kind'] not in ('binary', 'special', 'postfix') or lj == li:
                        continue
                    vals = [lbp_of(x) for x in other['symbols']]
                    if lj > li and not min(vals) > r:
                        r1.fail(_f('R04.1', nud, rec, f'{ver}:UnaryExpr<{other["name"]}',
                                   f'XPath {ver}: unary {s!r} parses its operand with rbp={r}, so '
                                   f'it does not absorb {other["name"]} (lbp {min(vals)}) which '
                                   f'the grammar places inside the unary operand', calls[0].node))
                    elif lj < li and not max(vals) <= r:
                        r1.fail(_f('R04.1', nud, rec, f'{ver}:{other["name"]}<UnaryExpr',
                                   f'XPath {ver}: unary {s!r} (rbp={r}) absorbs {other["name"]} '
                                   f'(lbp {max(vals)}) which binds looser in the grammar',
                                   calls[0].node))
                    else:
                        r1.ok()
        # (e) keyword positions
        comma = lbp_of(',') if ',' in table and ver != '1.0' else None
        others = [lbp_of(x) for lv in bearing for x in lv['symbols'] if x != ',']
        for sym, positions in spec[ver].get('positions', {}).items():
            rec = table.get(sym)
            if rec is None:
                raise AnalysisError(f'{parser}: keyword {sym!r} not in the symbol table')
            nud = rec.method('nud')
            assert nud is not None
            calls = reg.expression_calls(nud)
            if len(calls) != len(positions):
                r1.fail(_f('R04.1', nud, rec, f'{ver}:{sym}:positions',
                           f'nud of {sym!r} has {len(calls)} expression() calls, the EBNF has '
                           f'{len(positions)} sub-expressions'))
                continue
            for k, (c, pos) in enumerate(zip(calls, positions)):
                r1.instances.append(f'{ver}:{sym}[{k}] {pos} rbp={c.rbp}')
                assert comma is not None
                if pos == 'ExprSingle':
                    good = isinstance(c.rbp, int) and comma <= c.rbp < min(others)
                    why = f'must satisfy lbp(",")={comma} <= rbp < {min(others)}'
                elif pos == 'Expr':
                    good = isinstance(c.rbp, int) and c.rbp < comma
                    why = f'is an Expr position (comma allowed): needs rbp < lbp(",")={comma}'
                else:
                    good = True
                    why = ''
                if good:
                    r1.ok()
                else:
                    r1.fail(_f('R04.1', nud, rec, f'{ver}:{sym}[{k}]:{pos}',
                               f'XPath {ver}: sub-expression {k} of {sym!r} is parsed with rbp='
                               f'{c.rbp} but {why}', c.node))
        # (f) arguments, predicates, parentheses
        if ver != '1.0':
            assert comma is not None
            fn = model.find_class('XPathFunction').methods.get('nud')
            if fn is None:
                raise AnalysisError('XPathFunction.nud vanished')
            ref = MethodRef(fn)
            calls = reg.expression_calls(ref)
            if not calls:
                raise AnalysisError('XPathFunction.nud has no expression() call')
            for c in calls:
                r1.instances.append(f'{ver}:function argument rbp={c.rbp}')
                if isinstance(c.rbp, int) and comma <= c.rbp < min(others):
                    r1.ok()
                else:
                    r1.fail(_f('R04.1', ref, None, f'{ver}:argument',
                               f'function arguments are ExprSingle: rbp={c.rbp} is outside '
                               f'[{comma}, {min(others)})', c.node))
            for sym, slot, idx in (('[', 'led', 0), ('(', 'nud', 0)):
                ref2 = table[sym].method(slot)
                assert ref2 is not None
                calls = reg.expression_calls(ref2)
                if len(calls) <= idx:
                    r1.fail(_f('R04.1', ref2, table[sym], f'{ver}:{sym}:{slot}',
                               f'{slot} of {sym!r} has no expression() call'))
                    continue
                c = calls[idx]
                r1.instances.append(f'{ver}:{sym} {slot} Expr rbp={c.rbp}')
                if isinstance(c.rbp, int) and c.rbp < comma:
                    r1.ok()
                else:
                    r1.fail(_f('R04.1', ref2, table[sym], f'{ver}:{sym}:{slot}:Expr',
                               f'{sym!r} encloses an Expr (comma allowed) but parses it with '
                               f'rbp={c.rbp} >= lbp(",")={comma}', c.node))
    for r in (r1, r2):
        merged: dict[tuple, Finding] = {}
        vers: dict[tuple, list[str]] = {}
        for f in r.findings:
            ver, _, rest = f.construct.partition(':')
            k = (f.rule, f.module, f.function, rest)
            if k not in merged:
                merged[k] = f
                vers[k] = [ver]
                f.construct = rest
            else:
                vers[k].append(ver)
                r.obligations -= 1      # one finding per construct, versions listed
        for k, f in merged.items():
            f.message = f'[versions {", ".join(vers[k])}] ' + f.message
        r.findings = list(merged.values())
    counts['symbol_pairs'] = pairs_checked
    counts['versions'] = len(reg.PARSERS)
    counts['regmodel_decorators'] = reg.decorators_interpreted
    r1.notes.append(f'{pairs_checked} ordered symbol pairs compared; registration model: '
                    f'{reg.statements_interpreted} statements, {reg.decorators_interpreted} '
                    f'decorator applications, {len(reg.semantics_checked)} REG-SEMANTICS facts')
    return {
        'results': [r1, r2, r04_3(ctx, counts), r04_5(ctx, counts), r04_6(ctx, counts),
                    r04_7(ctx, counts)],
        'counts': counts,
        'explanation':
            'The binding powers, led/nud bodies and recursive expression() right binding powers '
            'of every operator symbol are recovered from the registration DSL by abstract '
            'interpretation (no import of elementpath) and compared with the precedence levels '
            'and associativity of the W3C EBNF for XPath 1.0/2.0/3.0/3.1 '
            '(sa/specs/precedence.json): level uniformity, all level pairs, recursion rbp, unary '
            'absorption, keyword sub-expression levels, argument/predicate/parenthesis levels, '
            'and chaining guards of non-associative levels.',
        'not_decided':
            'Independence from whitespace and (: :) comments, the source round-trip, and '
            'hash-seed independence of the tokenizer (custom_patterns is a set; no input is '
            'known whose tokenisation changes, and a commutation proof of the alternation is out '
            'of reach, so it is not claimed).',
        'assumptions': ['sa/specs/precedence.json transcribes the W3C productions correctly',
                        'Pratt loop semantics as in tdop.Parser.expression (re-checked by '
                        'REG-SEMANTICS on every run)'],
    }
