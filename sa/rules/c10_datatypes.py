"""
C10 — atomic datatypes: lexical space, bounds, casting coherence.

R10.1 BOUNDS-AND-HIERARCHY  integer bounds and derivation tree vs the XSD table
R10.2 LEXICAL-SPACES        sibling patterns agree; unambiguous ones equal the XSD lexical
                            space (regex AST -> NFA -> DFA language equality)
R10.3 CONSULT-PATTERN       a constructor given a string consults the class pattern before
                            the Python conversion
R10.4 REGISTRY              type registry <-> constructor tokens <-> cast methods
R10.5 CAST-FUNNEL           constructor call and cast/castable operator share one cast()
"""
from __future__ import annotations

import ast
import json
import os
from typing import Optional

from ..engine.srcmodel import AnalysisError, ClassInfo, FuncInfo, Model, Unfoldable, dotted, \
    stmt_text, walk_local
from ..engine import rx
from ..engine.cfg import CFG
from ..engine.report import RuleResult, Finding
from .common import finding

SPEC = os.path.join(os.path.dirname(os.path.dirname(os.path.abspath(__file__))),
                    'specs', 'xsd_types.json')


def class_pattern(model: Model, c: ClassInfo) -> Optional[tuple[ClassInfo, str, int]]:
    a = c.find_attr('pattern')
    if a is None:
        return None
    owner, e = a
    if isinstance(e, ast.Call) and dotted(e.func) == 'LazyPattern' and e.args:
        try:
            p = model.fold(owner.module, e.args[0])
        except Unfoldable:
            return None
        return owner, p, e.lineno
    return None


def named_types(model: Model) -> dict[str, list[ClassInfo]]:
    base = model.find_class('AnyAtomicType')
    out: dict[str, list[ClassInfo]] = {}
    for c in model.subclasses_of(base):
        n = c.attrs.get('name')
        if isinstance(n, ast.Constant) and isinstance(n.value, str):
            out.setdefault(n.value, []).append(c)
    return out


def r10_1(ctx, counts, spec) -> RuleResult:
    model: Model = ctx.model
    res = RuleResult(
        'R10.1', 'BOUNDS-AND-HIERARCHY',
        '_lower_bound/_higher_bound of every Integer subclass, constant-folded (2 ** 63 …), '
        'equal the XSD facets (upper bound stored exclusive, as Integer.__init__ tests '
        '`self >= _higher_bound`); each named class derives (nominally, or through the '
        '__subclasshook__ of the proxy of its base) from the class of its XSD base type.')
    types = named_types(model)
    integer = model.find_class('Integer')
    init = integer.methods.get('__init__')
    if init is None:
        raise AnalysisError('Integer.__init__ vanished')
    tests = {stmt_text(n.test) for n in walk_local(init.node) if isinstance(n, ast.If)}
    want = {'self._lower_bound is not None and self < self._lower_bound',
            'self._higher_bound is not None and self >= self._higher_bound'}
    if want <= tests:
        res.ok()
        raising = all(any(isinstance(x, ast.Raise) for x in ast.walk(n))
                      for n in walk_local(init.node) if isinstance(n, ast.If)
                      and stmt_text(n.test) in want)
        if not raising:
            res.fail(finding('R10.1', init, init.node, 'bounds not enforced',
                             'Integer.__init__ tests the bounds but does not raise'))
    else:
        res.fail(finding('R10.1', init, init.node, 'bounds test',
                         f'Integer.__init__ no longer tests `self < _lower_bound` / '
                         f'`self >= _higher_bound` (found {sorted(tests)}): the bounds table '
                         f'cannot be interpreted'))
    n = 0
    for name, row in spec['integers'].items():
        cs = types.get(name, [])
        if not cs:
            res.fail(Finding('R10.1', 'elementpath/datatypes/numeric.py', '', f'{name} missing',
                             f'xs:{name} has no class'))
            continue
        for c in cs:
            n += 1
            vals = {}
            for attr in ('_lower_bound', '_higher_bound'):
                a = c.find_attr(attr)
                if a is None:
                    raise AnalysisError(f'{c.key}: {attr} not found')
                try:
                    vals[attr] = model.fold(a[0].module, a[1])
                except Unfoldable as err:
                    raise AnalysisError(f'{c.key}.{attr} does not fold: {err}')
            res.instances.append(f'xs:{name}: [{vals["_lower_bound"]}, {vals["_higher_bound"]})')
            for attr, key in (('_lower_bound', 'lower'), ('_higher_bound', 'upper')):
                if vals[attr] == row[key]:
                    res.ok()
                else:
                    res.fail(Finding('R10.1', c.module.relpath, c.qualname, f'{name}.{attr}',
                                     f'xs:{name}: {attr} is {vals[attr]} but XSD requires '
                                     f'{row[key]}', c.node.lineno))
            # derivation
            base = row['base']
            ok = any(isinstance(b, ClassInfo) and any(
                isinstance(x.attrs.get('name'), ast.Constant) and x.attrs['name'].value == base
                for x in [b]) for b in c.bases)
            if not ok and spec['virtual'].get(name) == base:
                ok = True
            if ok:
                res.ok()
            else:
                res.fail(Finding('R10.1', c.module.relpath, c.qualname, f'{name} base',
                                 f'xs:{name} must derive from xs:{base} but its class bases are '
                                 f'{[getattr(b, "name", b) for b in c.bases]}: instance-of and '
                                 f'casting follow the wrong derivation', c.node.lineno))
    for name, base in spec['derivation'].items():
        for c in types.get(name, []):
            n += 1
            anc = [x for x in c.mro()[1:] if isinstance(x.attrs.get('name'), ast.Constant)]
            nearest = anc[0].attrs['name'].value if anc else None   # type: ignore[union-attr]
            res.instances.append(f'xs:{name} derives from {nearest}')
            if nearest == base or (nearest == name and len(anc) > 1
                                   and anc[1].attrs['name'].value == base) \
                    or (spec['virtual'].get(name) == base):
                res.ok()
            else:
                res.fail(Finding('R10.1', c.module.relpath, c.qualname, f'{name} base',
                                 f'xs:{name} must derive from xs:{base}, nearest named ancestor '
                                 f'is {nearest}', c.node.lineno))
    counts['typed_classes_checked'] = n
    # virtual hooks
    dp = model.find_class('DecimalProxy').methods.get('__subclasshook__')
    sp = model.find_class('StringProxy').methods.get('__subclasshook__')
    if dp is None or sp is None:
        raise AnalysisError('proxy __subclasshook__ vanished')
    if 'Integer' in stmt_text(dp.node) and 'bool' in stmt_text(dp.node):
        res.ok()
    else:
        res.fail(finding('R10.1', dp, dp.node, 'decimal hook',
                         'DecimalProxy.__subclasshook__ no longer accepts Integer / excludes bool'))
    if 'issubclass(subclass, str)' in stmt_text(sp.node):
        res.ok()
    else:
        res.fail(finding('R10.1', sp, sp.node, 'string hook',
                         'StringProxy.__subclasshook__ no longer accepts str subclasses'))
    return res


def r10_2(ctx, counts, spec) -> RuleResult:
    model: Model = ctx.model
    res = RuleResult(
        'R10.2', 'LEXICAL-SPACES',
        'Patterns are read from the `pattern = LazyPattern(…)` class attributes. Sibling '
        'obligations: Float.pattern and DoubleProxy.pattern accept the same language; all '
        'date/time patterns end with the same timezone sub-pattern. Reference obligations '
        '(language equality of DFAs over a partition of the code space, outer anchors '
        'stripped): integer, decimal, double, float, boolean, hexBinary, language against the '
        'XSD Part 2 productions. A mismatch is reported with a shortest witness string.')
    types = named_types(model)
    n = 0
    pats: dict[str, tuple[ClassInfo, str, int]] = {}
    for name, cs in types.items():
        for c in cs:
            p = class_pattern(model, c)
            if p is not None:
                pats.setdefault(name, p)
    for name, ref in spec['lexical'].items():
        if name not in pats:
            raise AnalysisError(f'xs:{name}: no LazyPattern found')
        owner, p, line = pats[name]
        n += 1
        try:
            w = rx.equivalent(p, ref)
        except rx.Unsupported as err:
            raise AnalysisError(f'xs:{name}: pattern not supported by the DFA engine: {err}')
        res.instances.append(f'xs:{name}: {owner.name}.pattern vs XSD production: '
                             f'{"equal" if w is None else "differ at " + repr(w)}')
        res.samples.append({'rule': 'R10.2', 'type': name, 'pattern': p, 'xsd': ref,
                            'witness': w})
        if w is None:
            res.ok()
        else:
            side = 'accepted by the code only' if rx.accepts(p, w) else 'rejected by the code'
            res.fail(Finding('R10.2', owner.module.relpath, owner.qualname,
                             f'{name} pattern vs XSD',
                             f'xs:{name}: {owner.name}.pattern differs from the XSD lexical '
                             f'space: {w!r} is {side}', line))
    # siblings
    if 'float' in pats and 'double' in pats:
        n += 1
        w = rx.equivalent(pats['float'][1], pats['double'][1])
        res.instances.append(f'Float.pattern vs DoubleProxy.pattern: '
                             f'{"equal" if w is None else "differ at " + repr(w)}')
        if w is None:
            res.ok()
        else:
            o = pats['float'][0]
            res.fail(Finding('R10.2', o.module.relpath, o.qualname, 'float vs double pattern',
                             f'xs:float and xs:double must have the same lexical space but '
                             f'{w!r} is accepted by exactly one of the two patterns '
                             f'(Float.is_valid/validate disagrees with the constructor)',
                             pats['float'][2]))
    # the helper pattern consulted by get_double must be the double pattern minus INF/NaN
    hp = model.resolve_expr(model.module('elementpath.helpers'),
                            ast.Attribute(ast.Name('Patterns', ast.Load()), 'double', ast.Load()))
    if hp[0] == 'const' and isinstance(hp[1][1], ast.Call) and 'double' in pats:
        n += 1
        hpat = model.fold(hp[1][0], hp[1][1].args[0])
        inner = hpat[1:] if hpat.startswith('^') else hpat
        inner = inner[:-1] if inner.endswith('$') else inner
        w = rx.equivalent(f'(?:{inner})|[+-]?INF|NaN', pats['double'][1])
        res.instances.append(f'helpers.Patterns.double ∪ INF/NaN vs DoubleProxy.pattern: '
                             f'{"equal" if w is None else "differ at " + repr(w)}')
        if w is None:
            res.ok()
        else:
            res.fail(Finding('R10.2', 'elementpath/helpers.py', 'Patterns', 'Patterns.double',
                             f'the pattern get_double() consults differs from '
                             f'DoubleProxy.pattern: witness {w!r}', hp[1][1].lineno))
    # timezone sub-pattern of the date/time family
    adt = model.find_class('AbstractDateTime')
    tz: dict[str, list[str]] = {}
    for c in model.subclasses_of(adt):
        if 'pattern' not in c.attrs:
            continue
        p = class_pattern(model, c)
        if p is None or p[1] in ('^$',):
            continue
        idx = p[1].find('(?P<tzinfo>')
        if idx < 0:
            res.fail(Finding('R10.2', c.module.relpath, c.qualname, f'{c.name} tz',
                             f'{c.name}.pattern has no tzinfo group', p[2]))
            continue
        n += 1
        tail = p[1][idx:].rstrip('$')
        body = tail[:-1] if tail.endswith('?') else tail
        tz.setdefault(body, []).append(c.name)
    res.instances.append(f'timezone sub-patterns: {[(k, len(v)) for k, v in tz.items()]}')
    # reference: XSD 1.1 Part 2 §3.3.7 timezoneFrag ::= 'Z' | ('+'|'-') (('0' digit | '1' [0-3])
    # ':' minuteFrag | '14:00')
    xsd_tz = r'Z|[+-](?:(?:0[0-9]|1[0-3]):[0-5][0-9]|14:00)'
    for body, names in sorted(tz.items()):
        n += 1
        try:
            w = rx.equivalent(body, xsd_tz)
        except rx.Unsupported as err:
            raise AnalysisError(f'timezone sub-pattern not supported by the DFA engine: {err}')
        res.instances.append(f'timezone sub-pattern of {names[:3]}… vs XSD timezoneFrag: '
                             f'{"equal" if w is None else "differ at " + repr(w)}')
        if w is None:
            res.ok()
        else:
            c = model.find_class(names[0])
            side = 'accepted by the code only' if rx.accepts(body, w) else 'rejected by the code'
            res.fail(Finding('R10.2', c.module.relpath, c.qualname, 'timezone fragment vs XSD',
                             f'the timezone part of the date/time patterns ({names}) differs '
                             f'from the XSD timezoneFrag production: {w!r} is {side}',
                             c.node.lineno))
    if len(tz) == 1:
        res.ok()
    else:
        major = max(tz.values(), key=len)
        for body, names in tz.items():
            if names is not major:
                c = model.find_class(names[0])
                res.fail(Finding('R10.2', c.module.relpath, c.qualname, f'{names[0]} tz',
                                 f'{names}: timezone sub-pattern {body!r} differs from the one '
                                 f'of the other date/time types', c.node.lineno))
    counts['patterns_compared'] = n
    return res


CONVERTERS = {'int', 'float', 'Decimal', 'str', 'bool'}


def consults_pattern(model: Model, f: FuncInfo, depth: int = 0) -> bool:
    for n in walk_local(f.node):
        if isinstance(n, ast.Call) and isinstance(n.func, ast.Attribute) \
                and n.func.attr in ('match', 'fullmatch', 'search'):
            if dotted(n.func.value).split('.')[-1] == 'pattern':
                return True
            if isinstance(n.func.value, (ast.Name, ast.Attribute)):
                kind, val = model.resolve_expr(f.module, n.func.value)
                if kind == 'const' and isinstance(val[1], ast.Call) \
                        and dotted(val[1].func) in ('LazyPattern', 're.compile'):
                    return True     # a module-level lexical pattern (compared in R10.2)
        if isinstance(n, ast.If) and isinstance(n.test, ast.Compare) \
                and len(n.test.ops) == 1 and isinstance(n.test.ops[0], ast.NotIn) \
                and any(isinstance(x, ast.Raise) for s_ in n.body for x in ast.walk(s_)):
            cmp = n.test.comparators[0]
            if isinstance(cmp, ast.Name) and cmp.id.isupper():
                kind, val = model.resolve(f.module, cmp.id)
                if kind == 'const':
                    try:
                        v = model.fold(val[0], val[1])
                        if isinstance(v, (set, frozenset, tuple, list)) and len(v) <= 16:
                            return True     # whitelist: value not in LITERAL_SET -> raise
                    except Unfoldable:
                        pass
        if isinstance(n, ast.Call) and isinstance(n.func, ast.Attribute) \
                and n.func.attr in ('validate', 'fromstring') \
                and dotted(n.func.value) in ('cls', 'self'):
            return True
    if depth < 2:
        for n in walk_local(f.node):
            if isinstance(n, ast.Call) and isinstance(n.func, ast.Name):
                kind, val = model.resolve(f.module, n.func.id)
                if kind == 'func' and val is not f and consults_pattern(model, val, depth + 1):
                    return True
    return False


def r10_3(ctx, counts, spec) -> RuleResult:
    model: Model = ctx.model
    res = RuleResult(
        'R10.3', 'CONSULT-PATTERN',
        'For each named AnyAtomicType subclass with a non-trivial pattern: the constructor '
        'entry that receives a string (the nearest __new__ in the package MRO, else __init__; '
        'plus fromstring when defined) — or a package function it delegates to (two levels) — '
        'matches the class pattern (…pattern.match/fullmatch) or tests membership in a small '
        'literal set, so that Python-only syntax accepted by int()/float() (\'1_0\', non-ASCII '
        'digits, \'infinity\') is rejected. A class without any package-level __new__/__init__ '
        'logic inherits the builtin conversion and fails the rule.')
    types = named_types(model)
    n = 0
    seen: set[int] = set()
    for name, cs in sorted(types.items()):
        for c in cs:
            p = class_pattern(model, c)
            if p is None or p[1] in ('^$', ''):
                continue
            entries: list[FuncInfo] = []
            for meth in ('__new__', '__init__'):
                for k in c.mro():
                    if meth in k.methods:
                        entries.append(k.methods[meth])
                        break
            fs = c.find_method('fromstring')
            if fs is not None:
                entries.append(fs)
            entries = [e for e in entries if e.cls is not None
                       and e.cls.name not in ('AnyAtomicType', 'AnyType')]
            n += 1
            ok = any(consults_pattern(model, e) for e in entries)
            res.instances.append(f'xs:{name} ({c.name}): entries '
                                 f'{[e.qualname for e in entries]} consult={ok}')
            if ok:
                res.ok()
                continue
            owner = entries[0] if entries else None
            key_owner = owner.cls.name if owner is not None and owner.cls else c.name
            if id(owner) in seen and owner is not None:
                # one finding per shared entry point
                res.ok()
                continue
            seen.add(id(owner))
            res.fail(Finding('R10.3', (owner.module if owner else c.module).relpath,
                             owner.qualname if owner else c.qualname,
                             f'{key_owner} string construction',
                             f'xs:{name} and the types sharing {key_owner}\'s constructor '
                             f'convert a string with the Python builtin without consulting '
                             f'{p[0].name}.pattern: lexical forms outside the XSD lexical space '
                             f'(e.g. \'1_0\') are accepted while is_valid() rejects them',
                             (owner.node if owner else c.node).lineno))
    counts['constructors_checked'] = n
    return res


def r10_4(ctx, counts, spec) -> RuleResult:
    model: Model = ctx.model
    reg = ctx.reg
    res = RuleResult(
        'R10.4', 'REGISTRY',
        'The set of names of classes registered by AtomicTypeMeta (class attribute name) '
        'equals the set of symbols registered with @constructor in the XPath 2.0+ tables, up to '
        'the declared exceptions (abstract types without constructor; the xs:numeric union '
        'without class); every constructor token has a cast method bound.')
    types = set(named_types(model))
    cons_cls = model.find_class('XPathConstructor')
    table = reg.tables['XPath31Parser']
    cons = {}
    for k, rec in table.items():
        if rec.is_subclass_of(cons_cls):
            cons[rec.symbol] = rec
    counts['constructor_tokens'] = len(cons)
    counts['named_types'] = len(types)
    lt = model.find_class('ListType')
    list_types = {c.attrs['name'].value for c in model.subclasses_of(lt)
                  if isinstance(c.attrs.get('name'), ast.Constant)}
    res.notes.append(f'list types (ListType subclasses): {sorted(list_types)}')
    for t in sorted(types):
        res.instances.append(f'type xs:{t}: constructor={"yes" if t in cons else "no"}')
        if t in cons or t in spec['no_constructor'] or t in ('untypedAtomic', 'error') and t in cons:
            res.ok()
        elif t in cons:
            res.ok()
        else:
            c = named_types(model)[t][0]
            res.fail(Finding('R10.4', c.module.relpath, c.qualname, f'{t} no constructor',
                             f'xs:{t} is a registered atomic type but has no constructor '
                             f'function: `cast as xs:{t}` and xs:{t}(…) fail with XPST0051/0017',
                             c.node.lineno))
    for s, rec in sorted(cons.items()):
        if s in types or s in spec['constructor_only'] or s in list_types:
            res.ok()
        else:
            res.fail(Finding('R10.4', rec.decl_sites[0][0], '', f'{s} no type',
                             f'constructor xs:{s} has no atomic type class (type_class is None)',
                             rec.decl_sites[0][1]))
        cast = rec.method('cast')
        if cast is not None and cast.func.qualname != 'XPathConstructor.cast':
            res.ok()
        else:
            res.fail(Finding('R10.4', rec.decl_sites[0][0], '', f'{s} no cast',
                             f'constructor xs:{s} has no cast method bound '
                             f'(XPathConstructor.cast raises NotImplementedError)',
                             rec.decl_sites[0][1]))
    return res


def r10_5(ctx, counts, spec) -> RuleResult:
    model: Model = ctx.model
    reg = ctx.reg
    res = RuleResult(
        'R10.5', 'CAST-FUNNEL',
        'Every evaluate bound to a constructor token obtains its result through self.cast(…) '
        'and does not instantiate a datatype class itself; the evaluate of cast/castable '
        'instantiates the constructor token class from the symbol table and calls the same '
        '.cast(…): the constructor call xs:T(E), `E cast as T` and `E castable as T` therefore '
        'share one conversion.')
    cons_cls = model.find_class('XPathConstructor')
    atomic = model.find_class('AnyAtomicType')
    evs: dict[FuncInfo, list[str]] = {}
    for rec in reg.tables['XPath31Parser'].values():
        if rec.is_subclass_of(cons_cls):
            ev = rec.method('evaluate')
            if ev is not None:
                evs.setdefault(ev.func, []).append(rec.symbol)
    counts['constructor_evaluates'] = len(evs)
    from ..engine.cfg import CFG
    from ..engine.dataflow import branch_facts
    for f, syms in sorted(evs.items(), key=lambda kv: kv[0].key):
        # helpers that ARE the cast: cast function body is `return self.H(value)`
        helpers = set()
        for rec in reg.tables['XPath31Parser'].values():
            if rec.symbol in syms and rec.method('cast') is not None:
                body = [b for b in rec.method('cast').func.node.body
                        if not (isinstance(b, ast.Expr) and isinstance(b.value, ast.Constant))]
                if len(body) == 1 and isinstance(body[0], ast.Return) \
                        and isinstance(body[0].value, ast.Call) \
                        and dotted(body[0].value.func).startswith('self.'):
                    helpers.add(dotted(body[0].value.func))
        calls_cast = [n for n in walk_local(f.node) if isinstance(n, ast.Call)
                      and dotted(n.func) in ({'self.cast', 'self_.cast'} | helpers)]
        cfg = CFG(f.node)
        facts = branch_facts(cfg)

        def function_role(n: ast.AST) -> bool:
            for cn in cfg.nodes:
                if any(x is n for x in cn.walk()):
                    fs = facts[cn.id]
                    return "-self.label == 'constructor function'" in fs or \
                        "+self.label == 'function'" in fs
            return False
        direct = []
        for n in walk_local(f.node):
            if isinstance(n, ast.Call) and isinstance(n.func, (ast.Name, ast.Attribute)):
                kind, val = model.resolve_expr(f.module, n.func)
                hit = kind == 'class' and val.is_subclass_of(atomic) \
                    and val.name not in ('UntypedAtomic',)
                hit = hit or (isinstance(n.func, ast.Attribute)
                              and n.func.attr in ('make', 'fromstring')
                              and 'type_class' in dotted(n.func.value))
                if hit and not function_role(n):
                    direct.append(n)
        res.instances.append(f'{f.key} ({",".join(sorted(syms))[:60]}): cast calls='
                             f'{len(calls_cast)} (helpers {sorted(helpers)}) direct '
                             f'constructions in the constructor role={len(direct)}')
        pre = [c for c in calls_cast if dotted(c.func) in ('self.cast', 'self_.cast') and c.args
               and isinstance(c.args[0], ast.Call)
               and dotted(c.args[0].func) in ('str', 'int', 'float', 'bool', 'repr', 'Decimal',
                                              'decimal.Decimal')]
        if pre:
            res.fail(finding('R10.5', f, pre[0], f'{sorted(syms)[0]} pre-converts the argument',
                             f'evaluate of constructor {sorted(syms)} passes '
                             f'`{stmt_text(pre[0].args[0])[:40]}` to self.cast: the Python '
                             f'conversion replaces the XPath lexical form (str(True) is \'True\', '
                             f'str(Decimal(\'1.50\')) is \'1.50\') so xs:T(E) and `E cast as T` '
                             f'disagree'))
        if calls_cast and not direct:
            res.ok()
        else:
            res.fail(finding('R10.5', f, (direct or [f.node])[0],
                             f'{sorted(syms)[0]} bypasses cast',
                             f'evaluate of constructor {sorted(syms)} '
                             f'{"builds the value itself" if direct else "never calls self.cast"}'
                             f': xs:T(E) and `E cast as T` can disagree'))
    # cast / castable operator
    rec = reg.tables['XPath31Parser'].get('cast')
    if rec is None:
        raise AnalysisError("'cast' operator not registered")
    ev = rec.method('evaluate')
    assert ev is not None
    txt = [stmt_text(n) for n in walk_local(ev.func.node) if isinstance(n, ast.Call)]

    def has_lookup(node: ast.AST) -> bool:
        return any(isinstance(n, ast.Subscript) and stmt_text(n.value).endswith('symbol_table')
                   for n in ast.walk(node))
    # helpers of the same module that look the token class up in the symbol table and return it
    lookup_helpers = {g.name for g in ev.func.module.functions.values()
                      if g.parent is None and g is not ev.func and has_lookup(g.node)
                      and any(isinstance(r_, ast.Return) and r_.value is not None
                              for r_ in walk_local(g.node))}
    class_names = set()
    for n in walk_local(ev.func.node):
        if isinstance(n, (ast.Assign, ast.AnnAssign)) and n.value is not None:
            v = n.value
            if has_lookup(v) or any(isinstance(c_, ast.Call) and dotted(c_.func) in lookup_helpers
                                    for c_ in ast.walk(v)):
                class_names |= {t.id for t in (n.targets if isinstance(n, ast.Assign)
                                               else [n.target]) if isinstance(t, ast.Name)}
    lookup = bool(class_names)
    inst = any(isinstance(n, ast.Call) and isinstance(n.func, ast.Name) and n.func.id in class_names
               for n in walk_local(ev.func.node))
    casts = any('.cast(' in t for t in txt)
    res.instances.append(f'{ev.func.key}: symbol_table lookup={lookup} instantiates={inst} '
                         f'calls .cast={casts}')
    if inst and lookup and casts:
        res.ok()
    else:
        res.fail(finding('R10.5', ev.func, ev.func.node, 'cast operator',
                         'the cast/castable operator no longer instantiates the constructor '
                         'token and calls its cast(): it can disagree with xs:T(E)'))
    same = reg.tables['XPath31Parser'].get('castable')
    if same is not None and same.method('evaluate') is not None \
            and same.method('evaluate').func is ev.func:      # type: ignore[union-attr]
        res.ok()
    else:
        res.fail(finding('R10.5', ev.func, ev.func.node, 'castable shares cast',
                         'castable and cast no longer share one evaluate implementation'))
    return res


def r10_7(ctx, counts) -> RuleResult:
    """the text handed to the lexical check is the argument, not a widened rewrite of it"""
    model: Model = ctx.model
    res = RuleResult(
        'R10.7', 'VALIDATE-RAW-TEXT',
        'In the constructors of the datatype classes, the text passed to `validate(...)` or to '
        '`pattern.match(...)` is the argument after whitespace normalisation at most '
        '(collapse_white_spaces / strip — the XSD whiteSpace facet): no definition of it that '
        'reaches the check deletes characters (`.replace(x, "")`, re.sub(…, "", …), '
        '.translate). Deleting characters first widens the accepted lexical space beyond the '
        'pattern (xs:hexBinary("ab cd")) while is_valid(), which validates the raw text, still '
        'rejects it.')
    n = 0
    for f in sorted(model.all_functions(), key=lambda q: q.key):
        if not f.module.name.startswith('elementpath.datatypes') or \
                f.name not in ('__init__', '__new__', 'fromstring', 'make'):
            continue
        checks = [c for c in walk_local(f.node) if isinstance(c, ast.Call)
                  and isinstance(c.func, ast.Attribute) and c.args
                  and (c.func.attr == 'validate' or
                       (c.func.attr in ('match', 'fullmatch') and 'pattern' in stmt_text(c.func.value)))
                  and isinstance(c.args[0], ast.Name)]
        if not checks:
            continue
        cfg = CFG(f.node)
        for c in checks:
            var = c.args[0].id                                          # type: ignore[attr-defined]
            here = None
            for nd in cfg.nodes:
                if nd.ast is None or nd.kind not in ('stmt', 'test'):
                    continue
                root = nd.ast.test if isinstance(nd.ast, (ast.If, ast.While)) else nd.ast
                if any(x is c for x in ast.walk(root)):
                    here = nd
                    break
            if here is None:
                continue
            defs = [nd for nd in cfg.nodes if nd.kind == 'stmt'
                    and isinstance(nd.ast, (ast.Assign, ast.AnnAssign, ast.AugAssign))
                    and any(isinstance(t, ast.Name) and t.id == var for t in ast.walk(
                        nd.ast.targets[0] if isinstance(nd.ast, ast.Assign) else nd.ast.target))]
            n += 1
            bad = None
            for d in defs:
                if d is here:
                    continue
                if cfg.path_avoiding([d], lambda q: q is here,
                                     lambda q, d=d: q in defs and q is not d) is None:
                    continue
                val = d.ast.value                                       # type: ignore[union-attr]
                for x in ast.walk(val) if val is not None else []:
                    if isinstance(x, ast.Call) and isinstance(x.func, ast.Attribute):
                        if x.func.attr == 'replace' and len(x.args) >= 2 and \
                                isinstance(x.args[1], ast.Constant) and x.args[1].value in ('', b''):
                            bad = (d, x)
                        elif x.func.attr == 'translate':
                            bad = (d, x)
                        elif x.func.attr == 'sub' and len(x.args) >= 2 and \
                                isinstance(x.args[0], ast.Constant) and x.args[0].value == '':
                            bad = (d, x)
            res.instances.append(f'{f.key}: {stmt_text(c)[:40]} checks '
                                 f'{"a REWRITTEN text" if bad else "the (whitespace-normalised) argument"}')
            if bad is None:
                res.ok()
            else:
                res.fail(finding('R10.7', f, bad[1], f'{var} rewritten before {c.func.attr}',
                                 f'`{stmt_text(bad[0].ast)[:60]}` deletes characters from '
                                 f'`{var}` before `{stmt_text(c)[:40]}` checks it: text outside '
                                 f'the lexical space of the type is accepted by the constructor '
                                 f'(and still rejected by is_valid)'))
    counts['lexical_checks'] = n
    if n < 5:
        raise AnalysisError(f'only {n} lexical checks located in the datatype constructors')
    return res


def r10_8(ctx, counts) -> RuleResult:
    """value-space limits of xs:float"""
    model: Model = ctx.model
    res = RuleResult(
        'R10.8', 'FLOAT-VALUE-SPACE-LIMITS',
        'xs:float is IEEE 754 single precision: the largest finite value is (2 − 2^-23)·2^127 ≈ '
        '3.4028235E38 and the smallest positive one is the subnormal 2^-149 ≈ 1.4E-45. The '
        'constructor of the Float class emulates the range on a Python float with comparisons '
        'against constants; constant folding of those comparisons must give an overflow bound in '
        '[3.4028234E38, 3.4028236E38] and a flush-to-zero threshold not above 2^-149: a larger '
        'threshold turns representable values into zero (xs:float("1.17549435E-38"), the '
        'smallest normal value, was 0).')
    cls = model.find_class('Float')
    f = cls.methods.get('__new__')
    if f is None:
        raise AnalysisError('Float.__new__ vanished')
    n = 0
    for cmp_ in [x for x in walk_local(f.node) if isinstance(x, ast.Compare)]:
        for e in [cmp_.left] + list(cmp_.comparators):
            try:
                v = model.fold(f.module, e)
            except Exception:
                continue
            if isinstance(v, bool) or not isinstance(v, (int, float)) or v == 0:
                continue
            a = abs(float(v))
            n += 1
            if a > 1:
                ok = 3.4028234e38 <= a <= 3.4028236e38
                res.instances.append(f'{f.key}: overflow bound {v!r} within single precision '
                                     f'maximum={ok}')
                what = 'overflow bound'
            else:
                ok = a <= 2 ** -149
                res.instances.append(f'{f.key}: flush-to-zero threshold {v!r} <= 2^-149={ok}')
                what = 'underflow threshold'
            if ok:
                res.ok()
            else:
                res.fail(finding('R10.8', f, cmp_, f'{what} {v!r}',
                                 f'`{stmt_text(cmp_)[:60]}`: the {what} {v!r} is not the '
                                 f'single-precision limit (max 3.4028235E38, min subnormal '
                                 f'2^-149 = 1.4E-45): representable xs:float values become '
                                 f'{"INF" if a > 1 else "0"}'))
    counts['float_limit_constants'] = n
    if n < 3:
        raise AnalysisError(f'{f.key}: only {n} range constants located')
    return res


GATES = ('validate', 'fromstring', '__new__', '__init__')


def r10_13(ctx, counts) -> RuleResult:
    """the lexical pattern of a datatype class is what its text gate matches against"""
    model: Model = ctx.model
    res = RuleResult(
        'R10.13', 'PATTERN-GATES-TEXT',
        'A datatype class that declares its lexical space as a `pattern` (a LazyPattern / regex '
        'class attribute other than the placeholder ^$) accepts text only through that pattern: '
        'among the methods validate / fromstring / __new__ / __init__ that the class inherits or '
        'defines, at least one matches `cls.pattern` / `self.pattern` against the text, and a '
        'method of that set that the class itself overrides either does so or delegates to '
        '`super().<same method>(..)` — an override that decides by other means (a strict base64 '
        'decode, a length test) detaches the constructor, is_valid, cast and castable from the '
        'declared lexical space while they still agree with each other.')
    n = 0
    for cls in sorted(model.all_classes(), key=lambda c: c.key):
        if not cls.module.name.startswith('elementpath.datatypes'):
            continue
        pat = cls.attrs.get('pattern')
        if pat is None or "'^$'" in stmt_text(pat) or '"^$"' in stmt_text(pat):
            continue
        n += 1

        def uses_pattern(fn) -> bool:
            return any(isinstance(x, ast.Attribute) and x.attr == 'pattern'
                       and isinstance(x.value, ast.Name) and x.value.id in ('cls', 'self')
                       for x in ast.walk(fn.node))

        def delegates(fn) -> bool:
            return any(isinstance(x, ast.Call) and isinstance(x.func, ast.Attribute)
                       and x.func.attr == fn.name and isinstance(x.func.value, ast.Call)
                       and dotted(x.func.value.func) == 'super' for x in ast.walk(fn.node))
        own = [cls.methods[g] for g in GATES if g in cls.methods]
        inherited = [c.methods[g] for c in cls.mro() for g in GATES if g in c.methods]
        any_gate = any(uses_pattern(fn) for fn in inherited)
        cut = [fn for fn in own if fn.name in ('validate', 'fromstring')
               and not uses_pattern(fn) and not delegates(fn)]
        res.instances.append(f'{cls.key}: pattern matched by a gate: {any_gate}; own gates '
                             f'{[fn.name for fn in own]} bypassing it: {[fn.name for fn in cut]}')
        if any_gate and not cut:
            res.ok()
        elif cut:
            res.fail(finding('R10.13', cut[0], cut[0].node, f'{cls.name}.{cut[0].name} ignores pattern',
                             f'{cls.name} declares its lexical space with `pattern` but its own '
                             f'{cut[0].name}() neither matches the text against it nor delegates '
                             f'to super().{cut[0].name}(): the constructor, is_valid, cast and '
                             f'castable accept whatever the replacement test accepts'))
        else:
            res.fail(finding('R10.13', None, cls.node, f'{cls.name} pattern never matched',
                             f'{cls.name} declares `pattern` but no validate / fromstring / '
                             f'__new__ / __init__ in its MRO matches text against it',
                             module=cls.module))
    counts['classes_with_lexical_pattern'] = n
    if n < 15:
        raise AnalysisError(f'datatype classes with a lexical pattern located: {n} < 15')
    return res


def r10_14(ctx, counts) -> RuleResult:
    """binary values are compared in their value space (octets), not by their lexical text"""
    model: Model = ctx.model
    res = RuleResult(
        'R10.14', 'BINARY-COMPARES-OCTETS',
        'The value space of xs:hexBinary and xs:base64Binary is octet sequences; `.value` holds '
        'the lexical text (hex digits in either case, base64 characters whose alphabet order is '
        'not the order of the octets). The comparison methods of the binary classes (__eq__, '
        '__ne__, __lt__, __le__, __gt__, __ge__) and the methods of the same classes they call on '
        'self therefore never read `.value`: they compare `decode()` results. Ordering '
        'xs:base64Binary("AA==") after "0w==" and xs:hexBinary("ab") after "AB" follows the text.')
    base = model.find_class('AbstractBinary')
    if base is None:
        raise AnalysisError('AbstractBinary vanished')
    classes = [base] + model.subclasses_of(base)
    cmp_names = ('__eq__', '__ne__', '__lt__', '__le__', '__gt__', '__ge__')
    n = 0
    for cls in classes:
        todo = [cls.methods[m] for m in cmp_names if m in cls.methods]
        seen = set()
        while todo:
            fn = todo.pop()
            if fn in seen:
                continue
            seen.add(fn)
            n += 1
            reads = [x for x in ast.walk(fn.node) if isinstance(x, ast.Attribute)
                     and x.attr == 'value' and isinstance(x.ctx, ast.Load)
                     and isinstance(x.value, ast.Name) and x.value.id in fn.params()]
            res.instances.append(f'{fn.key}: reads of the lexical text (.value): {len(reads)}')
            if not reads:
                res.ok()
            else:
                res.fail(finding('R10.14', fn, reads[0], f'{fn.name} compares .value',
                                 f'{fn.name} (reached from a comparison method of {cls.name}) reads '
                                 f'`{stmt_text(reads[0])}`, the lexical text: binary values compare '
                                 f'as octet sequences (decode()), the order of base64 characters '
                                 f'and the case of hex digits are not the order of the octets'))
            for c in ast.walk(fn.node):
                if isinstance(c, ast.Call) and isinstance(c.func, ast.Attribute) \
                        and isinstance(c.func.value, ast.Name) and c.func.value.id == 'self' \
                        and c.func.attr not in ('decode', 'encoder', 'validate'):
                    for k in cls.mro():
                        if c.func.attr in k.methods:
                            todo.append(k.methods[c.func.attr])
                            break
    counts['binary_comparison_methods'] = n
    if n < 5:
        raise AnalysisError(f'binary comparison methods located: {n} < 5')
    return res


def run(ctx) -> dict:
    spec = json.load(open(SPEC))
    counts: dict[str, int] = {}
    results = [r10_1(ctx, counts, spec), r10_2(ctx, counts, spec), r10_3(ctx, counts, spec),
               r10_4(ctx, counts, spec), r10_5(ctx, counts, spec)]
    # R10.6: casting a double/decimal to text must not lose the exponent (shared rule)
    from .zerostrip import zero_strip_rule
    json_mods = ('elementpath.serialization', 'elementpath.xpath31._xpath31_functions',
                 'elementpath.xpath30._xpath30_functions')
    r6 = zero_strip_rule(ctx, 'R10.6', lambda f: f.module.name not in json_mods, counts)
    if len(r6.instances) < 3:
        raise AnalysisError(f'R10.6: only {len(r6.instances)} trailing-zero strips located')
    results.append(r6)
    results.append(r10_7(ctx, counts))
    results.append(r10_8(ctx, counts))
    # memoised conversion helpers must be keyed by strings only (0.0 / -0.0 share a slot)
    from .c05_purity import r05_7, r05_10
    results.append(r05_7(ctx, counts))
    _m = r05_10(ctx, counts)
    _m.title = 'ARGUMENT-KEYED-MEMO (R05.10 shared: a cached constructor token serves one parser)'
    results.append(_m)
    # the lexical -> value mapping of timezone offsets keeps the sign of -00:MM
    from .c11_datetime import r11_5, r11_8
    results.append(r11_5(ctx, counts))
    # a value memoised on a date/time object (hash, delta) is reset by every setter it depends on:
    # equal values must keep equal hashes after adjust-*-to-timezone
    results.append(r11_8(ctx, counts))
    results.append(r10_13(ctx, counts))
    results.append(r10_14(ctx, counts))
    # process-wide state is written only by the reviewed inventory (no new caches)
    from .c19_global import r19_5 as _r19_5
    _state = _r19_5(ctx, counts, lambda f: f.module.name.startswith(('elementpath.datatypes', 'elementpath.helpers', 'elementpath.xpath2._xpath2_operators', 'elementpath.xpath2._xpath2_constructors')), 1)
    return {
        'results': results + [_state], 'counts': counts,
        'explanation':
            'Decided statically: integer bounds and the derivation tree equal XSD\'s (constant '
            'folding + class hierarchy); lexical patterns of integer/decimal/double/float/'
            'boolean/hexBinary/language equal the XSD productions as regular languages and '
            'sibling patterns agree (regex AST → NFA → DFA product search, shortest witness on '
            'mismatch); string constructors consult the class pattern; the type registry and '
            'the constructor tokens correspond and each has a cast; constructor call and cast '
            'operator funnel through the same cast().',
        'not_decided':
            'Canonical forms and fixed points, value preservation along the casting table, and '
            'castable ⇔ cast-succeeds for all values: statements over values. Patterns with '
            'look-ahead (duration) or Unicode word classes (Name family) are compared with '
            'siblings only.',
        'assumptions': ['sa/specs/xsd_types.json transcribes XSD Part 2',
                        'CPython re._parser gives the syntax tree the matcher uses'],
    }
