"""
Thorough-tier rule MUTATION-THROUGH-CALLEE (interprocedural extension of R05.3 / R15.1).

Function summaries, computed to a fixpoint over the resolved call graph (tiers direct, self,
anno, token — never by-name): the set of parameters a function mutates in place, directly
(attribute/subscript store or delete, augmented assignment on a subscript, a mutator method
call) or by passing the parameter to a callee that mutates the corresponding parameter. A
parameter that the function re-binds anywhere (`p = copy(p)`, `p = list(p)`) is not counted.

Obligation: in dynamic-phase functions a value owned by an operand — obtained from
get_argument/get_operands/atomization/…, from the storage accessors of maps and arrays, or by
iterating such a value — is not passed to a parameter that the callee mutates.
"""
from __future__ import annotations

import ast

from ..engine.srcmodel import FuncInfo, dotted, stmt_text, walk_local
from ..engine.report import RuleResult
from .common import finding

MUTATORS = {'append', 'extend', 'insert', 'pop', 'remove', 'clear', 'sort', 'reverse', 'update',
            'setdefault', 'add', 'discard', 'popitem', '__setitem__', '__delitem__'}
SOURCES = {'get_argument', 'get_operands', 'get_atomized_operand', 'atomization', 'data_value',
           'select_data_values', 'items', 'values', 'select', 'evaluate', 'select_results',
           'get_results', 'iter_select', 'select_with_focus', 'iter_flatten', 'select_flatten'}
SAFE_TIERS = {'direct', 'self', 'anno', 'token'}


def direct_mutations(f: FuncInfo) -> set[str]:
    params = set(f.params())
    rebound = {t.id for st in walk_local(f.node)
               if isinstance(st, (ast.Assign, ast.AnnAssign, ast.AugAssign, ast.For))
               for tg in ([st.target] if not isinstance(st, ast.Assign) else st.targets)
               for t in ast.walk(tg) if isinstance(t, ast.Name) and isinstance(t.ctx, ast.Store)}
    out: set[str] = set()
    for n in walk_local(f.node):
        tgts: list[ast.AST] = []
        if isinstance(n, (ast.Assign, ast.Delete)):
            for t in n.targets:
                tgts.extend(t.elts if isinstance(t, ast.Tuple) else [t])
        elif isinstance(n, (ast.AugAssign, ast.AnnAssign)):
            tgts = [n.target]
        for t in tgts:
            if isinstance(t, (ast.Attribute, ast.Subscript)) and isinstance(t.value, ast.Name) \
                    and t.value.id in params:
                out.add(t.value.id)
        if isinstance(n, ast.Call) and isinstance(n.func, ast.Attribute) and \
                n.func.attr in MUTATORS and isinstance(n.func.value, ast.Name) and \
                n.func.value.id in params:
            out.add(n.func.value.id)
    star = {a.arg for a in (f.node.args.vararg, f.node.args.kwarg) if a is not None}
    return {p for p in out if p not in rebound and p not in ('self', 'cls') and p not in star}


def param_for_arg(callee: FuncInfo, call: ast.Call, arg_index: int | None, kw: str | None):
    ps = callee.params()
    off = 1 if ps and ps[0] in ('self', 'cls') and not (
        isinstance(call.func, ast.Name)) else 0
    if kw is not None:
        return kw if kw in ps else None
    if arg_index is not None and arg_index + off < len(ps):
        return ps[arg_index + off]
    return None


def summaries(model, cg) -> dict[FuncInfo, set[str]]:
    mut = {f: direct_mutations(f) for f in model.all_functions()}
    changed = True
    rounds = 0
    while changed and rounds < 20:
        changed = False
        rounds += 1
        for f, sites in cg.sites.items():
            params = set(f.params())
            rebound = set()
            for cs in sites:
                if cs.tier not in SAFE_TIERS:
                    continue
                for g in cs.targets:
                    if not mut.get(g):
                        continue
                    for i, a in enumerate(cs.node.args):
                        if isinstance(a, ast.Name) and a.id in params and a.id not in ('self', 'cls'):
                            q = param_for_arg(g, cs.node, i, None)
                            if q in mut[g] and a.id not in mut[f] and a.id not in rebound:
                                # not re-bound in f?
                                if not any(isinstance(t, ast.Name) and t.id == a.id and
                                           isinstance(t.ctx, ast.Store)
                                           for st in walk_local(f.node) for t in ast.walk(st)):
                                    mut[f].add(a.id)
                                    changed = True
    return mut


def mutation_through_callee(ctx, rule_id: str, counts: dict[str, int]) -> RuleResult:
    from ..engine.callgraph import CallGraph
    model = ctx.model
    cg = ctx.memo('callgraph', lambda: CallGraph(model, ctx.reg))
    dyn, par = ctx.memo('phases', lambda: cg.phases())
    res = RuleResult(
        rule_id, 'MUTATION-THROUGH-CALLEE',
        'Interprocedural: per-function summaries "mutates parameter p in place" are computed to a '
        'fixpoint over the resolved call graph (direct/self/annotation/token tiers). In every '
        'dynamic-phase function, a value owned by an operand (from get_argument/get_operands/'
        'atomization/…, from .items()/.values() of a map or array, or a loop variable over one) '
        'is never passed to a parameter that the callee mutates. Complements the intraprocedural '
        'R05.3/R15.1, which see only stores in the function itself.')
    mut = summaries(model, cg)
    n_mut = sum(1 for v in mut.values() if v)
    n_sites = 0
    for f in sorted(dyn, key=lambda q: q.key):
        owned: set[str] = set()
        for st in walk_local(f.node):
            if isinstance(st, (ast.Assign, ast.AnnAssign)) and isinstance(st.value, ast.Call) and \
                    dotted(st.value.func).split('.')[-1] in SOURCES:
                tg = st.targets[0] if isinstance(st, ast.Assign) else st.target
                for x in ast.walk(tg):
                    if isinstance(x, ast.Name):
                        owned.add(x.id)
            if isinstance(st, ast.For) and isinstance(st.iter, ast.Name) and st.iter.id in owned:
                for x in ast.walk(st.target):
                    if isinstance(x, ast.Name):
                        owned.add(x.id)
        # a name re-bound to a copy loses ownership (flow-insensitive: any copying re-binding)
        for st in walk_local(f.node):
            if isinstance(st, ast.Assign) and isinstance(st.value, ast.Call) and \
                    dotted(st.value.func).split('.')[-1] in ('copy', 'deepcopy', 'list', 'dict',
                                                             'sorted', 'xlist', 'set', 'tuple'):
                for t in st.targets:
                    if isinstance(t, ast.Name):
                        owned.discard(t.id)
        if not owned:
            continue
        for cs in cg.sites.get(f, ()):
            if cs.tier not in SAFE_TIERS:
                continue
            for g in cs.targets:
                if not mut.get(g):
                    continue
                for i, a in enumerate(cs.node.args):
                    if isinstance(a, ast.Name) and a.id in owned:
                        n_sites += 1
                        q = param_for_arg(g, cs.node, i, None)
                        if q in mut[g]:
                            res.fail(finding(rule_id, f, cs.node, f'{a.id} -> {g.name}({q})',
                                             f'`{stmt_text(cs.node)[:60]}` passes the operand-owned '
                                             f'value `{a.id}` to parameter `{q}` of {g.key}, which '
                                             f'mutates that parameter in place (directly or through '
                                             f'its own callees): the caller\'s value changes'))
                        else:
                            res.ok()
    res.instances.append(f'{n_mut} functions mutate at least one parameter; {n_sites} call sites '
                         f'pass an operand-owned name to a resolved callee')
    res.samples.extend({'function': k.key, 'mutated_params': sorted(v)}
                       for k, v in sorted(mut.items(), key=lambda kv: kv[0].key) if v)
    counts[f'{rule_id}.mutating_functions'] = n_mut
    counts[f'{rule_id}.owned_arg_sites'] = n_sites
    return res
