"""
C11 — date/time/duration values: the component-extraction clause only.

R11.1 COMPONENT-TABLE    each fn:<component>-from-<type> function reads, on the branch its own
                         symbol selects, the component its name says, from an argument of the
                         class its name says
R11.2 MICROSECOND-SCALE  wherever a microsecond count is converted to or from text or a
                         fraction of a second, the conversion carries the factor 10^6
                         (zero-padded width 6 / division by 1000000)

The timeline identities of C11 (todelta/fromdelta, d + dur - dur = d, instant ordering,
timezone adjustment) are statements over calendar values and are not decided.
"""
from __future__ import annotations

import ast
import re
import string
from typing import Optional

from ..engine.srcmodel import AnalysisError, FuncInfo, Model, dotted, stmt_text, walk_local
from ..engine.report import RuleResult
from .common import finding, enclosing_map

# component word in the function name -> attributes of the value that the result must read
DT_COMPONENTS = {
    'year': {'year'}, 'month': {'month'}, 'day': {'day'}, 'hours': {'hour'},
    'minutes': {'minute'}, 'seconds': {'second', 'microsecond'}, 'timezone': {'tzinfo'},
}
DUR_COMPONENTS = {
    'years': {'months'}, 'months': {'months'}, 'days': {'seconds'}, 'hours': {'seconds'},
    'minutes': {'seconds'}, 'seconds': {'seconds'},
}
TYPE_CLASSES = {'dateTime': ('DateTime', 'DateTime10'), 'date': ('Date', 'Date10'),
                'time': ('Time',), 'duration': ('Duration',)}
ALL_ATTRS = set().union(*DT_COMPONENTS.values()) | {'months', 'seconds'}


def fold_symbol_test(test: ast.expr, symbol: str) -> Optional[bool]:
    """value of a test that depends only on self.symbol, else None"""
    if isinstance(test, ast.Call) and isinstance(test.func, ast.Attribute) and \
            dotted(test.func.value) == 'self.symbol' and len(test.args) == 1 and \
            isinstance(test.args[0], ast.Constant) and isinstance(test.args[0].value, (str, tuple)):
        if test.func.attr == 'startswith':
            return symbol.startswith(test.args[0].value)
        if test.func.attr == 'endswith':
            return symbol.endswith(test.args[0].value)
    if isinstance(test, ast.Compare) and len(test.ops) == 1 and \
            dotted(test.left) == 'self.symbol' and isinstance(test.comparators[0], ast.Constant):
        v = test.comparators[0].value
        if isinstance(test.ops[0], ast.Eq):
            return symbol == v
        if isinstance(test.ops[0], ast.NotEq):
            return symbol != v
        if isinstance(test.ops[0], ast.In) and isinstance(v, str):
            return symbol in v
    if isinstance(test, ast.Compare) and len(test.ops) == 1 and \
            dotted(test.left) == 'self.symbol' and isinstance(test.ops[0], ast.In) and \
            isinstance(test.comparators[0], (ast.Tuple, ast.Set, ast.List)) and all(
                isinstance(x, ast.Constant) for x in test.comparators[0].elts):
        return symbol in {x.value for x in test.comparators[0].elts}
    if isinstance(test, ast.UnaryOp) and isinstance(test.op, ast.Not):
        v = fold_symbol_test(test.operand, symbol)
        return None if v is None else not v
    return None


def always_exits(body: list[ast.stmt]) -> bool:
    if not body:
        return False
    last = body[-1]
    if isinstance(last, (ast.Return, ast.Raise)):
        return True
    if isinstance(last, ast.If):
        return always_exits(last.body) and always_exits(last.orelse)
    return False


def specialise(body: list[ast.stmt], symbol: str) -> list[ast.stmt]:
    """the statements that can execute when self.symbol == symbol (if-chains on the symbol
    folded, unreachable tails dropped; everything else kept)"""
    out: list[ast.stmt] = []
    for st in body:
        if isinstance(st, ast.If):
            v = fold_symbol_test(st.test, symbol)
            if v is True:
                out.extend(specialise(st.body, symbol))
            elif v is False:
                out.extend(specialise(st.orelse, symbol))
            else:
                cp = ast.If(test=st.test, body=specialise(st.body, symbol) or [ast.Pass()],
                            orelse=specialise(st.orelse, symbol))
                ast.copy_location(cp, st)
                out.append(cp)
        else:
            out.append(st)
        if always_exits(out):
            return out
    return out


def r11_1(ctx, counts) -> RuleResult:
    model: Model = ctx.model
    reg = ctx.reg
    res = RuleResult(
        'R11.1', 'COMPONENT-TABLE',
        'For every registered function named <component>-from-<type> with type in dateTime, '
        'date, time, duration: (a) the argument is fetched with cls= the class of that type '
        '(the XSD 1.0/1.1 pair where the code selects by xsd_version); (b) after folding the '
        'tests on self.symbol with the function\'s own symbol, every value-returning statement '
        'that reads a component attribute of the argument reads exactly the attributes the '
        'table prescribes (year/month/day/hour/minute/second+microsecond/tzinfo; for durations '
        'years,months <- months and days,hours,minutes,seconds <- seconds) and no other '
        'component. The arithmetic applied to duration fields is not decided.')
    n = 0
    for rec in reg.all_records():
        m = re.match(r'^([a-z]+)-from-(dateTime|date|time|duration)$', rec.symbol)
        if not m:
            continue
        ref = rec.method('evaluate')
        if ref is None or ref.func is None or ref.origin == 'class':
            continue
        comp, typ = m.groups()
        table = DUR_COMPONENTS if typ == 'duration' else DT_COMPONENTS
        if comp not in table:
            raise AnalysisError(f'{rec.symbol}: component {comp!r} not in the table')
        f: FuncInfo = ref.func
        n += 1
        # (a) argument class
        arg_names: set[str] = set()
        cls_ok = False
        cls_seen = ''
        cls_alias: dict[str, set[str]] = {}
        for st in walk_local(f.node):
            if isinstance(st, ast.Assign) and isinstance(st.targets[0], ast.Name) and \
                    isinstance(st.value, ast.IfExp):
                names = {dotted(st.value.body), dotted(st.value.orelse)}
                cls_alias[st.targets[0].id] = names
        for st in walk_local(f.node):
            if isinstance(st, (ast.Assign, ast.AnnAssign)) and isinstance(st.value, ast.Call) \
                    and dotted(st.value.func).endswith('get_argument'):
                tg = st.targets[0] if isinstance(st, ast.Assign) else st.target
                if isinstance(tg, ast.Name):
                    arg_names.add(tg.id)
                kw = {k.arg: k.value for k in st.value.keywords}
                if 'cls' in kw:
                    c = dotted(kw['cls'])
                    got = cls_alias.get(c, {c})
                    cls_seen = '/'.join(sorted(got))
                    cls_ok = got <= set(TYPE_CLASSES[typ]) and bool(got)
        if not arg_names:
            raise AnalysisError(f'{f.key}: get_argument assignment not located')
        if cls_ok:
            res.ok()
        else:
            res.fail(finding('R11.1', f, f.node, f'{rec.symbol} argument class',
                             f'{rec.symbol}: the argument is fetched with cls={cls_seen or "?"} '
                             f'but the function name promises {"/".join(TYPE_CLASSES[typ])}'))
        # (b) attributes read on the symbol's own branch
        body = specialise(f.node.body, rec.symbol)
        read: set[str] = set()
        returns = 0
        for st in body:
            for x in ast.walk(st):
                if isinstance(x, ast.Return) and x.value is not None:
                    returns += 1
                if isinstance(x, ast.Attribute) and isinstance(x.value, ast.Name) and \
                        x.value.id in arg_names and x.attr in ALL_ATTRS:
                    read.add(x.attr)
        want = table[comp]
        # timezone-from-date legitimately reads year/month/day to build the reference date
        extra_ok = {'year', 'month', 'day'} if comp == 'timezone' else set()
        res.instances.append(f'{rec.symbol} -> {f.name}: cls={cls_seen} reads {sorted(read)} '
                             f'(table: {sorted(want)})')
        if not returns:
            raise AnalysisError(f'{f.key}: no value-returning statement for {rec.symbol}')
        missing = want - read
        foreign = read - want - extra_ok
        # 'second' alone is accepted for seconds when microsecond is tested separately
        if not missing and not foreign:
            res.ok()
        else:
            res.fail(finding('R11.1', f, f.node, f'{rec.symbol} reads {"+".join(sorted(read)) or "nothing"}',
                             f'{rec.symbol}: on the branch selected by its own symbol the '
                             f'function reads {sorted(read)} of the argument; the component '
                             f'table prescribes {sorted(want)}'
                             + (f' (missing {sorted(missing)})' if missing else '')
                             + (f' (foreign {sorted(foreign)})' if foreign else '')))
    counts['component_functions'] = n
    if n < 20:
        raise AnalysisError(f'only {n} component-extraction functions located (expected 23)')
    return res


def _is_million(model: Model, mod, e: ast.expr) -> Optional[float]:
    v = model.try_fold(mod, e)
    if isinstance(v, (int, float)) and not isinstance(v, bool):
        return float(v)
    if isinstance(e, ast.Call) and dotted(e.func).split('.')[-1] == 'Decimal' and e.args and \
            isinstance(e.args[0], ast.Constant):
        try:
            return float(e.args[0].value)
        except (TypeError, ValueError):
            return None
    return None


def r11_2(ctx, counts) -> RuleResult:
    model: Model = ctx.model
    res = RuleResult(
        'R11.2', 'MICROSECOND-SCALE',
        'Every read of a .microsecond/.microseconds attribute that is converted (rather than '
        'passed on as a microsecond argument or tested for truth) carries the factor 10^6: in a '
        'format string its field is zero-padded to width 6 (%06d, {:06}); in arithmetic it is '
        'divided by 1000000 (or multiplied by 1e-6). Conversely a seconds fraction turned into '
        'microseconds is multiplied by 1000000. `"{}.{}".format(second, microsecond)` turns '
        '12 s + 5000 µs into 12.5.')
    sites = 0
    for f in sorted(model.all_functions(), key=lambda q: q.key):
        reads = [n for n in walk_local(f.node) if isinstance(n, ast.Attribute)
                 and n.attr in ('microsecond', 'microseconds') and isinstance(n.ctx, ast.Load)]
        if not reads:
            continue
        parents: dict[int, ast.AST] = {}
        for n in ast.walk(f.node):
            for c in ast.iter_child_nodes(n):
                parents[id(c)] = n
        for r in reads:
            p = parents.get(id(r))
            verdict: Optional[bool] = None
            how = ''
            # passed on as an argument / keyword / tuple element of a constructor call
            if isinstance(p, ast.keyword):
                continue
            if isinstance(p, ast.Call) and r in p.args:
                if isinstance(p.func, ast.Attribute) and p.func.attr == 'format' and \
                        isinstance(p.func.value, ast.Constant) and \
                        isinstance(p.func.value.value, str):
                    idx = p.args.index(r)
                    fields = [(name, spec) for _, name, spec, _ in
                              string.Formatter().parse(p.func.value.value) if name is not None]
                    spec = None
                    auto = 0
                    for name, sp in fields:
                        if name == '':
                            if auto == idx:
                                spec = sp
                            auto += 1
                        elif name.isdigit() and int(name) == idx:
                            spec = sp
                    if spec is None:
                        raise AnalysisError(f'{f.key}: format field of the microsecond argument '
                                            f'not located in {p.func.value.value!r}')
                    verdict = bool(re.fullmatch(r'0>?6d?|0?6d?', spec)) and spec.startswith('0')
                    how = f'format field {{:{spec}}}'
                else:
                    continue        # positional argument of a constructor/helper
            elif isinstance(p, ast.Tuple):
                gp = parents.get(id(p))
                if isinstance(gp, ast.BinOp) and isinstance(gp.op, ast.Mod) and \
                        isinstance(gp.left, ast.Constant) and isinstance(gp.left.value, str):
                    idx = p.elts.index(r)
                    specs = re.findall(r'%(?!%)([-+ #0]*\d*(?:\.\d+)?)[diouxXeEfFgGrsa]',
                                       gp.left.value)
                    if idx >= len(specs):
                        raise AnalysisError(f'{f.key}: % field of the microsecond not located')
                    verdict = specs[idx] == '06'
                    how = f'% field %{specs[idx]}d'
                else:
                    continue        # tuple of constructor arguments
            elif isinstance(p, ast.BinOp) and isinstance(p.op, (ast.Div, ast.Mult)):
                other = p.right if p.left is r else p.left
                v = _is_million(model, f.module, other)
                if v is None:
                    raise AnalysisError(f'{f.key}: scale of `{stmt_text(p)}` not foldable')
                verdict = (v == 1e6) if isinstance(p.op, ast.Div) and p.left is r else \
                    (abs(v - 1e-6) < 1e-18 if isinstance(p.op, ast.Mult) else False)
                how = f'arithmetic {stmt_text(p)[:40]}'
            elif isinstance(p, ast.FormattedValue):
                spec = ''.join(x.value for x in (p.format_spec.values if p.format_spec else [])
                               if isinstance(x, ast.Constant))
                verdict = spec in ('06', '06d')
                how = f'f-string field {{:{spec}}}'
            elif isinstance(p, (ast.If, ast.IfExp, ast.BoolOp, ast.UnaryOp, ast.Compare,
                                ast.While, ast.Return, ast.Assign)):
                if isinstance(p, (ast.Return, ast.Assign)):
                    continue        # the raw integer is handed on unchanged
                continue            # truth test / comparison
            else:
                raise AnalysisError(f'{f.key}: use of .{r.attr} in `{stmt_text(p)[:60]}` has a '
                                    f'form that R11.2 does not model')
            sites += 1
            res.instances.append(f'{f.key}: {how} -> {"scaled by 10^6" if verdict else "NOT scaled"}')
            if verdict:
                res.ok()
            else:
                res.fail(finding('R11.2', f, r, f'{how}',
                                 f'`{stmt_text(parents.get(id(p), p))[:80]}`: the microsecond '
                                 f'count is converted without the factor 10^6 ({how}); '
                                 f'12 s + 5000 µs becomes 12.5 instead of 12.005'))
    # the reverse direction: a value passed as `microseconds` that is computed by scaling
    seen_scaled: set[int] = set()
    for f in sorted(model.all_functions(), key=lambda q: q.key):
        for c in walk_local(f.node):
            if not (isinstance(c, ast.Call) and dotted(c.func).split('.')[-1] == 'timedelta'):
                continue
            arg = None
            for k in c.keywords:
                if k.arg == 'microseconds':
                    arg = k.value
            if arg is None and len(c.args) >= 3:
                arg = c.args[2]
            if arg is None:
                continue
            exprs = [arg]
            if isinstance(arg, ast.Name):
                exprs = []
                for n in walk_local(f.node):
                    if isinstance(n, ast.Assign):
                        t = n.targets[0]
                        if isinstance(t, ast.Name) and t.id == arg.id:
                            exprs.append(n.value)
                        elif isinstance(t, ast.Tuple) and isinstance(n.value, ast.Tuple) and \
                                len(t.elts) == len(n.value.elts):
                            for tt, vv in zip(t.elts, n.value.elts):
                                if isinstance(tt, ast.Name) and tt.id == arg.id:
                                    exprs.append(vv)
            for e in exprs:
                for x in ast.walk(e):
                    if isinstance(x, ast.BinOp) and isinstance(x.op, ast.Mult):
                        for side in (x.left, x.right):
                            v = _is_million(model, f.module, side)
                            if v is not None and v >= 10 and id(x) not in seen_scaled:
                                seen_scaled.add(id(x))
                                sites += 1
                                ok = v == 1e6
                                res.instances.append(
                                    f'{f.key}: timedelta microseconds from `{stmt_text(x)[:40]}` '
                                    f'-> {"scaled by 10^6" if ok else "NOT scaled by 10^6"}')
                                if ok:
                                    res.ok()
                                else:
                                    res.fail(finding(
                                        'R11.2', f, x, f'microseconds scaled by {v:g}',
                                        f'`{stmt_text(x)[:60]}` is passed to timedelta as '
                                        f'microseconds but scales the seconds fraction by {v:g} '
                                        f'instead of 1000000: durations that differ below a '
                                        f'millisecond compare wrongly'))
    counts['microsecond_conversions'] = sites
    if sites < 5:
        raise AnalysisError(f'only {sites} microsecond conversions located')
    return res


def r11_3(ctx, counts) -> RuleResult:
    model: Model = ctx.model
    res = RuleResult(
        'R11.3', 'PROXY-COMPONENT-PROPERTIES',
        'The component properties of AbstractDateTime that the extraction functions read '
        '(month, day, hour, minute, second, microsecond) return the attribute of the same name '
        'of the proxy datetime `self._dt`; `year` returns the separately stored `self._year` '
        '(the proxy year is not the value\'s year).')
    cls = model.find_class('AbstractDateTime')
    n = 0
    for name in ('month', 'day', 'hour', 'minute', 'second', 'microsecond', 'year'):
        f = cls.methods.get(name)
        if f is None:
            raise AnalysisError(f'AbstractDateTime.{name} property vanished')
        rets = [x for x in walk_local(f.node) if isinstance(x, ast.Return) and x.value is not None]
        if len(rets) != 1:
            raise AnalysisError(f'AbstractDateTime.{name}: single return expected')
        got = dotted(rets[0].value) if isinstance(rets[0].value, (ast.Attribute, ast.Name)) else \
            stmt_text(rets[0].value)
        want = 'self._year' if name == 'year' else f'self._dt.{name}'
        n += 1
        res.instances.append(f'AbstractDateTime.{name} returns {got}')
        if got == want:
            res.ok()
        else:
            res.fail(finding('R11.3', f, rets[0], f'{name} returns {got}',
                             f'AbstractDateTime.{name} returns `{got}`; the component of that '
                             f'name is `{want}`'))
    counts['component_properties'] = n
    return res


def r11_5(ctx, counts) -> RuleResult:
    model: Model = ctx.model
    res = RuleResult(
        'R11.5', 'SIGN-FROM-TEXT',
        'In Timezone.fromstring the sign of the offset is read from the text (startswith("-"), a '
        'regex group, a comparison of the first character): it is not decided by comparing the '
        'integer value of the hours component with zero, because int("-00") == 0 loses the sign '
        'of the offsets -00:01 … -00:59.')
    cls = model.find_class('Timezone')
    f = cls.methods.get('fromstring')
    if f is None:
        raise AnalysisError('Timezone.fromstring vanished')
    int_names: set[str] = set()
    for st in walk_local(f.node):
        if isinstance(st, ast.Assign):
            v = st.value
            is_int = (isinstance(v, ast.Call) and dotted(v.func) == 'int') or \
                (isinstance(v, ast.Call) and dotted(v.func) == 'map' and v.args and
                 dotted(v.args[0]) == 'int')
            if is_int:
                for t in st.targets:
                    for x in ast.walk(t):
                        if isinstance(x, ast.Name):
                            int_names.add(x.id)
    text_sign = any(
        (isinstance(c, ast.Call) and isinstance(c.func, ast.Attribute)
         and c.func.attr in ('startswith', 'group', 'lstrip') and c.args
         and isinstance(c.args[0], ast.Constant) and '-' in str(c.args[0].value))
        or (isinstance(c, ast.Compare) and any(isinstance(k, ast.Constant) and k.value in ('-', '+')
                                               for k in c.comparators))
        for c in walk_local(f.node))
    bad = [c for c in walk_local(f.node) if isinstance(c, ast.Compare) and len(c.ops) == 1
           and isinstance(c.ops[0], (ast.Lt, ast.GtE, ast.Gt, ast.LtE))
           and isinstance(c.comparators[0], ast.Constant) and c.comparators[0].value == 0
           and ((isinstance(c.left, ast.Name) and c.left.id in int_names) or
                (isinstance(c.left, ast.Call) and dotted(c.left.func) == 'int'))]
    res.instances.append(f'{f.key}: sign read from the text={text_sign}; numeric sign tests on '
                         f'int components: {len(bad)}')
    if bad:
        res.fail(finding('R11.5', f, bad[0], 'sign from int component',
                         f'`{stmt_text(bad[0])}` decides the sign of the timezone from the integer '
                         f'value of a component: "-00:30" parses as +00:30'))
    elif not text_sign:
        raise AnalysisError('Timezone.fromstring: no sign test located')
    else:
        res.ok()
    counts['timezone_sign_tests'] = 1
    return res


def _clones(ctx, counts) -> RuleResult:
    """the 400/100/4-year cycle arithmetic of todelta/fromdelta and the date/time sibling
    classes are written as cloned blocks: the clones must be consistent"""
    from .clones import clone_rule
    r = clone_rule(ctx, 'R11.4', lambda f: f.module.name in (
        'elementpath.datatypes.datetime', 'elementpath.helpers'), counts)
    if len(r.instances) < 3:
        raise AnalysisError(f'R11.4: only {len(r.instances)} clone pairs located in datetime.py')
    return r


def r11_6(ctx, counts) -> RuleResult:
    """timedelta components are not sign-magnitude digits"""
    model: Model = ctx.model
    res = RuleResult(
        'R11.6', 'TIMEDELTA-PARTS-SUMMED',
        'datetime.timedelta is normalised with 0 <= seconds < 86400 and 0 <= microseconds < 10^6; '
        'only `days` carries the sign (-0.5 s is days=-1, seconds=86399, microseconds=500000). '
        'The value in seconds is therefore the SUM days*86400 + seconds + microseconds/10^6. '
        'Wherever the datatypes build a number of seconds from the parts of a timedelta, the '
        'microseconds enter arithmetically (a `+` with a division by 10^6, or total_seconds()), '
        'never as the digits after a decimal point of a formatted string ("{}.{:06}"): the '
        'concatenation is the sum only for non-negative values (the difference -0.5 s was '
        'reported as -1.5 s).')
    n = 0
    for f in sorted(model.all_functions(), key=lambda q: q.key):
        if not f.module.name.startswith(('elementpath.datatypes', 'elementpath.helpers')):
            continue
        for x in walk_local(f.node):
            args: list[ast.expr] = []
            fmt: Optional[str] = None
            if isinstance(x, ast.Call) and isinstance(x.func, ast.Attribute) \
                    and x.func.attr == 'format' and isinstance(x.func.value, ast.Constant) \
                    and isinstance(x.func.value.value, str):
                fmt, args = x.func.value.value, list(x.args)
            elif isinstance(x, ast.BinOp) and isinstance(x.op, ast.Mod) \
                    and isinstance(x.left, ast.Constant) and isinstance(x.left.value, str):
                fmt = x.left.value
                args = list(x.right.elts) if isinstance(x.right, ast.Tuple) else [x.right]
            elif isinstance(x, ast.JoinedStr):
                fmt = ''.join(v.value if isinstance(v, ast.Constant) else '{}' for v in x.values)
                args = [v.value for v in x.values if isinstance(v, ast.FormattedValue)]
            if fmt is None or not args:
                continue
            micro = [a for a in args if any(isinstance(y, ast.Attribute) and y.attr == 'microseconds'
                                            for y in ast.walk(a))]
            whole = [a for a in args if any(isinstance(y, ast.Attribute) and y.attr in ('days', 'seconds')
                                            for y in ast.walk(a))]
            if not micro:
                continue
            n += 1
            joined = bool(whole) and re.search(r'[}sd]\.[{%]', fmt) is not None
            res.instances.append(f'{f.key}: `{stmt_text(x)[:60]}` joins the whole and the fractional '
                                 f'part of a timedelta as text={joined}')
            if not joined:
                res.ok()
            else:
                res.fail(finding('R11.6', f, x, 'timedelta parts joined as digits',
                                 f'`{stmt_text(x)[:70]}` writes days/seconds and microseconds of a '
                                 f'timedelta on the two sides of a decimal point: for a negative '
                                 f'timedelta the parts have different signs (-0.5 s = -1 s + '
                                 f'500000 µs gives "-1.500000")'))
        for x in walk_local(f.node):
            if isinstance(x, ast.Attribute) and x.attr == 'microseconds' and \
                    f.name in ('fromtimedelta',):
                n += 1
                res.instances.append(f'{f.key}: reads .microseconds of the timedelta')
                res.ok()
                break
    counts['timedelta_fraction_sites'] = n
    if n < 1:
        raise AnalysisError('no use of timedelta.microseconds located in the datatypes')
    return res


def r11_7(ctx, counts) -> RuleResult:
    """values are ordered as instants: no decision on the year field alone"""
    from ..engine.cfg import CFG
    from ..engine.dataflow import branch_facts
    model: Model = ctx.model
    res = RuleResult(
        'R11.7', 'YEAR-SHORTCUT-GUARDED',
        'Date/time values are ordered as instants on the timeline. Two values whose year fields '
        'differ can be the same instant, or be ordered the other way round, when their timezones '
        'differ (2000-01-01T00:00:00+05:00 is 1999-12-31T19:00:00Z). In AbstractDateTime._compare '
        'a `return op(<year>, <year>)` — a verdict taken from the year fields alone — is '
        'therefore reachable only under a branch fact that restricts it to years the datetime '
        'module cannot represent (a test against the 1..9999 range); inside that range the '
        'comparison must be done on the timezone-aware datetime values.')
    cls = model.find_class('AbstractDateTime')
    f = cls.methods.get('_compare')
    if f is None:
        raise AnalysisError('AbstractDateTime._compare vanished')
    cfg = CFG(f.node)
    facts = branch_facts(cfg)
    n = 0
    for nd in cfg.nodes:
        a = nd.ast
        if nd.kind != 'stmt' or not isinstance(a, ast.Return) or not isinstance(a.value, ast.Call):
            continue
        c = a.value
        if len(c.args) != 2 or not all('year' in stmt_text(x) and 'dt' not in stmt_text(x).lower()
                                       for x in c.args):
            continue
        n += 1
        guarded = any('9999' in fa or 'MAXYEAR' in fa or 'MINYEAR' in fa for fa in facts[nd.id])
        res.instances.append(f'{f.key}: `{stmt_text(a)}` restricted to out-of-range years='
                             f'{guarded}')
        if guarded:
            res.ok()
        else:
            res.fail(finding('R11.7', f, a, 'verdict from the year fields',
                             f'`{stmt_text(a)}` decides the comparison from the year fields '
                             f'whenever they differ (facts: {sorted(facts[nd.id])[:3]}): with '
                             f'different timezones 2000-01-01T00:00:00+05:00 eq '
                             f'1999-12-31T19:00:00Z is false although both are the same instant'))
    dt_cmp = [x for x in walk_local(f.node) if isinstance(x, ast.Call) and len(x.args) == 2
              and '_dt' in stmt_text(x.args[0])]
    res.instances.append(f'{f.key}: {len(dt_cmp)} comparison(s) on the datetime values')
    if dt_cmp:
        res.ok()
    else:
        raise AnalysisError(f'{f.key}: no comparison of the datetime values located')
    counts['year_shortcuts'] = n
    return res


def r11_8(ctx, counts) -> RuleResult:
    """a memoised slot derived from mutable state is reset by every writer of that state"""
    model: Model = ctx.model
    res = RuleResult(
        'R11.8', 'DERIVED-SLOT-INVALIDATION',
        'The date/time values are mutable in one respect: the tzinfo setter (and any other method '
        'outside __init__/__new__ that assigns a base attribute such as self._dt) replaces the '
        'state the value is computed from; adjust-*-to-timezone and the implicit-timezone logic '
        'copy a value and then set its tzinfo. A slot that memoises something derived from that '
        'state — an attribute assigned outside __init__ from an expression that reads the base '
        'attribute — must be reassigned or deleted in every such writer, otherwise the copy '
        'keeps the key computed for the old timezone (comparisons of the adjusted value use the '
        'stale instant). Instances: (class, base attribute, derived attribute, writer).')
    n = 0
    writers_seen = 0
    for cls in sorted(model.all_classes(), key=lambda c: c.key):
        if not cls.module.name.startswith('elementpath.datatypes'):
            continue
        init_names = ('__init__', '__new__', '__setstate__', '__copy__', '__deepcopy__')
        # writers of base attributes outside construction
        writers: dict[str, list] = {}
        assigns: dict[str, list] = {}
        for m in [g for g in cls.module.functions.values() if g.cls is cls and g.parent is None]:
            for st in walk_local(m.node):
                tgts = []
                if isinstance(st, ast.Assign):
                    for t in st.targets:
                        tgts.extend(t.elts if isinstance(t, ast.Tuple) else [t])
                elif isinstance(st, (ast.AugAssign, ast.AnnAssign)) and getattr(st, 'value', None):
                    tgts = [st.target]
                for t in tgts:
                    if isinstance(t, ast.Attribute) and dotted(t.value) == 'self':
                        assigns.setdefault(t.attr, []).append((m, st))
        for attr, sites in assigns.items():
            for m, st in sites:
                if m.name not in init_names:
                    writers.setdefault(attr, []).append((m, st))
        if not writers:
            continue
        writers_seen += sum(len(v) for v in writers.values())
        # derived attributes: assigned outside construction from an expression reading a base
        # attribute that has an outside writer
        for d_attr, sites in assigns.items():
            for m, st in sites:
                if m.name in init_names or st.value is None:          # type: ignore[union-attr]
                    continue
                # base attributes read by the value, directly or through locals of the method
                local_reads: dict[str, set[str]] = {}
                for _ in range(3):
                    for a in sorted((y for y in walk_local(m.node) if isinstance(y, ast.Assign)),
                                    key=lambda q: q.lineno):
                        got = {x.attr for x in ast.walk(a.value) if isinstance(x, ast.Attribute)
                               and dotted(x.value) == 'self'}
                        for x in ast.walk(a.value):
                            if isinstance(x, ast.Name) and x.id in local_reads:
                                got |= local_reads[x.id]
                        for t in a.targets:
                            for e in (t.elts if isinstance(t, ast.Tuple) else [t]):
                                if isinstance(e, ast.Name):
                                    local_reads[e.id] = local_reads.get(e.id, set()) | got
                reads = {x.attr for x in ast.walk(st.value)           # type: ignore[union-attr]
                         if isinstance(x, ast.Attribute) and dotted(x.value) == 'self'}
                for x in ast.walk(st.value):                          # type: ignore[union-attr]
                    if isinstance(x, ast.Name) and x.id in local_reads:
                        reads |= local_reads[x.id]
                for base in sorted(reads & set(writers)):
                    if base == d_attr:
                        continue
                    for wm, wst in writers[base]:
                        if wm is m:
                            continue
                        n += 1
                        resets = any(
                            (isinstance(y, (ast.Assign, ast.AugAssign, ast.AnnAssign, ast.Delete))
                             and any(isinstance(z, ast.Attribute) and z.attr == d_attr
                                     and dotted(z.value) == 'self'
                                     and isinstance(z.ctx, (ast.Store, ast.Del))
                                     for z in ast.walk(y)))
                            for y in walk_local(wm.node))
                        res.instances.append(f'{cls.name}: {d_attr} (set in {m.name}) derives '
                                             f'from {base}; writer {wm.name} resets it={resets}')
                        if resets:
                            res.ok()
                        else:
                            res.fail(finding('R11.8', wm, wst, f'{d_attr} not reset with {base}',
                                             f'{cls.name}.{wm.name} replaces self.{base} '
                                             f'(`{stmt_text(wst)[:50]}`) but leaves self.{d_attr}, '
                                             f'which {m.name} computes from self.{base} and keeps: '
                                             f'a value whose timezone is set after a first use '
                                             f'(adjust-dateTime-to-timezone on a compared value) '
                                             f'keeps the stale derived value'))
    res.instances.append(f'{writers_seen} write(s) of instance state outside construction in the '
                         f'datatypes; {n} (derived slot, writer) pair(s)')
    res.ok()
    counts['state_writes_outside_init'] = writers_seen
    counts['derived_slot_pairs'] = n
    if writers_seen < 1:
        raise AnalysisError('no writer of instance state outside construction located in the '
                            'datatypes (the tzinfo setter vanished?)')
    return res


def r11_9(ctx, counts) -> RuleResult:
    """the datetime proxy does not carry the year of values outside 1..9999"""
    model: Model = ctx.model
    res = RuleResult(
        'R11.9', 'PROXY-YEAR-CARRIED',
        'AbstractDateTime keeps its fields in a datetime.datetime proxy (`_dt`) whose year is a '
        'stand-in (4 or 6) when the real year (`_year`) is outside 1..9999. A value rebuilt from '
        'the proxy of another value — `<cls>.fromdatetime(<expression reading ._dt>)` — must '
        'pass the real year (the `year` argument), otherwise BCE and five-digit years silently '
        'become year 4 or 6 (a difference of millions of days). Calls that convert an external '
        'datetime (no `._dt` in the argument) are not concerned.')
    n = sites = 0
    for f in sorted(model.all_functions(), key=lambda q: q.key):
        for c in walk_local(f.node):
            if not (isinstance(c, ast.Call) and isinstance(c.func, ast.Attribute)
                    and c.func.attr == 'fromdatetime' and c.args):
                continue
            sites += 1
            from_proxy = any(isinstance(x, ast.Attribute) and x.attr == '_dt'
                             for x in ast.walk(c.args[0]))
            if not from_proxy:
                continue
            n += 1
            has_year = len(c.args) > 1 or any(k.arg == 'year' for k in c.keywords)
            res.instances.append(f'{f.key}: `{stmt_text(c)[:60]}` passes the real year='
                                 f'{has_year}')
            if has_year:
                res.ok()
            else:
                res.fail(finding('R11.9', f, c, 'fromdatetime(proxy) without year',
                                 f'`{stmt_text(c)[:70]}` rebuilds a value from the datetime proxy '
                                 f'of another one without its real year: for years outside '
                                 f'1..9999 the proxy year (4 or 6) becomes the year of the '
                                 f'result (xs:dateTime("12000-01-01T00:00:00") minus itself with '
                                 f'an implicit timezone gave -P4381449D)'))
    res.instances.append(f'{sites} fromdatetime call(s) in the package, {n} from a proxy')
    res.ok()
    counts['fromdatetime_calls'] = sites
    if sites < 2:
        raise AnalysisError(f'only {sites} calls of fromdatetime located')
    return res

def r11_10(ctx, counts) -> RuleResult:
    """a timezone is applied to a copy, never to the value received"""
    from ..engine.cfg import CFG
    model: Model = ctx.model
    res = RuleResult(
        'R11.10', 'TZINFO-STORE-ON-OWN-COPY',
        'Date/time values are values: applying the implicit timezone or adjusting to another '
        'one yields a new value. Every store `X.tzinfo = …` on a name other than `self` in the '
        'package is reached only after X was bound, in the same function, to the result of a '
        'call that builds a value (copy(), a constructor, fromdelta(), an arithmetic result) — '
        'never while X is still a parameter, an operand fetched with get_argument/get_operands, '
        'a loop variable over such values or an alias of one. Otherwise a value bound to a '
        'variable keeps the implicit timezone of the first expression that used it.')
    sources = {'get_argument', 'get_operands', 'get_atomized_operand', 'evaluate', 'select',
               'atomization', 'data_value', 'cast'}
    n = 0
    for f in sorted(model.all_functions(), key=lambda q: q.key):
        if not f.module.name.startswith('elementpath'):
            continue
        stores = [(x, t) for x in walk_local(f.node) if isinstance(x, ast.Assign)
                  for t in x.targets if isinstance(t, ast.Attribute) and t.attr == 'tzinfo'
                  and isinstance(t.value, ast.Name) and t.value.id != 'self']
        if not stores:
            continue
        cfg = CFG(f.node)
        for x, t in stores:
            var = t.value.id                                   # type: ignore[attr-defined]
            n += 1

            def fresh_def(nd) -> bool:
                a = nd.ast
                if nd.kind != 'stmt':
                    return False
                if isinstance(a, ast.AugAssign) and isinstance(a.target, ast.Name) \
                        and a.target.id == var:
                    return True
                if isinstance(a, (ast.Assign, ast.AnnAssign)) and a.value is not None:
                    tg = a.targets if isinstance(a, ast.Assign) else [a.target]
                    if any(isinstance(q, ast.Name) and q.id == var for q in tg):
                        v = a.value
                        if isinstance(v, ast.BinOp):
                            return True
                        return isinstance(v, ast.Call) \
                            and dotted(v.func).split('.')[-1] not in sources
                return False
            holder = next((nd for nd in cfg.nodes if nd.kind == 'stmt' and nd.ast is x), None)
            if holder is None:
                raise AnalysisError(f'{f.key}: store L{x.lineno} not in the CFG')
            path = cfg.path_avoiding([cfg.entry], lambda m: m is holder, fresh_def,
                                     skip_start=False)
            res.instances.append(f'{f.key}: L{x.lineno} `{stmt_text(x)[:40]}` on a value built '
                                 f'in the function on every path={path is None}')
            if path is None:
                res.ok()
            else:
                res.fail(finding('R11.10', f, x, f'{var}.tzinfo store on a received value',
                                 f'`{stmt_text(x)[:50]}` is reached on a path where `{var}` was '
                                 f'not rebound to a copy or a newly built value: the timezone is '
                                 f'written into the value the caller (a variable binding, a '
                                 f'literal of the token tree) still holds',
                                 path=cfg.fmt_path(path)))
    counts['tzinfo_stores'] = n
    if n < 2:
        raise AnalysisError(f'only {n} tzinfo stores on values located (4 on the pinned tree)')
    return res


def run(ctx) -> dict:
    counts: dict[str, int] = {}
    # process-wide state is written only by the reviewed inventory (no new caches)
    from .c19_global import r19_5 as _r19_5
    _state = _r19_5(ctx, counts, lambda f: f.module.name.startswith(('elementpath.datatypes', 'elementpath.helpers')), 1)
    return {
        'results': [r11_1(ctx, counts), r11_2(ctx, counts), r11_3(ctx, counts), _clones(ctx, counts),
                    r11_5(ctx, counts), r11_6(ctx, counts), r11_7(ctx, counts), r11_8(ctx, counts),
                    r11_9(ctx, counts), r11_10(ctx, counts), _state],
        'counts': counts,
        'explanation':
            'Only the last sentence of C11 is decided ("the component-extraction functions '
            'return the value\'s own components"), in its table-shaped part: each '
            '<component>-from-<type> function fetches an argument of the class its name says and '
            'reads the component its name says on the branch its own symbol selects; and every '
            'conversion of a microsecond count carries the factor 10^6.',
        'not_decided':
            'Four structural necessary conditions of the timeline clauses are decided (timedelta '
            'parts summed, year shortcut guarded, derived slots reset by the tzinfo setter, the '
            'real year carried when a value is rebuilt from a proxy). Not decided: the timeline '
            'identities themselves (todelta/fromdelta round trip, d + dur - dur = d, elapsed time, '
            'timezone adjustment preserving the instant, day clamping), BCE and beyond-9999 '
            'calendar arithmetic, the arithmetic applied to duration fields: statements over '
            'calendar values.',
        'assumptions': ['component table transcribed from F&O 3.1 §9.5 (function names)',
                        'property names of AbstractDateTime/Duration as read by the functions'],
    }
